"""
C05 - circuits are isolated from each other and from third parties.

Several originators build up to 6 concurrent circuits over a deliberately small pool of relays/exits (forcing shared
relays), each circuit talks to its own outside server.  A real, fully introduced adversary node then sends forged
cells, `create` requests naming live circuit ids (before and after the 60 s CreatedRequestCache expired) and `destroy`
messages (own signature, and replays of genuine destroys) according to an explicit fault list.  Routing tables of all
nodes are compared by object identity around the attack window.
"""
from __future__ import annotations

import asyncio
import itertools
import random

from simkit.scenario import Case

from .tunnel_lib import TunnelWorld, cell_parts

PROPERTY = "C05"
LEVEL = "exploration"
BUDGET = {"quick": 35, "thorough": 480}
CHUNK = 2
CASE_WALL = {"quick": 180, "thorough": 600}
ENUMERATED = {"quick": False, "thorough": False}
SHRINK_FIELDS = ("attacks",)
RULE = ("case = (number of originators 1..3, circuits 1..6 with hop counts 1..3 over a pool of 3..4 relays/exits, virtual "
        "time before the attack (5 s or 70 s, i.e. before/after the CreatedRequestCache expiry), explicit attack list: "
        "cell with unknown id, garbage cell on a live id, genuine body of circuit Y under the id of circuit X, create for a "
        "live id in exit_sockets / relay_from_to / circuits, destroy signed by the adversary for any live id, replay of a "
        "genuine destroy of X towards other nodes / ids, new circuits built while an on-path attacker re-labels plaintext `created` "
        "answers with the id of an established exit entry of the receiving node). Non-trivial = at least two circuits shared a relay or exit while "
        "carrying data; distinct by (attack kind, table the id lives in, before/after expiry, sharing pattern).")
COMPONENTS = {"real": ["TunnelCommunity (on_create/on_created/on_extend/on_data/on_destroy/exit_data)", "PythonCryptoEndpoint",
                       "TunnelExitSocket on simulated outside transports", "RequestCache time-outs (CreatedRequestCache 60 s)",
                       "the adversary is a real TunnelCommunity node using its own real send paths"],
              "stub": ["UDP/IP (SimNet)", "outside servers", "wall clock", "OS RNG"]}
ASSUMPTIONS = ["entries may disappear through the documented paths only: destroy from the adjacent node, local removal, "
               "inactivity/age sweeps; the attack window is kept shorter than max_time_inactive and circuits are kept busy",
               "hidden-service circuits not covered"]
REACH = ["shared_relay_pairs", "forged_create_live_exit_before_expiry", "forged_create_live_exit_after_expiry",
         "forged_create_live_relay", "forged_destroy_non_neighbour", "forged_destroy_spoofed_source", "replayed_destroy", "cross_circuit_body",
         "garbage_on_live_id", "unknown_id_cell", "legit_destroy_removed_only_own", "data_delivered",
         "created_relabelled_with_live_exit_id", "signed_message_replayed_from_adversary_address", "forged_created_badauth", "forged_created_shortkey",
         "plaintext_flagged_data_on_live_exit_id", "nested_data_message_from_outside", "data_cell_into_half_built_circuit", "custom_join_policy", "keyless_relay_early_flood", "keyless_traffic_flood",
         "forged_destroy_for_surviving_half_of_relay_pair", "first_data_cell_replayed_from_adversary_address",
         "create_racing_with_create_for_same_id", "create_for_new_id_at_full_node", "idle_circuit_never_exited_data_before_attack", "nested_data_message_reentering_at_an_exit"]

ATTACKS = ["unknown_id", "garbage_live", "cross_body", "create_live", "create_live", "destroy_own_sig", "destroy_replay",
           "destroy_spoofed_src", "created_cid_swap", "signed_replay_adv", "forged_created_badauth", "forged_created_shortkey",
           "plain_data_live", "nested_data_from_outside", "data_into_half_built", "relay_early_flood", "traffic_flood",
           "destroy_half_pair", "first_data_replay", "create_race", "full_node_create", "nested_reentry_exit"]


def cases(tier: str, base_seed: int):  # noqa: ANN201
    n = 0
    # scripted: every attack kind, before and after the create cache expired
    for wait in (5.0, 70.0):
        for kind in sorted(set(ATTACKS)):
            n += 1
            yield {"seed": base_seed + n, "knobs": {}, "originators": 2, "pool": 3, "circuits": [2, 2, 1, 3], "wait": wait,
                   "attacks": [{"kind": kind, "pick": k / 7.0} for k in range(6)],
                   "join_policy": "accept_all" if kind == "create_live" and wait > 60 else None,
                   "max_traffic": 150000 if kind == "traffic_flood" else None}
    for wait in (5.0, 70.0):
        # the same forged creates against circuits that were only pinged so far (exit entry exists, outside socket never opened)
        n += 1
        yield {"seed": base_seed + n, "knobs": {}, "originators": 2, "pool": 3, "circuits": [1, 2, 1, 3], "wait": wait, "idle": [0, 1, 2, 3],
               "attacks": [{"kind": "create_live", "pick": k / 11.0} for k in range(11)],
               "join_policy": "accept_all" if wait > 60 else None, "max_traffic": None}
    for i in itertools.count():
        seed = base_seed + 1000 + i
        rng = random.Random(f"c05/{seed}")
        ncirc = rng.choice([1, 2, 3, 4, 6])
        yield {"seed": seed, "originators": rng.choice([1, 2, 3]), "pool": rng.choice([3, 3, 4]),
               "circuits": [rng.choice([1, 2, 2, 3]) for _ in range(ncirc)], "wait": rng.choice([5.0, 70.0, 70.0]),
               "knobs": {"lat_jit": rng.choice([0.0, 0.02, 0.1]), "dup": rng.choice([0.0, 0.0, 0.05]),
                         "timer_jitter": rng.choice([0.0, 0.001])},
               "attacks": [{"kind": rng.choice(ATTACKS), "pick": rng.random()} for _ in range(rng.choice([2, 5, 12]))],
               "join_policy": rng.choice([None, None, "accept_all"]), "max_traffic": rng.choice([None, None, 150000]),
               # tuning knobs of the library, varied per run
               "settings": rng.choice([{}, {}, {"remove_tunnel_delay": rng.choice([0, 1]), "unstable_timeout": rng.choice([5, 60])}]),
               # circuits that are only pinged until the attack burst (their exit entry has not opened its outside socket yet)
               "idle": [j for j in range(ncirc) if rng.random() < 0.2]}


def execute(case: dict) -> dict:  # noqa: C901, PLR0915
    from ipv8.messaging.anonymization.payload import CreatePayload, DestroyPayload
    from ipv8.messaging.interfaces.udp.endpoint import UDPv4Address

    c = Case(case, net=True, first_only=False)
    world, net = c.world, c.net
    rng = world.stream("c05")
    n_orig, n_pool = case["originators"], case["pool"]
    n = n_orig + n_pool + 1                       # + adversary (last node)
    exits = tuple(range(n_orig + n_pool - 2, n_orig + n_pool))
    tw = TunnelWorld(c, n=n, exits=exits, flags={n - 1: {8}},   # the adversary is no relay candidate
                     settings={**({"max_traffic": int(case["max_traffic"])} if case.get("max_traffic") else {}), **(case.get("settings") or {})} or None)
    circuits: list = []     # dicts: origin node, circuit, server, markers
    destroys_seen: list = []

    def tables() -> dict:
        snap = {}
        for node in tw.nodes[:-1]:
            for tname in ("circuits", "relay_from_to", "exit_sockets"):
                for cid, obj in getattr(node.ov, tname).items():
                    hop = getattr(obj, "hop", None)
                    snap[(node.name, tname, cid)] = (obj, hop.keys if hop is not None else None,
                                                     hop.peer.public_key.key_to_bin() if hop is not None and hop.peer else None,
                                                     getattr(obj, "circuit_id", None),
                                                     tuple(hop.address) if hop is not None and hop.peer else None)
        return snap

    def on_send(pkt, fate) -> None:  # noqa: ANN001
        if len(pkt.data) > 22 and pkt.data[22] == DestroyPayload.msg_id and pkt.src_node != tw.nodes[-1].name:
            destroys_seen.append(pkt)
    net.on_send.append(on_send)
    swap = {"on": False, "n": 0}

    def created_filter(pkt):  # noqa: ANN001, ANN202
        """On-path attacker: a plaintext `created` answer towards a node that holds an established exit entry is re-labelled with
        that entry's circuit id (the identifier field, which is what the answer is matched by, stays)."""
        if not swap["on"] or pkt.injected:
            return None
        parts = cell_parts(pkt.data)
        if parts is None or len(pkt.data) < 30 or not pkt.data[27] or pkt.data[29] != 3:
            return None
        rcv = tw.node_of_ip(pkt.dst[0])
        if rcv is None or rcv is tw.nodes[-1]:
            return None
        ids = sorted(cid for cid, es in rcv.ov.exit_sockets.items() if cid != parts[0] and es.enabled)
        if not ids:
            return None
        swap["n"] += 1
        world.probe("created_relabelled_with_live_exit_id")
        return pkt.data[:23] + ids[swap["n"] % len(ids)].to_bytes(4, "big") + pkt.data[27:]
    net.filters.append(created_filter)
    forge = {"mode": None, "n": 0, "victims": set()}

    def create_observer(pkt, fate) -> None:  # noqa: ANN001
        """Off-path forger that has seen a plaintext `create` (circuit id and 16-bit identifier are in the clear): it answers first,
        with a `created` it made up - random key material of the right or of a wrong length, no session keys involved."""
        if forge["mode"] is None or pkt.injected or fate == "dup":
            return
        parts = cell_parts(pkt.data)
        if parts is None or not parts[1] or len(parts[3]) < 3 or parts[3][0] != 2:
            return
        snd = tw.node_of_ip(pkt.src[0])
        if snd is None or snd is tw.nodes[-1] or parts[0] not in snd.ov.circuits:
            return          # only first-hop creates of originators: the answer goes straight to the circuit's owner
        ident = parts[3][1:3]
        klen = 32 if forge["mode"] == "badauth" else (31, 0, 33)[forge["n"] % 3]
        forge["n"] += 1
        key = rng.randbytes(klen)
        body = b"\x03" + ident + len(key).to_bytes(2, "big") + key + rng.randbytes(32) + rng.randbytes(8)
        world.probe("forged_created_" + forge["mode"])
        forge["victims"].add((snd.name, parts[0]))
        net.inject(tw.nodes[-1].address if forge["n"] % 2 else pkt.dst, pkt.src, pkt.data[:23] + parts[0].to_bytes(4, "big") + b"\x01\x00" + body,
                   delay=0.0001, label="forged_created")
    net.on_send.append(create_observer)

    idle_circuits = set(case.get("idle") or ())

    async def send_round(k: int) -> None:
        for ci in circuits:
            circ, o = ci["circ"], ci["o"]
            if circ.state != "READY":
                continue
            if k < 100 and ci["idx"] in idle_circuits:
                # a circuit that is kept alive by pings only until the attack: its exit entry never exited data (socket not opened)
                world.probe("idle_circuit_never_exited_data_before_attack")
                continue
            marker = b"C%02dM%04d" % (ci["idx"], k) + rng.randbytes(3).hex().encode()
            payload = b"d" + marker + rng.randbytes(rng.choice([4, 40, 300])) + b"e"
            ci["sent"].add(payload)
            ci["replies"].add(ci["w"].reply(payload, None))
            o.call(o.ov.send_data, circ.hop.address, circ.circuit_id, UDPv4Address(*ci["w"].address), ("0.0.0.0", 0), payload)
        await asyncio.sleep(0.6)

    async def main() -> None:  # noqa: C901, PLR0912, PLR0915
        await tw.build()
        await tw.introduce()
        adv = tw.nodes[-1]
        if case.get("join_policy") == "accept_all":
            # should_join_circuit is a hook meant to be overridden: an application policy that does not consult the default one
            for node in tw.nodes[:-1]:
                async def accept_all(payload, addr) -> bool:  # noqa: ANN001
                    return True
                node.ov.should_join_circuit = accept_all
            world.probe("custom_join_policy")
        # build all circuits concurrently so that their handshakes interleave at the shared relays
        pending = []
        for idx, hops in enumerate(case["circuits"]):
            o = tw.nodes[idx % n_orig]
            w = tw.add_outside(f"w{idx}", f"9.9.9.{10 + idx}", 7000 + idx)
            pending.append((idx, o, w, hops, o.call(o.ov.create_circuit, hops)))
        await asyncio.sleep(4.0)
        for idx, o, w, hops, circ in pending:
            if circ is None or circ.state != "READY":
                circ = await tw.build_circuit(o, hops, tries=2)
            if circ is not None:
                circuits.append({"idx": idx, "o": o, "w": w, "circ": circ, "sent": set(), "replies": set(),
                                 "path": tw.path_of(o, circ)})
        if not circuits:
            world.probe("no_circuit")
            return
        # sharing statistics
        for a, b in itertools.combinations(circuits, 2):
            if {x.name for x in a["path"] if x} & {x.name for x in b["path"] if x}:
                world.probe("shared_relay_pairs")
                c.nontrivial(f"share/{len(a['path'])}/{len(b['path'])}")
        await send_round(0)           # opens the exits' outside sockets
        await asyncio.sleep(1.0)
        # keep circuits busy until the attack time (pings run every 7.5 s by themselves; data every few seconds)
        t_attack = world.loop.time() + case["wait"]
        k = 1
        while world.loop.time() < t_attack:
            await send_round(k)
            k += 1
            await asyncio.sleep(min(4.0, max(0.1, t_attack - world.loop.time())))
        before = tables()
        # only entries of established circuits are expected to be stable (a half-built circuit may give up by time-out)
        stable: set = set()
        owner_of: dict = {}       # stable key -> index of the circuit it belongs to
        state_once: dict = {}
        freed: set = set()        # ids of relay directions that "timed out on their own" (destroy_half_pair): free again
        diverted: set = set()     # circuits whose forward path was diverted by a replayed signed message (not judged, see below)
        for ci in circuits:
            if ci["circ"].state != "READY":
                continue
            cid = ci["circ"].circuit_id
            n_before_ci = len(stable)
            stable.add((ci["o"].name, "circuits", cid))
            for hop_node in ci["path"]:
                if hop_node is None:
                    break
                if cid in hop_node.ov.exit_sockets:
                    stable.add((hop_node.name, "exit_sockets", cid))
                    break
                rel = hop_node.ov.relay_from_to.get(cid)
                if rel is None:
                    break
                stable.add((hop_node.name, "relay_from_to", cid))
                stable.add((hop_node.name, "relay_from_to", rel.circuit_id))
                cid = rel.circuit_id
            del n_before_ci
            for k3 in stable:
                owner_of.setdefault(k3, ci["idx"])
        after_expiry = case["wait"] > 61
        # ---------------------------------------------------------------- the attack burst
        live = sorted(stable & set(before))      # (node, table, cid)
        wire_cells = [p for p in tw.wire if cell_parts(p.data) and p.label == "DataPayload" and not p.injected]
        for atk in case["attacks"]:
            kind = atk["kind"]
            pick = atk["pick"]
            if not live:
                break
            node_name, tname, cid = live[int(pick * len(live)) % len(live)]
            target = next(x for x in tw.nodes if x.name == node_name)
            prefix = target.ov.get_prefix()
            c.nontrivial(f"{kind}/{tname}/{after_expiry}/{sorted(case['circuits'])}")
            if kind == "unknown_id":
                world.probe("unknown_id_cell")
                body = rng.randbytes(40)
                net.inject(adv.address, target.address, prefix + b"\x00" + rng.getrandbits(32).to_bytes(4, "big") + b"\x00\x00" + body)
            elif kind == "garbage_live":
                world.probe("garbage_on_live_id")
                for flags in (b"\x00\x00", b"\x01\x00", b"\x00\x01"):
                    net.inject(adv.address if pick < 0.5 else (target.ip[:-1] + "9", 8090), target.address,
                               prefix + b"\x00" + cid.to_bytes(4, "big") + flags + rng.randbytes(rng.choice([1, 30, 120])))
            elif kind == "cross_body":
                others = [p for p in wire_cells if cell_parts(p.data)[0] != cid and p.dst == target.address]
                if others:
                    world.probe("cross_circuit_body")
                    src_pkt = others[int(pick * 997) % len(others)]
                    body = cell_parts(src_pkt.data)[3]
                    net.inject(src_pkt.src if pick < 0.5 else adv.address, target.address,
                               prefix + b"\x00" + cid.to_bytes(4, "big") + src_pkt.data[27:29] + body)
            elif kind == "create_live":
                world.probe(f"forged_create_live_{'exit' if tname == 'exit_sockets' else 'relay' if tname == 'relay_from_to' else 'circuit'}"
                            + ("" if tname != "exit_sockets" else ("_after_expiry" if after_expiry else "_before_expiry")))
                c.nontrivial(f"create_live/{tname}/{after_expiry}")
                dh = adv.call(adv.ov.crypto.generate_diffie_secret)
                adv.call(adv.ov.send_cell, target.address,
                         CreatePayload(cid, rng.randrange(65536), adv.my_peer.public_key.key_to_bin(), dh[1]))
            elif kind == "created_cid_swap":
                # new circuits are built through the shared pool while every `created` answer towards a node with an established
                # exit entry names that entry's id instead of the id the relay chose
                c.nontrivial(f"created_cid_swap/{after_expiry}")
                swap["on"] = True
                for o in tw.nodes[:n_orig]:
                    o.call(o.ov.create_circuit, 2 + int(pick * 2) % 2)
                await asyncio.sleep(1.5)
                swap["on"] = False
            elif kind == "destroy_own_sig":
                world.probe("forged_destroy_non_neighbour")
                c.nontrivial(f"destroy_own/{tname}/{after_expiry}")
                adv.call(adv.ov.send_destroy, target.address, cid, 1 + int(pick * 3))
            elif kind == "destroy_spoofed_src":
                # signed by the adversary's own key, but arriving from the address of the entry's real neighbour
                entry = before[(node_name, tname, cid)][0]
                hop = getattr(entry, "hop", None)
                if hop is not None and hop.peer is not None:
                    world.probe("forged_destroy_spoofed_source")
                    c.nontrivial(f"destroy_spoofed/{tname}/{after_expiry}")
                    pkt_d = adv.call(adv.ov.ezr_pack, DestroyPayload.msg_id, DestroyPayload(cid, 1 + int(pick * 3)))
                    net.inject(tuple(hop.address), target.address, pkt_d, label="forged_destroy")
            elif kind == "traffic_flood":
                # a volume of undecryptable cells naming an established circuit, sent to its ORIGINATOR by a third party: more bytes
                # than the circuit's traffic allowance (only configurations with a small max_traffic make that practical)
                if case.get("max_traffic") and tname == "circuits":
                    world.probe("keyless_traffic_flood")
                    c.nontrivial("traffic_flood")
                    nbytes = 0
                    k = 0
                    while nbytes < int(case["max_traffic"]) * 1.3:
                        k += 1
                        body = rng.randbytes(1000)
                        nbytes += 1029
                        net.inject(adv.address, target.address, prefix + b"\x00" + cid.to_bytes(4, "big") + b"\x00\x00" + body,
                                   delay=0.0001 * k)
                    await asyncio.sleep(6.0)          # one sweep tick
            elif kind == "relay_early_flood":
                # a fresh 2-hop circuit; before its owner sends anything a third party (no keys) showers the first hop with
                # undecryptable cells that name the circuit and carry the relay_early flag; the owner's first datagrams (which carry
                # that flag too) must still get through
                o = tw.nodes[int(pick * 7) % n_orig]
                fresh = await tw.build_circuit(o, 2, tries=1)
                if fresh is not None and fresh.state == "READY":
                    fidx = 100 + len(circuits)
                    wsrv = tw.add_outside(f"wf{fidx}", f"9.9.8.{fidx % 250}", 7500 + fidx % 400)
                    fci = {"idx": fidx, "o": o, "w": wsrv, "circ": fresh, "sent": set(), "replies": set(), "path": tw.path_of(o, fresh)}
                    circuits.append(fci)
                    for k in range(14):
                        net.inject(adv.address, fresh.hop.address,
                                   prefix + b"\x00" + fresh.circuit_id.to_bytes(4, "big") + b"\x00\x01" + rng.randbytes(60), delay=0.0002 * (k + 1))
                    await asyncio.sleep(0.2)
                    world.probe("keyless_relay_early_flood")
                    c.nontrivial("relay_early_flood")
                    mine = []
                    for k in range(5):
                        pl = b"d" + b"FRESH%02d" % k + rng.randbytes(3).hex().encode() + b"e"
                        mine.append(pl)
                        fci["sent"].add(pl)
                        fci["replies"].add(wsrv.reply(pl, None))
                        o.call(o.ov.send_data, fresh.hop.address, fresh.circuit_id, UDPv4Address(*wsrv.address), ("0.0.0.0", 0), pl)
                        await asyncio.sleep(0.05)
                    await asyncio.sleep(1.5)
                    got = {d for _t, d, _s in wsrv.received}
                    if not case["knobs"].get("loss") and not any(pl in got for pl in mine) and not swap.get("replayed"):
                        c.violate("tables_unchanged", "fresh_circuit_muted_by_keyless_cells",
                                  f"none of the first {len(mine)} datagrams of a fresh 2-hop circuit left its exit after 14 undecryptable "
                                  f"relay_early cells naming the circuit were sent to its first hop by a third party")
                    o.call(o.ov.remove_circuit, fresh.circuit_id, "c05 fresh done", destroy=1)
                    fci["removed"] = True
            elif kind == "destroy_half_pair":
                # one direction of a relay pair has expired on its own (the sweep times the two directions separately: a cell
                # refreshes only the entry it is looked up under), then a third party sends a destroy, signed with its own key, for
                # the id of the surviving direction
                rels = [k3 for k3 in live if k3[1] == "relay_from_to"]
                if rels:
                    node_name, tname, cid = rels[int(pick * 983) % len(rels)]
                    target = next(x for x in tw.nodes if x.name == node_name)
                    rel = target.ov.relay_from_to.get(cid)
                    if rel is not None and rel.circuit_id in target.ov.relay_from_to and owner_of.get((node_name, tname, cid)) not in diverted:
                        target.ov.relay_from_to.pop(rel.circuit_id)
                        freed.add(rel.circuit_id)
                        live = [k3 for k3 in live if k3 != (node_name, "relay_from_to", rel.circuit_id)]
                        diverted.add(owner_of.get((node_name, tname, cid)))      # the circuit is half dead from here on: not judged
                        world.probe("forged_destroy_for_surviving_half_of_relay_pair")
                        c.nontrivial(f"destroy_half_pair/{after_expiry}")
                        # (the sweep may remove the surviving direction for inactivity at any moment - nothing refreshes it any more -
                        #  so the removal REQUEST made by the destroy handler is what is observed, not the table)
                        calls: list = []
                        orig_rr = target.ov.remove_relay

                        def spy_rr(cid_, info="", *a, _o=orig_rr, _calls=calls, **k):  # noqa: ANN001, ANN002, ANN003, ANN202
                            _calls.append((cid_, str(info)))
                            return _o(cid_, info, *a, **k)
                        target.ov.remove_relay = spy_rr
                        adv.call(adv.ov.send_destroy, target.address, cid, 1 + int(pick * 3))
                        await asyncio.sleep(0.5)
                        del target.ov.remove_relay
                        freed.add(cid)
                        if any(cid_ == cid and info.startswith("got destroy") for cid_, info in calls):
                            c.violate("tables_unchanged", "destroy_of_third_party_accepted_for_half_expired_relay_pair",
                                      f"{node_name} holds only one direction of a relay pair (the other timed out on its own); a destroy for "
                                      f"id {cid} signed by a node that is not on the circuit made it remove the entry and pass the destroy on")
            elif kind == "first_data_replay":
                # a fresh circuit; an on-path observer copies the first data cell on the last link and sends the copy to the exit from
                # its own address so that it arrives first (cells carry no replay protection: the copy decrypts)
                o = tw.nodes[int(pick * 7) % n_orig]
                fresh = await tw.build_circuit(o, 1 + int(pick * 3) % 2, tries=1)
                if fresh is not None and fresh.state == "READY":
                    fidx = 200 + len(circuits)
                    wsrv = tw.add_outside(f"wr{fidx}", f"9.9.7.{fidx % 250}", 7900 + fidx % 90)
                    fpath = tw.path_of(o, fresh)
                    fci = {"idx": fidx, "o": o, "w": wsrv, "circ": fresh, "sent": set(), "replies": set(), "path": fpath}
                    circuits.append(fci)
                    xnode = fpath[-1] if fpath and fpath[-1] is not None else None
                    xcid = fresh.circuit_id
                    for hop_node in fpath[:-1]:
                        r2 = hop_node.ov.relay_from_to.get(xcid) if hop_node is not None else None
                        xcid = r2.circuit_id if r2 is not None else xcid
                    es = xnode.ov.exit_sockets.get(xcid) if xnode is not None else None
                    if es is not None and not es.enabled:
                        genuine_prev = tuple(es.hop.address)
                        shot = {"done": False}

                        def copy_first(pkt, fate, _x=xnode, _cid=xcid, _shot=shot) -> None:  # noqa: ANN001
                            parts = cell_parts(pkt.data)
                            if _shot["done"] or pkt.injected or parts is None or parts[0] != _cid or tuple(pkt.dst) != tuple(_x.address):
                                return
                            _shot["done"] = True
                            net.inject(adv.address, _x.address, pkt.data, delay=0.00001, label="replayed_first_data")
                        net.on_send.append(copy_first)
                        for k in range(3):
                            pl = b"d" + b"FIRST%02d" % k + rng.randbytes(3).hex().encode() + b"e"
                            fci["sent"].add(pl)
                            fci["replies"].add(wsrv.reply(pl, None))
                            o.call(o.ov.send_data, fresh.hop.address, fresh.circuit_id, UDPv4Address(*wsrv.address), ("0.0.0.0", 0), pl)
                            await asyncio.sleep(0.3)
                        net.on_send.remove(copy_first)
                        await asyncio.sleep(1.0)
                        if shot["done"]:
                            world.probe("first_data_cell_replayed_from_adversary_address")
                            c.nontrivial(f"first_data_replay/{len(fpath)}")
                            es2 = xnode.ov.exit_sockets.get(xcid)
                            if es2 is not None and tuple(es2.hop.address) != genuine_prev:
                                c.violate("tables_unchanged", "exit_entry_readdressed:first_data_replay",
                                          f"{xnode.name}.exit_sockets[{xcid}]: the previous hop changed from {genuine_prev} to "
                                          f"{tuple(es2.hop.address)}{' (the adversary)' if tuple(es2.hop.address) == tuple(adv.address) else ''} "
                                          f"after a copy of the circuit's first data cell arrived from the adversary's address")
                    o.call(o.ov.remove_circuit, fresh.circuit_id, "c05 replay done", destroy=1)
                    fci["removed"] = True
            elif kind == "create_race":
                # an originator builds a new circuit; a third party that sees the plaintext create sends a create of its own with the
                # SAME circuit id to the same hop so that both are handled in one event-loop iteration (the copy right behind the
                # genuine one, or right in front of it)
                import struct
                o = tw.nodes[int(pick * 7) % n_orig]
                race = {"done": False, "x": None, "cid": None}
                after_genuine = int(pick * 100) % 3 != 0
                dh = adv.call(adv.ov.crypto.generate_diffie_secret)
                advpk = adv.my_peer.public_key.key_to_bin()

                def racing_create(pkt, tr, _race=race, _o=o) -> None:  # noqa: ANN001
                    parts = cell_parts(pkt.data)
                    if _race["done"] or pkt.injected or parts is None or not parts[1] or parts[3][:1] != b"\x02" or pkt.src_node != _o.name:
                        return
                    _race["done"] = True
                    _race["x"], _race["cid"] = tr.host.name, parts[0]
                    forged = pkt.data[:29] + b"\x02" + struct.pack(">H", rng.randrange(65536)) + struct.pack(">H", len(advpk)) + advpk + \
                        struct.pack(">H", len(dh[1])) + dh[1]

                    def hand(_tr=tr, _d=forged) -> None:
                        try:
                            _tr.proto.datagram_received(_d, tuple(adv.address))
                        except Exception:  # noqa: BLE001
                            world.probe("racing_create_raised")
                    if after_genuine:
                        world.loop.call_soon(hand, context=world.node_context(tr.host.name, ("race", pkt.id)))
                    else:
                        hand()
                net.on_deliver.append(racing_create)
                fresh = o.call(o.ov.create_circuit, 1 + int(pick * 5) % 2)
                await asyncio.sleep(2.0)
                net.on_deliver.remove(racing_create)
                if fresh is not None and race["done"]:
                    world.probe("create_racing_with_create_for_same_id")
                    c.nontrivial(f"create_race/{after_genuine}/{fresh.state}")
                    xnode = next((x2 for x2 in tw.nodes if x2.name == race["x"]), None)
                    # (after a replayed signed message the originator may believe that its neighbour lives at the adversary's address
                    #  and send the create there: that denial of service is documented above and not judged)
                    if fresh.hops and xnode is not None and xnode is not adv and fresh.circuit_id in o.ov.circuits:
                        ent = xnode.ov.relay_from_to.get(race["cid"]) or xnode.ov.exit_sockets.get(race["cid"])
                        mine, theirs = fresh.hops[0].keys, getattr(getattr(ent, "hop", None), "keys", None)
                        same = theirs is not None and (mine.key_forward, mine.key_backward) == (theirs.key_forward, theirs.key_backward)
                        if not same:
                            c.violate("tables_unchanged", "entry_of_circuit_under_construction_taken_by_racing_create",
                                      f"{o.name} accepted {race['x']} as first hop of circuit {race['cid']}, but the entry {race['x']} holds "
                                      f"for that id {'does not exist' if ent is None else 'carries other session keys'}: a create for the same "
                                      f"id sent by a third party {'right behind' if after_genuine else 'right in front of'} the genuine one "
                                      f"was handled in the same loop iteration")
                    if fresh.circuit_id in o.ov.circuits:
                        o.call(o.ov.remove_circuit, fresh.circuit_id, "c05 race done", destroy=1)
                    freed.add(race["cid"])
            elif kind == "full_node_create":
                # a node that has joined as many circuits as it is willing to (max_joined_circuits) and whose links were silent for a
                # while (one ping period of loss) gets a create for a NEW id from a third party: refusing is fine, making room is not
                xs = sorted({k3[0] for k3 in live if k3[1] == "exit_sockets"})
                if xs and not state_once.get("blackout"):
                    state_once["blackout"] = True        # (one silent period per run: several in a row would exceed max_time_inactive)
                    await send_round(900)                # every circuit has just been active
                    xnode = next(x2 for x2 in tw.nodes if x2.name == xs[int(pick * 991) % len(xs)])
                    old_max = xnode.ov.settings.max_joined_circuits
                    xnode.ov.settings.max_joined_circuits = len(xnode.ov.relay_from_to) + len(xnode.ov.exit_sockets)

                    def blackout(pkt, _x=xnode):  # noqa: ANN001, ANN202
                        if tuple(pkt.dst) == tuple(_x.address) and pkt.src_node != adv.name and not pkt.injected:
                            world.fault("targeted_drop")
                            return "drop"
                        return None
                    net.filters.append(blackout)
                    await asyncio.sleep(8.0 + pick / 2)
                    world.probe("create_for_new_id_at_full_node")
                    c.nontrivial(f"full_node_create/{after_expiry}")
                    dh = adv.call(adv.ov.crypto.generate_diffie_secret)
                    adv.call(adv.ov.send_cell, xnode.address,
                             CreatePayload(rng.getrandbits(32) | 1, rng.randrange(65536), adv.my_peer.public_key.key_to_bin(), dh[1]))
                    await asyncio.sleep(0.5)
                    net.filters.remove(blackout)
                    xnode.ov.settings.max_joined_circuits = old_max
            elif kind == "plain_data_live":
                # a well-formed DataPayload that simply claims to be plaintext, under the id of an established exit entry, towards an
                # outside server of the adversary's choosing
                if tname == "exit_sockets" and circuits:
                    from ipv8.messaging.serialization import Serializer
                    ser = Serializer()
                    victim_ci = circuits[int(pick * 977) % len(circuits)]
                    evil = b"d" + b"PLAINEVIL%04d" % int(pick * 9999) + b"e"
                    body = b"\x01" + ser.pack("address", tuple(victim_ci["w"].address)) + ser.pack("address", ("0.0.0.0", 0)) + evil
                    world.probe("plaintext_flagged_data_on_live_exit_id")
                    c.nontrivial(f"plain_data_live/{after_expiry}")
                    for flags in (b"\x01\x00", b"\x01\x01"):
                        net.inject(adv.address, target.address, prefix + b"\x00" + cid.to_bytes(4, "big") + flags + body)
            elif kind == "nested_data_from_outside":
                # an outside host answers into circuit X with a datagram that LOOKS like a message of the tunnel overlay: a data message
                # naming another circuit Y of the same originator (ids are in the clear in every cell header), with made-up content
                own = [ci for ci in circuits if ci["circ"].state == "READY" and ci["w"].received]
                if own:
                    from ipv8.messaging.serialization import Serializer
                    ser = Serializer()
                    x = own[int(pick * 971) % len(own)]
                    others = [ci for ci in circuits if ci["o"] is x["o"] and ci is not x] or [x]
                    y = others[int(pick * 13) % len(others)]
                    evil = b"d" + b"NESTEDEVIL%04d" % int(pick * 9999) + b"e"
                    nested = x["o"].ov.get_prefix() + b"\x01" + y["circ"].circuit_id.to_bytes(4, "big") + \
                        ser.pack("address", ("0.0.0.0", 0)) + ser.pack("address", ("6.6.6.6", 66)) + evil
                    world.probe("nested_data_message_from_outside")
                    c.nontrivial(f"nested_data/{x is y}")
                    for src in sorted({s3 for _t, _d, s3 in x["w"].received}):
                        x["w"].transport.sendto(nested, src)
            elif kind == "nested_reentry_exit":
                # the EXIT node E of circuit Y is itself the originator of a circuit X of its own; an outside host that E talks to over X
                # answers with a datagram that looks like a data message of the tunnel overlay naming Y's id at E (ids are in the clear
                # on E's links) and Y's outside server as destination: it never entered circuit Y and carries no session key
                own = [ci for ci in circuits if ci["circ"].state == "READY" and ci["w"].received and ci["path"] and ci["path"][-1] is not None
                       and not ci.get("removed")]
                if own:
                    from ipv8.messaging.serialization import Serializer
                    ser = Serializer()
                    yci = own[int(pick * 967) % len(own)]
                    e_node = yci["path"][-1]
                    ycid = next((cid2 for cid2, es2 in sorted(e_node.ov.exit_sockets.items()) if es2.enabled), None)
                    others = [x2 for x2 in tw.nodes[n_orig:-1] if x2 is not e_node]
                    if ycid is not None and others:
                        from ipv8.peer import Peer
                        f_node = others[int(pick * 13) % len(others)]
                        xc = await tw.build_circuit(e_node, 1, required_exit=Peer(f_node.my_peer.public_key.key_to_bin(), f_node.address), tries=2)
                        if xc is not None and xc.state == "READY":
                            wx = tw.add_outside(f"wx{len(circuits)}", f"9.9.6.{1 + len(circuits) % 250}", 7700 + len(circuits) % 200)
                            wx.reply = None
                            e_node.call(e_node.ov.send_data, xc.hop.address, xc.circuit_id, UDPv4Address(*wx.address), ("0.0.0.0", 0), b"d" + b"4:open" + b"e")
                            await asyncio.sleep(1.0)
                            evil = b"d" + b"REENTRY%04d" % int(pick * 9999) + b"e"
                            nested = e_node.ov.get_prefix() + b"\x01" + ycid.to_bytes(4, "big") + ser.pack("address", tuple(yci["w"].address)) + \
                                ser.pack("address", ("0.0.0.0", 0)) + evil
                            for src in sorted({s3 for _t, _d, s3 in wx.received}):
                                wx.transport.sendto(nested, src)
                                world.probe("nested_data_message_reentering_at_an_exit")
                                c.nontrivial(f"nested_reentry_exit/{after_expiry}")
                            await asyncio.sleep(1.5)
                            e_node.call(e_node.ov.remove_circuit, xc.circuit_id, "c05 re-entry done", destroy=1)
                            freed.add(xc.circuit_id)
            elif kind == "data_into_half_built":
                # a circuit whose first hop has not answered yet (its join policy takes a while) is sent an un-encrypted data cell by a
                # third party
                from ipv8.messaging.serialization import Serializer
                ser = Serializer()
                o = tw.nodes[int(pick * 7) % n_orig]
                hopn = tw.nodes[n_orig]
                inner_sj = hopn.ov.should_join_circuit

                async def slow_join(payload, addr, _inner=inner_sj):  # noqa: ANN001, ANN202
                    await asyncio.sleep(1.0)
                    return await _inner(payload, addr)
                hopn.ov.should_join_circuit = slow_join
                from ipv8.peer import Peer
                half = o.call(o.ov.create_circuit, 1, required_exit=Peer(hopn.my_peer.public_key.key_to_bin(), hopn.address))
                hopn.ov.should_join_circuit = inner_sj if half is None else hopn.ov.should_join_circuit
                if half is not None:
                    await asyncio.sleep(0.2)
                    evil = b"d" + b"HALFEVIL%04d" % int(pick * 9999) + b"e"
                    body = b"\x01" + ser.pack("address", ("0.0.0.0", 0)) + ser.pack("address", ("6.6.6.6", 66)) + evil
                    world.probe("data_cell_into_half_built_circuit")
                    c.nontrivial("data_into_half_built")
                    for flags in (b"\x00\x00", b"\x01\x00"):
                        net.inject(adv.address, o.address, prefix + b"\x00" + half.circuit_id.to_bytes(4, "big") + flags + body)
                    await asyncio.sleep(1.5)
                    hopn.ov.should_join_circuit = inner_sj
            elif kind in ("forged_created_badauth", "forged_created_shortkey"):
                # circuits under construction: whoever saw the plaintext create answers before the real first hop does
                c.nontrivial(f"{kind}/{after_expiry}")
                forge["mode"] = kind.rsplit("_", 1)[1]
                forge["victims"] = set()
                started = []
                for o in tw.nodes[:n_orig]:
                    started.append((o, o.call(o.ov.create_circuit, 1 + int(pick * 2) % 2)))
                await asyncio.sleep(1.0)
                forge["mode"] = None
                for o, circ in started:
                    if circ is None or (o.name, circ.circuit_id) not in forge["victims"]:
                        continue
                    if circ.circuit_id not in o.ov.circuits or circ.state == "CLOSING":
                        c.violate("tables_unchanged", "circuit_under_construction_removed_by_forged_created",
                                  f"{o.name} gave up circuit {circ.circuit_id} ({circ.goal_hops} hops, state {circ.state}) after a "
                                  f"`created` made up by a third party without any keys (key material: "
                                  f"{'32 random bytes' if kind.endswith('badauth') else 'wrong length'})")
            elif kind == "signed_replay_adv":
                # genuine, correctly signed overlay messages of the entry's neighbour, replayed from the adversary's own address
                entry = before[(node_name, tname, cid)][0]
                hop = getattr(entry, "hop", None)
                nb = tw.node_of_key(hop.peer.public_key.key_to_bin()) if hop is not None and hop.peer is not None else None
                olds = [p for p in tw.wire if nb is not None and p.src_node == nb.name and not p.injected and len(p.data) > 23
                        and p.data[22] != 0 and p.data[:22] == prefix]
                if olds:
                    swap["replayed"] = True
                    # (forward entries follow the Network's shared Peer object of that neighbour: the forward traffic of EVERY circuit
                    #  of this node that runs towards that neighbour, pings included, now goes to the replayer and those circuits
                    #  eventually die of inactivity - the documented denial of service that the statement does not cover; nothing
                    #  about those circuits is judged from here on)
                    nb_key = hop.peer.public_key.key_to_bin()
                    for k3 in stable:
                        ent = before.get(k3)
                        if ent is None or k3[0] != node_name or ent[2] != nb_key:
                            continue
                        if k3[1] == "circuits" or (k3[1] == "relay_from_to" and getattr(ent[0], "direction", None) != 1):
                            diverted.add(owner_of.get(k3))
                for p in olds[:2] + olds[-2:]:
                    world.probe("signed_message_replayed_from_adversary_address")
                    c.nontrivial(f"signed_replay_adv/{tname}/{p.data[22]}")
                    net.inject(adv.address, target.address, p.data, label="replayed_signed")
            elif kind == "destroy_replay":
                if destroys_seen:
                    world.probe("replayed_destroy")
                    d = destroys_seen[int(pick * 991) % len(destroys_seen)]
                    for node in tw.nodes[:-1]:
                        if node.address != d.dst:
                            net.inject(d.src, node.address, d.data)
                else:
                    # no genuine destroy yet: make one by tearing down the last circuit, then replay it at everybody
                    ci = circuits[-1]
                    ci["o"].call(ci["o"].ov.remove_circuit, ci["circ"].circuit_id, "c05", destroy=1)
                    ci["removed"] = True
                    await asyncio.sleep(0.5)
                    for d in list(destroys_seen):
                        world.probe("replayed_destroy")
                        for node in tw.nodes[:-1]:
                            if node.address != d.dst:
                                net.inject(d.src, node.address, d.data)
            await asyncio.sleep(0.2)
        # give accepted forgeries time to take effect (removal is delayed by remove_tunnel_delay = 5 s); keep circuits busy
        for r in range(3):
            await send_round(100 + r)
            await asyncio.sleep(2.0)
        after = tables()
        removed_cids = set()
        for ci in circuits:
            if ci.get("removed"):
                # every id on this circuit's path may legitimately go away
                removed_cids.add(ci["circ"].circuit_id)
        legit_gone = set()
        if removed_cids:
            # follow the removed circuit through the relays: ids linked by relay routes
            frontier = set(removed_cids)
            for _ in range(5):
                for (node, tname, cid), (obj, *_r) in before.items():
                    if cid in frontier and tname == "relay_from_to":
                        frontier.add(obj.circuit_id)
                legit_gone |= frontier
        for key, (obj, keys, peer_key, _x, addr0) in before.items():
            node, tname, cid = key
            if key not in stable:
                continue
            now = after.get(key)
            if cid in legit_gone:
                continue        # torn down by its own originator during the window: the id is free again
            if owner_of.get(key) in diverted:
                continue
            if now is None:
                c.violate("tables_unchanged", f"entry_removed_by_forgery:{tname}",
                          f"{node}.{tname}[{cid}] disappeared during the attack window; attacks={[a['kind'] for a in case['attacks']]}")
            elif now[0] is not obj:
                c.violate("tables_unchanged", f"entry_replaced:{tname}" + ("_after_cache_expiry" if after_expiry else ""),
                          f"{node}.{tname}[{cid}] was replaced by another object (hop peer now "
                          f"{'the adversary' if now[2] == adv.my_peer.public_key.key_to_bin() else 'someone else'}); "
                          f"attacks={[a['kind'] for a in case['attacks']]}")
            elif now[1] is not keys or now[2] != peer_key:
                c.violate("tables_unchanged", f"entry_rekeyed:{tname}", f"{node}.{tname}[{cid}] got other keys / peer")
            elif now[4] != addr0 and tname == "circuits" or (now[4] != addr0 and tname == "relay_from_to"
                                                               and getattr(obj, "direction", None) != 1):
                # Forward next-hop entries share the Network's Peer object, whose address follows the latest correctly signed
                # message of that key - also a replayed one.  That diverts ciphertext of the forward direction to the replayer
                # (a denial of service, observed on the unchanged tree); the statement constrains where *replies* go and where
                # traffic *leaves*, so only the backward entries (exit entries, backward relays) are judged below.
                world.probe("forward_next_hop_readdressed_by_replay_not_judged")
            elif now[4] != addr0:
                c.violate("tables_unchanged", f"entry_readdressed:{tname}",
                          f"{node}.{tname}[{cid}]: the address of its neighbour on the circuit changed from {addr0} to {now[4]}"
                          f"{' (the adversary)' if now[4] == tuple(adv.address) else ''}; attacks={[a['kind'] for a in case['attacks']]}")
        # ids of circuits that are no longer judged (diverted / half dead: they may be given up by their owner at any moment)
        freed |= {k3[2] for k3, idx3 in owner_of.items() if idx3 in diverted}
        for key in after:
            # (an id that was freed by the legitimate teardown above is free: a create naming it afterwards is a new circuit)
            if key not in before and key[2] in {k[2] for k in before} and key[2] not in legit_gone and key[2] not in freed:
                c.violate("tables_unchanged", f"entry_added_for_live_id:{key[1]}", f"{key} appeared during the attack window")
        # ---------------------------------------------------------------- legitimate teardown of one circuit
        alive = [ci for ci in circuits if not ci.get("removed") and ci["circ"].state == "READY" and ci["idx"] not in diverted
                 and not swap.get("replayed")]
        if len(alive) >= 2:
            gone = alive[0]
            gone["o"].call(gone["o"].ov.remove_circuit, gone["circ"].circuit_id, "c05 legit", destroy=1)
            gone["removed"] = True
            await asyncio.sleep(7.0)
            for ci in alive[1:]:
                if ci["circ"].circuit_id not in ci["o"].ov.circuits:
                    c.violate("teardown_scope", "other_circuit_removed_by_teardown",
                              f"circuit {ci['idx']} vanished when circuit {gone['idx']} was torn down")
            world.probe("legit_destroy_removed_only_own")
            await send_round(200)
            await asyncio.sleep(1.0)

    try:
        world.run(main())
        # ---------------------------------------------------------------- delivery log
        all_sent = {p: ci["idx"] for ci in circuits for p in ci["sent"]}
        all_replies = {p: ci["idx"] for ci in circuits for p in ci["replies"]}
        for ci in circuits:
            exit_node = ci["path"][-1] if ci["path"] else None
            for _t, data, src in ci["w"].received:
                owner = all_sent.get(data)
                if owner is None:
                    c.violate("delivery_log", "unknown_data_at_outside_server", f"server of circuit {ci['idx']} got {data[:30]!r}")
                elif owner != ci["idx"]:
                    c.violate("delivery_log", "data_left_through_other_circuit",
                              f"payload of circuit {owner} arrived at the server of circuit {ci['idx']}")
                else:
                    world.probe("data_delivered")
                    if exit_node is not None and src[0] != exit_node.ip:
                        c.violate("delivery_log", "data_left_through_other_exit", f"circuit {ci['idx']}: from {src}, exit {exit_node.ip}")
        by_o = {(ci["o"].name, ci["circ"].circuit_id): ci for ci in circuits}
        for name, cid, origin, data in tw.delivered_raw:
            owner = all_replies.get(data)
            if owner is None:
                c.violate("delivery_log", "unknown_data_at_originator", f"{name} circuit {cid}: {data[:30]!r}")
                continue
            ci = by_o.get((name, cid))
            if ci is None or ci["idx"] != owner:
                c.violate("delivery_log", "reply_reached_other_circuit_or_originator",
                          f"reply of circuit {owner} delivered at {name} labelled circuit {cid}")
            elif origin != ci["w"].address:
                c.violate("delivery_log", "reply_wrong_origin", f"{origin} != {ci['w'].address}")
    finally:
        async def down() -> None:
            await tw.teardown()
        try:
            world.run(down())
        except Exception:  # noqa: BLE001
            tw.uninstall_probes()
    world.trace.event("c05", None, (len(circuits), len(tw.delivered_raw)))
    c.sample = {"originators": n_orig, "pool": n_pool, "circuits": case["circuits"], "built": len(circuits),
                "wait_before_attack": case["wait"], "attacks": case["attacks"][:6],
                "paths": [[x.name if x else None for x in ci["path"]] for ci in circuits]}
    return c.result(evaluations=max(1, len(case["attacks"])))
