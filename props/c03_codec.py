"""
C03, second quantifier: "for every Serializable class and every byte string handed to unpack_serializable(_list)".

For every Serializable class shipped with the library a few genuine encodings are *generated from its format_list* (walking the
packers the serializers really use, incl. the tunnel overlay's "flags" and the DHT's "node-list"), validated by decoding
them, and then every prefix, every single-byte bump (+1/+2/+9/-1/0xff), extensions and random strings are handed to
``unpack_serializable`` / ``unpack_serializable_list`` at offset 0 and behind a random pad.  The decode monitor of c03_rx is
the oracle (reported end inside the buffer, VarLen values have their declared length, nested payloads end where their length
prefix says), plus: the reported end may not lie before the start, and decoding behind a pad consumes what decoding at
offset 0 consumes.

No network, clock or schedule is involved here: this family is the input-enumeration complement of the live-node storm (it
shares its oracle) and is kept inside C03 because the statement quantifies over it.
"""
from __future__ import annotations

import importlib
import pkgutil
import random
import struct


def shipped_serializables() -> list:
    import ipv8
    from ipv8.messaging.serialization import Serializable

    for m in pkgutil.walk_packages(ipv8.__path__, "ipv8."):
        if ".test" in m.name or ".REST" in m.name or m.name.endswith("__main__"):
            continue
        try:
            importlib.import_module(m.name)
        except Exception:  # noqa: BLE001, S112
            continue

    def subs(cls):  # noqa: ANN001, ANN202
        out = set()
        for s in cls.__subclasses__():
            out.add(s)
            out |= subs(s)
        return out
    out = [c for c in subs(Serializable) if c.__module__.startswith("ipv8.") and ".test" not in c.__module__
           and isinstance(getattr(c, "format_list", None), list) and "format_list" in _defined(c)]
    return sorted(out, key=lambda c: (c.__module__, c.__name__))


def _defined(cls) -> set:  # noqa: ANN001
    names: set = set()
    for k in cls.__mro__:
        if k.__module__.startswith("ipv8.") and k.__name__ not in ("Serializable", "Payload", "VariablePayload", "VariablePayloadWID",
                                                                    "DataClassPayload", "DataClassPayloadWID", "CellablePayload"):
            names |= set(k.__dict__)
    return names


def make_serializer():  # noqa: ANN201
    from ipv8.dht.payload import NodePacker
    from ipv8.messaging.anonymization.payload import Flags
    from ipv8.messaging.serialization import ListOf, Serializer
    ser = Serializer()
    ser.add_packer("flags", Flags())
    ser.add_packer("node-list", ListOf(NodePacker(ser)))
    return ser


class CannotGenerate(Exception):
    pass


def gen_packer(ser, packer, rng: random.Random, args: tuple = (), last: bool = False, depth: int = 0) -> bytes:  # noqa: ANN001, C901, PLR0911
    from ipv8.dht.payload import NodePacker
    from ipv8.messaging.anonymization.payload import Flags
    from ipv8.messaging.serialization import (Address, Bits, DefaultArray, DefaultStruct, IPv4, ListOf, NestedPayload, Raw, VarLen,
                                              VarLenUtf8)
    if isinstance(packer, DefaultStruct):
        out = bytearray(rng.randbytes(packer.size))
        return bytes(out)
    if isinstance(packer, VarLenUtf8):
        n = rng.choice([0, 1, 5, 30])
        txt = "".join(rng.choice("abcXYZ09 _") for _ in range(n)).encode()
        return struct.pack(packer.length_format, len(txt)) + txt
    if isinstance(packer, VarLen):
        n = rng.choice([0, 1, 2, 7, 40])
        return struct.pack(packer.length_format, n) + rng.randbytes(n * packer.base)
    if isinstance(packer, Raw):
        return rng.randbytes(rng.choice([0, 1, 9, 60]))
    if isinstance(packer, Bits):
        return rng.randbytes(1)
    if isinstance(packer, IPv4):
        return rng.randbytes(6)
    if isinstance(packer, Address):
        kind = rng.choice([1, 3] if packer.ip_only else [1, 2, 3])
        if kind == 1:
            return b"\x01" + rng.randbytes(6)
        if kind == 3:
            return b"\x03" + rng.randbytes(18)
        host = rng.choice([b"a.example", b"x", b""])
        return b"\x02" + struct.pack(">H", len(host)) + host + rng.randbytes(2)
    if isinstance(packer, NestedPayload):
        inner = gen_class(ser, args[0], rng, depth + 1)
        return struct.pack(">H", len(inner)) + inner
    if isinstance(packer, ListOf):
        n = rng.choice([0, 1, 2, 3])
        return struct.pack(packer.length_format, n) + b"".join(gen_packer(ser, packer.packer, rng, args, False, depth) for _ in range(n))
    if isinstance(packer, DefaultArray):
        n = rng.choice([0, 1, 4])
        return struct.pack(packer.length_format, n) + rng.randbytes(n * packer.base)
    if isinstance(packer, Flags):
        return rng.randbytes(packer.size)
    if isinstance(packer, NodePacker):
        return gen_packer(ser, ser.get_packer_for("ip_address"), rng) + gen_packer(ser, ser.get_packer_for("varlenH"), rng)
    raise CannotGenerate(type(packer).__name__)


def gen_class(ser, cls, rng: random.Random, depth: int = 0) -> bytes:  # noqa: ANN001
    from ipv8.messaging.serialization import Serializable
    if depth > 3:
        raise CannotGenerate("depth")
    out = b""
    fl = cls.format_list
    for i, fmt in enumerate(fl):
        last = i == len(fl) - 1
        if isinstance(fmt, str):
            try:
                packer = ser.get_packer_for(fmt)
            except KeyError:
                raise CannotGenerate(fmt) from None
            out += gen_packer(ser, packer, rng, (), last, depth)
        elif isinstance(fmt, list):
            out += gen_packer(ser, ser.get_packer_for("payload-list"), rng, (fmt[0],), last, depth)
        elif isinstance(fmt, type) and issubclass(fmt, Serializable):
            out += gen_packer(ser, ser.get_packer_for("payload"), rng, (fmt,), last, depth)
        else:
            raise CannotGenerate(repr(fmt))
    return out


def genuine_encodings(rng: random.Random, per_class: int = 3) -> tuple[list, dict]:
    """[(class, serializer, encoding)] that decode completely, and {class name: reason} for classes without one."""
    ser = make_serializer()
    items: list = []
    skipped: dict = {}
    for cls in shipped_serializables():
        got = 0
        why = None
        for _ in range(per_class * 6):
            try:
                enc = gen_class(ser, cls, rng)
                _v, end = ser.unpack_serializable(cls, enc)
            except CannotGenerate as e:
                why = f"no generator for {e}"
                break
            except Exception as e:  # noqa: BLE001
                why = f"generated encoding rejected: {type(e).__name__}"
                continue
            if end != len(enc):
                why = f"generated encoding decoded to offset {end} of {len(enc)}"
                # a decoder that reports a wrong end for a well-formed encoding is what the oracle is there for: keep it
                items.append((cls, ser, enc))
                got += 1
            else:
                items.append((cls, ser, enc))
                got += 1
            if got >= per_class:
                break
        if not got:
            skipped[cls.__name__] = why or "?"
    return items, skipped


def mutations(enc: bytes, rng: random.Random) -> list:
    muts = [enc[:k] for k in range(len(enc))]
    for p in range(len(enc)):
        for dlt in (1, 2, 9, -1, None):
            b = bytearray(enc)
            b[p] = 0xff if dlt is None else (b[p] + dlt) & 0xff
            muts.append(bytes(b))
    muts += [enc, enc + b"\x00", enc + rng.randbytes(7)] + [rng.randbytes(len(enc)) for _ in range(4)]
    return muts


def direct_decode(c, world, rng: random.Random, items: list, monitor: dict, with_pad: bool = True) -> int:  # noqa: ANN001
    """Hand every mutation of every item to the decoders.  ``monitor['cb']`` (the decode monitor of c03_rx) stays active."""
    n = 0
    for cls, ser, enc in items:
        for m in mutations(enc, rng):
            n += 1
            world.probe("direct_decode")
            end0 = None
            try:
                _v, end0 = ser.unpack_serializable(cls, m)
                world.probe("direct_decode_accepted")
            except Exception:  # noqa: BLE001, S110
                pass            # rejected with an error: what the statement asks for
            if end0 is not None and not 0 <= end0 <= len(m):
                c.violate("decode_in_bounds", f"decode_end_outside_buffer:{cls.__name__}",
                          f"unpack_serializable({cls.__name__}, {len(m)} bytes) reported end {end0}")
            try:
                ser.unpack_serializable_list([cls], m)
            except Exception:  # noqa: BLE001, S110
                pass
            if with_pad and n % 3 == 0:
                pad = rng.randbytes(rng.choice([1, 5, 23]))
                end1 = None
                try:
                    _v, end1 = ser.unpack_serializable(cls, pad + m, len(pad))
                except Exception:  # noqa: BLE001, S110
                    pass
                if end1 is not None and end0 is not None and end1 - len(pad) != end0:
                    c.violate("decode_in_bounds", f"decode_end_depends_on_start_offset:{cls.__name__}",
                              f"unpack_serializable({cls.__name__}) consumed {end0} bytes at offset 0 but reported end {end1} when "
                              f"the same bytes start at offset {len(pad)} (start + {end1 - len(pad)})")
                elif end1 is not None and end1 < len(pad):
                    c.violate("decode_in_bounds", f"decode_end_before_start:{cls.__name__}",
                              f"unpack_serializable({cls.__name__}, offset={len(pad)}) reported end {end1}")
                elif (end1 is None) != (end0 is None):
                    c.violate("decode_in_bounds", f"decode_acceptance_depends_on_start_offset:{cls.__name__}",
                              f"{len(m)} bytes are {'accepted' if end0 is not None else 'rejected'} at offset 0 and "
                              f"{'accepted' if end1 is not None else 'rejected'} at offset {len(pad)}")
    return n
