"""
C11 - an unloaded overlay is silent and holds no resources.

Every shipped overlay class, with its DEFAULT settings, runs its scripted multi-node protocol (props/overlay_scenarios)
on SimNet; at a given step index (or a seeded virtual time inside a step) one node's overlay is unloaded, then late
datagrams of every message id (captured genuine ones for that node and garbage) are delivered and two virtual hours
pass.  Family "tm" exercises the named-task rules of TaskManager directly under seeded interleavings.
"""
from __future__ import annotations

import asyncio
import itertools
import random

from simkit import probes, seams
from simkit.boot import NODE
from simkit.scenario import Case

from .overlay_scenarios import SCENARIOS

PROPERTY = "C11"
LEVEL = "exploration"
BUDGET = {"quick": 40, "thorough": 480}
CHUNK = 2
CASE_WALL = {"quick": 180, "thorough": 600}
ENUMERATED = {"quick": False, "thorough": False}
SHRINK_FIELDS = ("ops",)
RULE = ("'unload' cases = (overlay scenario among the 9 shipped classes, the multiplexed node, five real ipv8_service.IPv8 instances "
        "with the default configuration, a DHT crawl towards crashed nodes, a Community with the UDP broadcast bootstrapper; which node, unload at script step k "
        "(every k in the thorough tier and in the first pass of quick) or at a seeded virtual time, network knobs); during the "
        "unload of a tunnel overlay another peer sends it a create and data; after the unload: late genuine datagrams of every captured message id + all 256 ids with garbage, then 7200 virtual seconds. "
        "'tm' cases = seeded register/replace/cancel/advance sequences on a real TaskManager, tasks with and without asynchronous clean-up. Non-trivial = unload requested "
        "while the overlay had pending tasks, request caches or open transports; distinct by (scenario, node, step, what was "
        "pending).")
COMPONENTS = {"real": ["all shipped overlay classes with default settings", "Overlay/Community.unload", "TaskManager", "RequestCache",
                       "TunnelCommunity.unload + remove_* tasks", "PythonCryptoEndpoint listener registration", "TunnelExitSocket"],
              "stub": ["UDP/IP (SimNet)", "wall clock", "thread pool (LAN discovery runs on the loop after a seeded delay)"]}
ASSUMPTIONS = ["'unloading has completed' = the awaitable returned by overlay.unload() is done",
               "the endpoint itself stays open (other overlays may use it); only the overlay's own sockets must be closed"]
REACH = ["unload_with_pending_tasks", "unload_with_open_exit_transports", "unload_with_outstanding_caches", "late_datagrams_delivered",
         "register_after_unload_refused", "tm_duplicate_name_refused", "tm_replace_ordered", "tm_slow_cleanup", "scenario:tunnel", "scenario:dht",
         "scenario:attestation", "scenario:identity", "scenario:multi", "scenario:service", "scenario:dhtcrawl", "scenario:bcast", "scenario:exitrace", "scenario:attest_slow", "endpoint_wrapped_in_tunnel_endpoint", "tm_wall_clock_stepped", "create_sent_to_overlay_being_unloaded",
         "script_operation_abandoned_after_unload"]

SCN = ["community", "bcast", "discovery", "dht", "dhtdiscovery", "tunnel", "hidden", "pex", "attestation", "attest_slow", "identity", "multi",
       "dhtcrawl", "service"]
STEPS = {"community": 5, "bcast": 7, "exitrace": 3, "discovery": 3, "dht": 5, "dhtdiscovery": 7, "tunnel": 5, "hidden": 5, "pex": 5, "attestation": 3, "attest_slow": 3,
         "identity": 3, "multi": 8, "dhtcrawl": 3, "service": 6}


def cases(tier: str, base_seed: int):  # noqa: ANN201
    n = 0
    # TaskManager histories (cheap): a first batch up front, more in the seeded stream
    for i in range(48 if tier == "quick" else 400):
        rng = random.Random(f"c11tm/{base_seed}/{i}")
        yield {"scenario": "tm", "seed": base_seed + 500 + i, "knobs": {"timer_jitter": rng.choice([0.0, 0.001])},
               "ops": [_tm_op(rng) for _ in range(rng.choice([4, 8, 20]))], "tail": rng.choice([5.0, 0.05, 0.25, 0.6])}
    # the unload chases the first data packet of a circuit that ends at the victim (remove_tunnel_delay 0)
    for gap in (0.0, 1e-6, 1e-4, 1e-3):
        for iters in (0, 1, 2, 3, 5):
            n += 1
            yield {"scenario": "exitrace", "seed": base_seed + n, "knobs": {"lat_jit": 0.0, "sock_open_yields": iters % 3}, "node": 0, "step": 1,
                   "offset": 0.0, "gap": gap, "iters": iters}
    # an unload in the middle of an application-driven DHT crawl (requests outstanding, candidates left)
    for off in (0.02, 0.1, 0.5, 1.5, 4.0, 6.0):
        n += 1
        yield {"scenario": "dhtcrawl", "seed": base_seed + n, "knobs": {}, "node": 0, "step": 1, "offset": off}
    # the service with a walk interval long enough for its ticker to pause between two strategies of one tick; the unload lands
    # inside a tick
    for k, off in enumerate((0.7, 3.1, 5.3, 8.9)):
        n += 1
        yield {"scenario": "service", "seed": base_seed + n, "knobs": {}, "node": (0, 2)[k % 2], "step": k % 3, "offset": off,
               "walk_interval": 12.0}
    # the multiplexed node behind a TunnelEndpoint (what ipv8_service wraps the endpoint in as soon as one overlay asks for anonymity)
    for step in range(STEPS["multi"]):
        n += 1
        yield {"scenario": "multi", "seed": base_seed + n, "knobs": {}, "node": 0, "step": step, "offset": 0.0, "ep_kind": "tunnel"}
    # several asynchronous handlers of one message type and one sender suspended at once (the application answers late)
    for off, rep in ((0.0, 2), (0.5, 3), (1.9, 2)):
        n += 1
        yield {"scenario": "attest_slow", "seed": base_seed + n, "knobs": {}, "node": 0, "step": 1, "offset": off, "repeats": rep}
    n += 1
    yield {"scenario": "attest_slow", "seed": base_seed + n, "knobs": {"dup": 0.5}, "node": 0, "step": 1, "offset": 0.2, "repeats": 1}
    for scn in [SCN[-1], *SCN[:-1]]:          # the slow full-IPv8 cases first, so that they overlap with everything else
        for step in range(STEPS[scn]):
            for node in ((0, 2) if tier == "quick" else (0, 1, 2, 3)):
                if scn == "dhtcrawl" and node != 0:
                    continue          # the other nodes of that scenario go offline
                if scn == "service" and tier == "quick" and (step, node) not in ((0, 2), (2, 0), (4, 0)):
                    continue
                n += 1
                yield {"scenario": scn, "seed": base_seed + n, "knobs": {}, "node": node, "step": step, "offset": 0.0}
    for i in itertools.count():
        seed = base_seed + 1000 + i
        rng = random.Random(f"c11/{seed}")
        if i % 5 == 4:
            yield {"scenario": "tm", "seed": seed, "knobs": {"timer_jitter": rng.choice([0.0, 0.001])},
                   "ops": [_tm_op(rng) for _ in range(rng.choice([4, 8, 20]))]}
            continue
        scn = rng.choice(SCN[:-1] if (tier == "quick" or i % 3) else SCN)
        yield {"scenario": scn, "seed": seed, "node": 0 if scn == "dhtcrawl" else rng.randrange(4), "step": rng.randrange(STEPS[scn]),
               "offset": rng.choice([0.0, 0.003, 0.05, 0.4, 3.0]), "ep_kind": rng.choice(["udp", "udp", "tunnel"]),
               "knobs": {"lat_jit": rng.choice([0.0, 0.05]), "loss": rng.choice([0.0, 0.0, 0.1]), "dup": rng.choice([0.0, 0.05]),
                         "timer_jitter": rng.choice([0.0, 0.001])}}


def _tm_op(rng: random.Random) -> dict:
    return {"op": rng.choice(["reg", "reg", "reg_delay", "reg_interval", "replace", "replace", "cancel", "advance", "dup", "dup",
                              "wall_jump", "advance_long"]),
            "name": rng.choice(["a", "b"]), "d": rng.choice([0.0, 0.1, 0.5, 1.0]), "work": rng.choice([0.0, 0.2, 0.7, 0.7, 2000.0]),
            "cleanup": rng.choice([0.0, 0.0, 0.0, 0.3])}


# ------------------------------------------------------------------------------------------------ TaskManager family
def run_tm(c: Case, case: dict) -> dict:  # noqa: C901
    from ipv8.taskmanager import TaskManager

    world, loop = c.world, c.loop
    seq = [0]
    log: list = []       # (event number, name, generation, what)

    async def main() -> None:  # noqa: C901
        tm = TaskManager()
        gen = {"a": 0, "b": 0}
        live: dict = {}
        running: dict = {"a": set(), "b": set()}
        cancel_requested: set = set()
        current: dict = {}      # name -> generation that holds the name
        tm_state = {"shutdown_done": False}
        replaced: dict = {}     # (name, new generation) -> generation it replaced

        def make(name: str, work: float, cleanup: float = 0.0):  # noqa: ANN202
            gen[name] += 1
            g = gen[name]

            async def body() -> None:
                seq[0] += 1
                log.append((seq[0], name, g, "first"))
                others = [x for x in running[name] if (name, x) not in cancel_requested]
                if others:
                    c.violate("duplicate_name", "two_tasks_active_under_one_name",
                              f"task '{name}' generation {g} started while generation {others} of the same name is still running "
                              f"and was never cancelled")
                running[name].add(g)
                try:
                    if work:
                        await asyncio.sleep(work)
                        # resumed normally (a cancelled task would have got CancelledError instead)
                        if tm_state["shutdown_done"]:
                            c.violate("no_activity_after_shutdown", "task_step_after_shutdown_completed",
                                      f"task '{name}' generation {g} resumed its work after shutdown_task_manager() had returned")
                        elif (name, g) in cancel_requested:
                            c.violate("no_activity_after_shutdown", "cancelled_task_ran_on",
                                      f"task '{name}' generation {g} resumed its work although it had been cancelled / replaced")
                finally:
                    try:
                        if cleanup:
                            # a task that needs time to wind down after it was cancelled (asynchronous clean-up)
                            world.probe("tm_slow_cleanup")
                            await asyncio.sleep(cleanup)
                    finally:
                        # (a second cancellation may hit the clean-up itself)
                        running[name].discard(g)
                        seq[0] += 1
                        log.append((seq[0], name, g, "last"))
            return body, g

        for op in case["ops"]:
            name = op["name"]
            kind = op["op"]
            active = tm.is_pending_task_active(name)
            if kind in ("reg", "reg_delay", "reg_interval", "dup"):
                body, g = make(name, op["work"], op.get("cleanup", 0.0))
                kw = {}
                if kind == "reg_delay":
                    kw["delay"] = op["d"] or 0.1
                elif kind == "reg_interval":
                    kw["interval"] = op["d"] or 0.5
                old = tm.get_task(name)
                try:
                    fut = tm.register_task(name, body, **kw)
                    if active:
                        c.violate("duplicate_name", "register_task_accepted_active_name", f"register_task('{name}') while active")
                    live[name] = fut
                    current[name] = g
                except RuntimeError:
                    if not active:
                        c.violate("duplicate_name", "register_task_refused_free_name", f"register_task('{name}') raised while free")
                    else:
                        world.probe("tm_duplicate_name_refused")
                        if tm.get_task(name) is not old or old.done():
                            c.violate("duplicate_name", "first_task_disturbed_by_refused_registration", name)
            elif kind == "replace":
                body, g = make(name, op["work"], op.get("cleanup", 0.0))
                if active and name in current:
                    replaced[(name, g)] = current[name]
                cancel_requested.update((name, x) for x in running[name])
                fut = tm.replace_task(name, body)
                live[name] = fut
                current[name] = g
                fut.add_done_callback(lambda f: f.exception() if not f.cancelled() else None)
            elif kind == "cancel":
                if tm.is_pending_task_active(name):
                    cancel_requested.update((name, x) for x in running[name])
                tm.cancel_pending_task(name)
            elif kind == "wall_jump":
                # the wall clock steps forward by an hour (NTP correction, resume from suspend); nothing else happens
                world.set_skew(None, world.skew.get(None, 0.0) + 3600.0)
                world.fault("clock_jump")
                world.probe("tm_wall_clock_stepped")
            await asyncio.sleep(op["d"] if kind == "advance" else 700.0 if kind == "advance_long" else 0.0)
        await asyncio.sleep(case.get("tail", 5.0))
        # (a task cancelled or replaced earlier is forgotten by the task manager at once, by design: only the tasks it still
        #  tracks when shutdown is requested are its to wait for)
        tracked = {(nm, g2) for nm in running for g2 in running[nm] if (nm, g2) not in cancel_requested}
        await tm.shutdown_task_manager()
        tm_state["shutdown_done"] = True
        still = sorted((nm, g2) for nm in running for g2 in running[nm] if (nm, g2) in tracked)
        if still:
            # a cancelled task that needs a few loop iterations to wind down (asynchronous clean-up) is still executing
            c.violate("no_activity_after_shutdown", "task_still_running_when_shutdown_returned",
                      f"shutdown_task_manager() returned while {still} had not finished (cancelled, still in its clean-up)")
        await asyncio.sleep(3.0)
        # replace ordering: for each name, generation g+1's first step must come after generation g's last step
        per: dict = {}
        for ev, name, g, what in log:
            per.setdefault((name, g), {})[what] = ev
        for (name, g_new), g in replaced.items():
            d = per.get((name, g), {})
            nxt = per.get((name, g_new))
            if nxt and "first" in nxt and "last" in d and nxt["first"] < d["last"]:
                c.violate("replace_order", "replacement_started_before_old_task_finished",
                          f"task '{name}' generation {g_new} took its first step (event {nxt['first']}) before generation {g} "
                          f"finished (event {d['last']})")
            elif nxt and "first" in nxt:
                world.probe("tm_replace_ordered")
        c.nontrivial(repr([(n_, g_, w_) for _e, n_, g_, w_ in log]))

    world.run(main())
    world.trace.event("c11tm", None, repr(log))
    c.sample = {"scenario": "tm", "ops": case["ops"][:10], "log": [list(map(str, x)) for x in log[:12]]}
    return c.result()


class _Stopped(Exception):
    pass


# ------------------------------------------------------------------------------------------------ unload family
def execute(case: dict) -> dict:  # noqa: C901, PLR0915
    if case["scenario"] == "tm":
        return run_tm(Case(case, first_only=False), case)
    from ipv8.requestcache import RequestCache
    from ipv8.taskmanager import TaskManager

    c = Case(case, net=True, first_only=False)
    world, net, loop = c.world, c.net, c.loop
    scn = SCENARIOS[case["scenario"]]
    rng = world.stream("c11")
    world.probe("scenario:" + case["scenario"])
    if case.get("ep_kind") == "tunnel" and case["scenario"] == "multi":
        world.probe("endpoint_wrapped_in_tunnel_endpoint")
    st: dict = {"unloaded": False, "t": None, "captured": {}, "late": False}
    victim_ovs: list = []

    orig_register = TaskManager.register_task
    n_nodes = scn.n_nodes
    st["victim_name"] = f"n{case['node'] % n_nodes}"
    all_regs: list = []                                 # (manager, task name, future) registered by code of the victim node

    def is_tracked(tm) -> bool:  # noqa: ANN001
        return any(tm is ov or tm is getattr(ov, "request_cache", None) or getattr(tm, "overlay", None) is ov for ov in victim_ovs)

    def register_task(self, name, user_task, *a, **kw):  # noqa: ANN001, ANN002, ANN003, ANN202
        fut = orig_register(self, name, user_task, *a, **kw)
        if NODE.get() == st["victim_name"]:
            all_regs.append((self, str(name)[:60], fut))
            if st["unloaded"] and st.get("phase") != "probe" and not fut.done() and is_tracked(self):
                c.violate("no_new_tasks", f"task_registered_after_unload:{type(self).__name__}",
                          f"{type(self).__name__}.register_task({str(name)[:40]!r}) created a live task after unload")
        return fut
    TaskManager.register_task = register_task
    seams.ON_RESET.append(lambda: setattr(TaskManager, "register_task", orig_register))

    def tracked_futures() -> list:
        return [(type(m).__name__, n, f) for m, n, f in all_regs if is_tracked(m)]

    orig_timeout = RequestCache._on_timeout  # noqa: SLF001

    def _on_timeout(self, cache):  # noqa: ANN001, ANN202
        if st["unloaded"] and is_tracked(self):
            c.violate("no_timeouts", f"cache_timeout_ran_after_unload:{type(cache).__name__}",
                      f"{type(cache).__name__}.on_timeout ran {loop.time() - st['t']:.1f} s after unload")
        return orig_timeout(self, cache)
    RequestCache._on_timeout = _on_timeout  # noqa: SLF001
    seams.ON_RESET.append(lambda: setattr(RequestCache, "_on_timeout", orig_timeout))

    def on_entry(ov, fn, dec, data, poa, args) -> None:  # noqa: ANN001
        if st["unloaded"] and any(ov is v for v in victim_ovs):
            c.violate("no_handlers", f"handler_ran_after_unload:{type(ov).__name__}",
                      f"{type(ov).__name__}.{fn} entered {loop.time() - st['t']:.2f} s after unload() returned")
    probes.on_handler_entry.append(on_entry)

    async def main() -> None:  # noqa: C901, PLR0912, PLR0915
        nodes = await scn.build(c)
        victim = nodes[case["node"] % len(nodes)]
        assert victim.name == st["victim_name"], (victim.name, st["victim_name"])
        ovs = list(getattr(victim, "ovs", {"only": victim.ov}).values())
        if case["scenario"] in ("multi", "service"):
            ovs = [ovs[rng.randrange(len(ovs))]] if case.get("offset") else [ovs[case["step"] % len(ovs)]]
        victim_ovs.extend(ovs)
        prefixes = [ov.get_prefix() for ov in ovs]

        # After the unload the *user* (the script) stops using the overlay: the property is about what the overlay still does on
        # its own.  Calls that the script addresses to the unloaded overlay become no-ops.
        inner_call, inner_acall = victim.call, victim.acall

        def _mine(fn) -> bool:  # noqa: ANN001
            return any(getattr(fn, "__self__", None) is ov for ov in ovs)

        def guarded_call(fn, *a, **k):  # noqa: ANN001, ANN002, ANN003, ANN202
            if st["unloaded"] and _mine(fn) and st.get("phase") != "probe":
                raise _Stopped
            return inner_call(fn, *a, **k)

        inflight: list = []

        async def guarded_acall(fn, *a, **k):  # noqa: ANN001, ANN002, ANN003, ANN202
            if st["unloaded"] and _mine(fn):
                raise _Stopped
            if not _mine(fn):
                return await inner_acall(fn, *a, **k)
            # an operation the user runs on the overlay; the user who unloads the overlay abandons it (cancelled at unload)
            t = inner_call(asyncio.ensure_future, fn(*a, **k))
            inflight.append(t)
            try:
                return await t
            finally:
                inflight.remove(t)
        st["inflight"] = inflight
        victim.call, victim.acall = guarded_call, guarded_acall

        # wrap decode maps of the victim overlays (handlers that do not use the lazy wrappers, cell handlers)
        for ov in ovs:
            for attr in ("decode_map", "decode_map_private"):
                dm = getattr(ov, attr, None)
                if dm is None:
                    continue
                items = list(dm.items()) if isinstance(dm, dict) else list(enumerate(dm))
                for i, h in items:
                    if h is None:
                        continue

                    def wrapped(src, data, *a, _h=h, _ov=ov, _i=i, _attr=attr, **k):  # noqa: ANN001, ANN002, ANN003, ANN202
                        if st["unloaded"]:
                            c.violate("no_handlers", f"handler_ran_after_unload:{type(_ov).__name__}",
                                      f"message id {_i} handled by {type(_ov).__name__} {loop.time() - st['t']:.2f} s after unload")
                        return _h(src, data, *a, **k)
                    dm[i] = wrapped

        def on_deliver(pkt, tr) -> None:  # noqa: ANN001
            if tr.host.name == victim.name and not pkt.injected and len(pkt.data) > 22 and pkt.data[:22] in prefixes:
                st["captured"].setdefault((pkt.data[:22], pkt.data[22], pkt.label), (pkt.data, pkt.wire_src))
        net.on_deliver.append(on_deliver)

        def on_send(pkt, fate) -> None:  # noqa: ANN001
            if st["unloaded"] and pkt.src_node == victim.name and pkt.data[:22] in prefixes:
                c.violate("silent", f"packet_sent_after_unload:{type(ovs[0]).__name__}",
                          f"{victim.name} sent a datagram with the unloaded overlay's prefix (msg id "
                          f"{pkt.data[22] if len(pkt.data) > 22 else None}, label {pkt.label}) {loop.time() - st['t']:.2f} s after unload")
        net.on_send.append(on_send)

        async def poke_during_unload(vov) -> None:  # noqa: ANN001
            from ipv8.peer import Peer
            helper = None
            for n in nodes:
                if n is victim or n.name in loop.dead:
                    continue
                cand = [o for o in getattr(n, "ovs", {"only": getattr(n, "ov", None)}).values()
                        if o is not None and type(o) is type(vov) and hasattr(o, "create_circuit")]
                if cand:
                    helper, hov = n, cand[0]
                    break
            if helper is None:
                return
            await asyncio.sleep(0.3)
            if st["unloaded"]:
                return
            vp = Peer(vov.my_peer.public_key.key_to_bin(), victim.address)
            try:
                circ = helper.call(hov.create_circuit, 1, required_exit=vp)
            except Exception:  # noqa: BLE001
                return
            world.probe("create_sent_to_overlay_being_unloaded")
            for _ in range(15):
                await asyncio.sleep(0.2)
                if circ is None or circ.state == "READY" or st["unloaded"]:
                    break
            if circ is not None and circ.state == "READY":
                world.probe("circuit_joined_during_unload")
                try:
                    helper.call(hov.send_data, circ.hop.address, circ.circuit_id, ("9.9.9.9", 7000), ("0.0.0.0", 0), b"d5:helloe")
                except Exception:  # noqa: BLE001, S110
                    pass

        async def do_unload() -> None:
            if st["unloaded"] or st.get("unloading") or victim.name in loop.dead:
                return
            st["unloading"] = True
            pend = [f for _m, _n, f in tracked_futures() if not f.done()]
            if pend:
                world.probe("unload_with_pending_tasks")
            opent = [t for t in net.all_transports if t.owner == victim.name and t.port != victim.port and not t.closed]
            if opent:
                world.probe("unload_with_open_exit_transports")
            if any(getattr(ov, "request_cache", None) is not None and ov.request_cache._identifiers for ov in ovs):  # noqa: SLF001
                world.probe("unload_with_outstanding_caches")
            c.nontrivial(f"{case['scenario']}/{case['node']}/{case['step']}/{bool(pend)}/{bool(opent)}")
            pokers = []
            for ov in ovs:
                if hasattr(ov, "exit_sockets"):
                    # while a tunnel overlay is being unloaded (it waits remove_tunnel_delay for its tunnels to go), another peer asks
                    # it to join a new circuit and sends data into it
                    pokers.append(inner_call(asyncio.ensure_future, poke_during_unload(ov)))
            for ov in ovs:
                if hasattr(victim, "unload_overlay"):
                    await inner_acall(victim.unload_overlay, ov)      # ipv8_service.IPv8.unload_overlay
                else:
                    await inner_acall(ov.unload)
                    if ov in victim.overlays:
                        victim.overlays.remove(ov)
            st["unloaded"] = True
            st["t"] = loop.time()
            # operations the user still had in flight on this overlay are abandoned now (they ran on while the unload was in
            # progress: whatever they managed to register with the overlay in that window is the overlay's business)
            for t in list(st.get("inflight", ())):
                t.cancel()
            check_now("right after unload() returned")

        def check_now(when: str) -> None:
            for m, name, f in tracked_futures():
                if not f.done():
                    c.violate("tasks_done", f"task_still_pending_after_unload:{m}:{name.split(' ')[0]}",
                              f"{when}: task {name!r} of {m} is still pending")
            ep = victim.raw_endpoint
            lst = list(ep._listeners) + [x for v in ep._prefix_map.values() for x in v]  # noqa: SLF001
            for ov in ovs:
                ce = getattr(ov, "crypto_endpoint", None)
                for obj, what in ((ov, type(ov).__name__), (ce, type(ce).__name__ if ce is not None else None)):
                    if obj is not None and any(x is obj for x in lst):
                        c.violate("no_listener", f"listener_left_after_unload:{what}",
                                  f"{when}: {what} is still registered on the endpoint of {victim.name}")
            for t in net.all_transports:
                if t.owner == victim.name and t.port != victim.port and not t.closed and (
                        any(hasattr(o, "exit_sockets") for o in ovs) or case["scenario"] not in ("multi", "service")):
                    c.violate("sockets_released", f"transport_left_open_after_unload:{type(ovs[0]).__name__}",
                              f"{when}: a socket opened by the overlay (port {t.port}) is still open")
                    break

        async def step(i: int, what: str) -> None:
            if i == case["step"] and not st["unloaded"]:
                if case.get("offset"):
                    def go() -> None:
                        st["unload_task"] = inner_call(asyncio.ensure_future, do_unload())
                    loop.call_later(case["offset"], go)
                else:
                    await do_unload()

        # the script goes on with the other nodes; whenever it reaches for the unloaded overlay it is restarted past that point a
        # few times and then abandoned
        try:
            # an operation of the user that was in flight on the unloaded overlay may never complete; the user gives up on it
            await asyncio.wait_for(scn.script(c, nodes, step), 900)
        except (asyncio.TimeoutError, asyncio.CancelledError):
            world.probe("script_operation_abandoned_after_unload")
        except _Stopped:
            world.probe("script_stopped_at_unloaded_overlay")
        except Exception as e:  # noqa: BLE001
            world.probe("script_exception_after_unload:" + type(e).__name__)
        victim.call, victim.acall = inner_call, inner_acall
        if st.get("unload_task") is not None:
            await st["unload_task"]          # an unload requested in the middle of a step may still be in progress
        if not st["unloaded"]:
            st["unloading"] = False
            await do_unload()
        if not st["unloaded"]:
            world.probe("victim_died_before_unload")       # nothing to judge: the machine crashed first
            await scn.teardown(nodes)
            return
        await asyncio.sleep(0.5)
        # ---- after unload: new tasks and caches are refused
        st["phase"] = "probe"
        for ov in ovs:
            ran = []
            fut = victim.call(ov.register_task, "c11-probe", lambda: ran.append(1))
            fut2 = victim.call(ov.register_anonymous_task, "c11-probe-anon", lambda: ran.append(2), delay=0.01)
            await asyncio.sleep(0.1)
            if ran:
                c.violate("no_new_tasks", "register_task_ran_after_unload", f"{type(ov).__name__}: callable ran {ran}")
            else:
                world.probe("register_after_unload_refused")
            del fut, fut2
        st["phase"] = None
        # ---- late datagrams
        others = [n.address for n in nodes if n is not victim]
        for (pfx, mid, _label), (data, src) in list(st["captured"].items()):
            net.inject(src, victim.address, data, delay=0.001, label="late")
            world.probe("late_datagrams_delivered")
            del pfx, mid
        for pfx in prefixes:
            for mid in range(256):
                net.inject(rng.choice(others), victim.address, pfx + bytes([mid]) + rng.randbytes(rng.choice([0, 8, 60])),
                           delay=0.002 + mid * 1e-5, label="late")
        await asyncio.sleep(2.0)
        check_now("2 s after unload")
        # (a full ipv8_service.IPv8 network costs ~40 ms of wall time per virtual second: its tail is kept to 10 minutes)
        tail = 600.0 if case["scenario"] == "service" else 7200.0
        await asyncio.sleep(tail)
        check_now(f"{tail:.0f} s after unload")
        victim_rest = [o for o in getattr(victim, "ovs", {}).values() if o not in ovs] if hasattr(victim, "ovs") else []
        del victim_rest
        await scn.teardown(nodes)

    try:
        world.run(main())
    finally:
        TaskManager.register_task = orig_register
        RequestCache._on_timeout = orig_timeout  # noqa: SLF001
    world.trace.event("c11", None, (case["scenario"], case["step"], len(c.violations)))
    c.sample = {"scenario": case["scenario"], "node": case["node"], "unload_at_step": case["step"], "offset": case.get("offset"),
                "tasks_tracked": len(tracked_futures()), "captured_types": len(st["captured"])}
    return c.result()
