"""
C15 - DHT values are stored only for authorised writers and read back authentic.

Two families of cases.

``net``      6..12 real ``DHTDiscoveryCommunity`` nodes (a thin observing subclass, every handler / timer body is the one
             of /repo) on SimNet under virtual time, plus two adversary identities (own keys, own hosts, members of the
             DHT).  Honest clients store and look up signed / unsigned values in several versions; the real maintenance
             timers run (token rotation every 300 s, value maintenance every 3600 s, store_peer, ping_all, node
             maintenance) and are additionally invoked as explicit ops, together with forward jumps of the nodes' wall
             clocks.  The adversary sends store / store-peer requests (real payload classes, ``ezr_pack`` of its own
             overlay instance, put on the wire with ``net.inject`` so that the source address is its choice) carrying
             tokens that are fresh, one rotation old, expired, issued by another node, issued to another address or
             another key, sniffed from an honest client, replayed verbatim, or garbage; values that are valid,
             oversized, too many, forged (victim's key, random / bit-flipped signature), signed by a foreign key,
             genuine-but-older (rollback), in older / equal / newer versions.  The adversary identities also *answer*
             find-requests for armed keys with crafted value lists (read path; keys next to the adversary's node id so
             that honest lookups ask it first).
             Oracle = lock-step model per honest node fed from observation only: the tokens a node issued are read off
             the find-responses leaving it (to which address, for which requester key, under which rotation count);
             every store / store-peer request entering a node is decoded and verified by the harness' own codec and
             the node's ``Storage`` / ``store`` are compared before/after.
``storage``  a direct history on one real ``Storage`` (put / clean / get under the virtual clock) with several ids per
             key (among them id == key, which ``put`` sorts last), versions and max_age values.

Independent oracles (``first_only=False``), each with its own key:

  store_accepted_without_valid_token:<why>       Storage changed for a store-request whose token the model does not hold
  store_peer_accepted_without_valid_token:<why>  valid (<why> = expired_token | token_of_other_node | unknown_token |
                                                 token_issued_to_other_address | .._other_key | .._other_requester |
                                                 bad_request_signature | undecodable_request)
  oversized_value_stored[:<path>]                a node holds a value longer than MAX_ENTRY_SIZE (path = how it got there)
  too_many_values_stored                         one request changed more than MAX_VALUES_IN_STORE values
  stored_version_decreased                       per (key, signer id) the stored version went down
  find_returned_unverifiable_signature           find_values reported (data, pk) that no delivered value backs up
  find_did_not_return_highest_version            a signer's highest accepted version (or the signer) is missing
  expired_value_survives_maintenance             age > max_age right after value_maintenance / Storage.clean()
  store_peer_under_foreign_mid                   ``store`` gained an entry under a key that is not the requester's mid

Findings on the unchanged tree (both reproduced by the quick tier):
  * expired_value_survives_maintenance - ``Storage.clean()`` stops at the first unexpired value from the tail; values
    with id == key are sorted last and values may carry different max_age, so expired ones in front of it survive.
  * oversized_value_stored:find_result_cached_locally - ``_find`` caches the values of a lookup through
    ``store_on_nodes``, which also adds them to the client's own Storage (``len(nodes) < TARGET_NODES``) without the
    size check of ``on_store_request`` / ``_store``: one find-response with a 171+ byte value plants it on the client.
"""
from __future__ import annotations

import asyncio
import hashlib
import itertools
import random
import struct

from simkit.boot import NODE
from simkit.node import SimNode
from simkit.scenario import Case

PROPERTY = "C15"
LEVEL = "exploration"
BUDGET = {"quick": 30, "thorough": 420}
CHUNK = 4
CASE_WALL = {"quick": 120, "thorough": 600}
SHRINK_WALL = {"quick": 40, "thorough": 240}
ENUMERATED = {"quick": False, "thorough": False}
SHRINK_FIELDS = ("ops",)
RULE = ("net case = (seed, number of honest nodes 6..12, network knobs {loss, dup, latency jitter, tail, timer jitter} or "
        "fault-free, explicit op list). ops: honest store(client, key, signed?) / find(client, key) / store_peer; adversary "
        "token harvest; adversary store request {signing identity, source address own|other identity|honest client|unused, "
        "target node, token fresh|newest|oldest|other node's|other identity's|sniffed from a client|garbage, key, values "
        "(unsigned n bytes | adversary-signed version base/old/same/new | forged victim key | foreign signature | bit-flipped "
        "genuine | rollback to oldest genuine | latest genuine | oversized unsigned/signed | >8 values | junk type | truncated "
        "| empty)}; adversary store-peer request {.., target own mid|client mid|random}; verbatim replay of a sniffed honest "
        "store request from own/original source; arm the adversary responder with crafted values for a key; explicit "
        "token_maintenance / value_maintenance on one or all nodes; wall-clock jump forward on one or all nodes; sleep "
        "(short mode 0.3..5 s with explicit rotations/maintenance, long mode sleeps across the real 300 s / 3600 s timers). "
        "keys: random, the mid of an honest signer (id == key), ids next to the adversary's node id (so that the adversary "
        "is asked first). The first cases are hand-directed scripts (fault-free, lossy, long) that walk through every token "
        "and value class; the rest is drawn from random.Random('c15/<seed>'). storage case = explicit list of put(key, id in "
        "{None, key itself, a, b, c}, data, version, max_age) / tick / clean / get. Non-trivial net case = at least one request "
        "decided by the model; distinct by (request kind, model verdict of the token, source kind, value kinds, changed?), "
        "find outcomes by (number of signers, forged offered?, older+newer offered?); storage histories by final shape.")
COMPONENTS = {"real": ["ipv8.dht.discovery.DHTDiscoveryCommunity / ipv8.dht.community.DHTCommunity handlers, crawl, timers "
                       "(subclassed only to observe entry/exit of on_store_request, on_store_peer_request, on_find_request, "
                       "on_find_response, token_maintenance, value_maintenance; bodies are /repo's)",
                       "ipv8.dht.storage.Storage / Value", "ipv8.dht.routing", "RequestCache", "Serializer and payload classes",
                       "UDPEndpoint on SimNet", "curve25519 keys and signatures (Rust primitive; also the oracle's verifier)"],
              "stub": ["UDP/IP (SimNet)", "wall clock (virtual, per-node forward jumps)", "OS RNG (seeded)",
                       "IPv6 (IPv4 routing table / storage only)"]}
ASSUMPTIONS = ["validity window of a token = issued under the current or the previous secret of the issuing node (the two "
               "secrets the node keeps; <= 600 s): the model counts token_maintenance runs per node",
               "a token is 'issued to (address, key)' when a find-response carrying it leaves the node in reply to a "
               "find-request from that source address signed by that key",
               "size / count limits are the module constants MAX_ENTRY_SIZE and MAX_VALUES_IN_STORE (per request)",
               "'verifies under that key' = the last signature-length bytes are a valid signature of everything before "
               "them under the public key named inside the value (wire format re-derived with struct)",
               "a lookup 'saw' the values of find-responses that matched one of its outstanding requests for that key",
               "refusing an authorised request (rate limit, loss) is never a violation; storing unverifiable signed values "
               "on a node is not judged (the statement speaks about what a lookup reports)",
               "Ed25519 verification in ipv8_rust_tunnels is trusted"]
REACH = ["token_rotations", "value_maintenance_runs", "store_accepted_valid_token", "previous_secret_token_accepted",
         "store_with_expired_token_refused", "store_with_foreign_token_refused", "store_with_other_address_token_refused",
         "store_with_other_key_token_refused", "replayed_store_refused", "oversized_refused", "too_many_refused",
         "version_conflict_newer_wins", "version_newer_replaced", "forged_signature_filtered", "find_checked_signed",
         "find_offered_older_and_newer", "find_forged_offered_and_filtered", "store_peer_accepted",
         "store_peer_foreign_mid_refused", "store_peer_bad_token_refused", "expired_value_removed_by_maintenance",
         "storage_clean_removed_expired", "storage_put_older_ignored", "real_timer_rotation", "real_timer_maintenance", "routing_table_learnt_closer_nodes", "republished_with_other_lifetime"]

PREFIX_LEN = 22
MSG_STORE, MSG_FIND_REQ, MSG_FIND_RESP, MSG_STORE_PEER = 3, 5, 6, 7


# ================================================================================================ case generation
def _storage_case(seed: int, tier: str) -> dict:
    rng = random.Random(f"c15/{seed}")
    n_ops = rng.choice([6, 12, 25, 60] if tier == "quick" else [6, 12, 25, 60, 150, 400])
    ages = rng.choice([[10, 100, 1000, 3600], [3600, 1800, 900, 450, 112], [5, 50], [86400, 3600, 60], [100]])
    ops: list = []
    ver = 0
    for _ in range(n_ops):
        r = rng.random()
        if r < 0.55:
            key = rng.randrange(3)
            ident = rng.choice([None, None, "key", "key", "a", "b", "c"])
            vk = rng.random()
            if vk < 0.5:
                ver += rng.randrange(1, 5)
                version = ver
            elif vk < 0.75:
                version = max(0, ver - rng.randrange(0, 6))
            else:
                version = rng.choice([0, 0, ver, ver + 100])
            ops.append(["put", key, ident, rng.randrange(6), version, rng.choice(ages)])
        elif r < 0.8:
            ops.append(["tick", rng.choice([0.5, 3, 9, 11, 40, 60, 101, 500, 901, 1801, 3601])])
        elif r < 0.93:
            ops.append(["clean"])
        else:
            ops.append(["get", rng.randrange(3), rng.randrange(3), rng.choice([None, 1, 8])])
    ops.append(["clean"])
    return {"kind": "storage", "seed": seed, "knobs": {}, "ops": ops}


class _B:
    """Small op-list builder for net cases."""

    def __init__(self, rng: random.Random, n: int) -> None:
        self.rng = rng
        self.n = n
        self.ops: list = []

    def sleep(self, dt: float) -> None:
        self.ops.append(["sleep", round(dt, 3)])

    def store(self, ci: int, key: str, sign: bool) -> None:
        self.ops.append(["store", ci, key, sign])

    def find(self, ci: int, key: str) -> None:
        self.ops.append(["find", ci, key])

    def tok(self, ai: int, hi: int) -> None:
        self.ops.append(["tok", ai, hi])

    def astore(self, hi: int, key: str, vals: list, tok: str = "newest", ai: int = 0, src: str = "own") -> None:
        self.ops.append(["astore", {"as": ai, "src": src, "h": hi, "tok": tok, "key": key, "vals": vals}])

    def apeer(self, hi: int, target: str, tok: str = "newest", ai: int = 0, src: str = "own") -> None:
        self.ops.append(["apeer", {"as": ai, "src": src, "h": hi, "tok": tok, "target": target}])


def _directed(variant: int, seed: int, tier: str) -> dict:  # noqa: PLR0915
    rng = random.Random(f"c15/directed/{seed}")
    n = [8, 9, 6, 12][variant % 4]
    b = _B(rng, n)
    knobs: dict = {}
    if variant == 1:
        knobs = {"loss": 0.04, "dup": 0.05, "lat_jit": 0.05, "tail_p": 0.02, "timer_jitter": 0.001}
    if variant == 3:
        knobs = {"dup": 0.1, "lat_jit": 0.2, "timer_jitter": 0.05}
    long_mode = variant == 2
    gap = 1.0

    def pause() -> None:
        b.sleep(gap)

    # honest publishing in several versions, lookup
    b.store(0, "r0", True); b.sleep(1.3); b.store(0, "r0", True); b.sleep(1.2); b.store(1, "r0", False)
    b.find(2, "r0")
    b.store(1, "m1", True); b.store(2, "m1", False); b.store(3, "m1", False)
    # token harvest
    for hi in range(4):
        b.tok(0, hi); b.tok(1, hi); b.sleep(0.6)
    # authorised stores, version conflicts
    for vals in ([["u", 40]], [["s", 0, "base", 5]], [["s", 0, "old", 5]], [["s", 0, "same", 6]], [["s", 0, "new", 5]],
                 [["s", 0, "old", 4], ["s", 0, "new", 4], ["s", 0, "old", 3]]):
        b.astore(0, "r1", vals); pause()
    # limits
    for vals in ([["big_u"]], [["big_s", 0]], [["u", 20], ["big_u"]], [["many", 9]], [["many", 8]], [["u", 170]], [["u", 171]]):
        b.astore(1, "r2", vals); pause()
    # forged / foreign / rollback with a good token, on a node that holds r0
    b.astore(0, "r0", [["forged", 0, "hi"], ["foreign", 0], ["flip", 0], ["rollback", 0], ["junk"]]); pause()
    b.astore(2, "r0", [["rollback", 0]]); pause()
    b.astore(2, "r0", [["latest", 0]]); pause()
    # tokens that must not open the door
    b.astore(0, "r3", [["u", 30]], tok="other_node"); pause()
    b.astore(0, "r3", [["u", 31]], tok="other_id"); pause()
    b.astore(0, "r3", [["u", 32]], tok="newest", src="peer"); pause()          # issued to my other address
    b.astore(0, "r3", [["u", 33]], tok="newest", src="unused"); pause()
    b.astore(0, "r4", [["u", 34]], tok="newest", src="own_port"); pause()          # same node id, other port
    b.astore(0, "r5", [["u", 35]], tok="newest", src="own_alias"); pause()         # same node id, masked ip bits differ
    b.astore(0, "r3", [["u", 34]], tok="sniff:1", src="client:1"); pause()     # client's address, my key
    b.astore(0, "r3", [["u", 35]], tok="sniff:1"); pause()                     # client's token from my address
    b.astore(0, "r3", [["u", 36]], tok="garbage"); pause()
    b.astore(0, "r3", [["u", 37]], tok="other_id", ai=0, src="peer"); pause()  # other identity's address + its token, my key
    b.ops.append(["replay", 0, "own"]); pause()
    b.ops.append(["replay", 0, "orig"]); pause()
    # store-peer
    b.apeer(0, "own"); pause()
    b.apeer(0, "client:1"); pause()
    b.apeer(0, "rand"); pause()
    b.apeer(0, "own", tok="garbage", ai=1); pause()
    b.apeer(1, "own", tok="other_node", ai=1); pause()
    b.apeer(1, "own", tok="newest", ai=1, src="peer"); pause()
    b.apeer(1, "client:2", tok="sniff:2", ai=1); pause()
    b.apeer(1, "own", tok="oldest", ai=1); pause()
    b.apeer(1, "own", tok="newest", ai=1); pause()                              # finally an authorised one
    # rotations
    if long_mode:
        b.sleep(305)
    else:
        b.ops.append(["rotate", -1])
    b.astore(0, "r1", [["u", 41]]); pause()                                    # previous secret: still authorised
    b.apeer(2, "own"); pause()
    if long_mode:
        b.sleep(300)
    else:
        b.ops.append(["rotate", -1])
    b.astore(0, "r1", [["u", 42]]); pause()                                    # expired
    b.astore(0, "r1", [["u", 43]], tok="oldest"); pause()
    b.apeer(2, "own"); pause()
    b.ops.append(["replay", 0, "orig"]); pause()
    b.astore(0, "r1", [["u", 44]], tok="fresh"); pause()
    # re-publication: the lifetime of a value is the one granted by the LAST accepted store.  First stored while the node knows few
    # nodes closer to the key, then its routing table learns a dozen closer ones, then the identical bytes are stored again
    b.astore(3, "r6", [["u", 50]], tok="fresh"); pause()
    b.ops.append(["fillrt", 3, "r6", 14])
    b.astore(3, "r6", [["same_again"]], tok="fresh"); pause()
    b.ops.append(["clock", 3, 1900]); b.ops.append(["maintain", 3])
    b.ops.append(["clock", 3, 1800]); b.ops.append(["maintain", 3])
    # read path with a lying responder
    b.store(0, "a0", True); b.sleep(1.2); b.store(0, "a0", True); b.sleep(0.5)
    b.ops.append(["evil", "a0", [["forged", 0, "hi"], ["foreign", 0], ["flip", 0], ["rollback", 0], ["s", 0, "base", 4],
                                 ["s", 0, "new", 4], ["s", 0, "old", 4], ["u", 30]]])
    b.find(2, "a0"); b.find(3, "a0")
    b.ops.append(["evil", "a1", [["s", 1, "new", 3], ["s", 1, "base", 3], ["forged", 1, "hi"], ["big_u"], ["junk"]]])
    b.find(1, "a1"); b.find(4, "a1")
    b.ops.append(["evil", "a0", []])
    # lifetimes: an expired value in front of a live one
    if long_mode:
        b.sleep(400); b.ops.append(["clock", -1, 700]); b.sleep(900); b.store(1, "m1", True)
        b.sleep(max(10.0, 3625 - sum(op[1] for op in b.ops if op[0] == "sleep")))
        b.find(0, "m1")
    else:
        b.ops.append(["clock", -1, 3700]); b.store(1, "m1", True); b.ops.append(["maintain", -1])
        b.find(0, "m1")
        b.ops.append(["clock", 2, 4000]); b.ops.append(["maintain", 2])
    del tier
    return {"kind": "net", "seed": seed, "n": n, "knobs": knobs, "ops": b.ops, "directed": variant}


VAL_KINDS = [["u", 1], ["u", 40], ["u", 169], ["u", 170], ["u", 171], ["s", 0, "base", 5], ["s", 0, "old", 5],
             ["s", 0, "same", 5], ["s", 0, "new", 5], ["s", 1, "new", 3], ["s", 1, "old", 3], ["forged", 0, "hi"],
             ["forged", 1, "lo"], ["foreign", 0], ["foreign", 1], ["flip", 0], ["rollback", 0], ["rollback", 1],
             ["latest", 0], ["big_u"], ["big_s", 0], ["many", 9], ["many", 8], ["many", 20], ["junk"], ["trunc", 0], ["empty"]]
TOK_KINDS = ["newest", "newest", "newest", "fresh", "fresh", "oldest", "oldest", "other_node", "other_id", "sniff:0",
             "sniff:1", "garbage"]
SRC_KINDS = ["own", "own", "own", "own", "peer", "unused", "client:0", "client:1", "own_port", "own_alias"]


def _net_case(seed: int, tier: str, mode: str) -> dict:  # noqa: C901, PLR0912, PLR0915
    rng = random.Random(f"c15/{seed}")
    if mode == "long":
        n = rng.choice([6, 6, 7] if tier == "quick" else [6, 7, 8, 9])
        horizon = 3700 if tier == "quick" else rng.choice([3700, 3700, 7400])
    else:
        n = rng.choice([6, 7, 8, 9, 10, 12])
        horizon = rng.choice([60, 150, 400])
    knobs: dict = {}
    if rng.random() < 0.7:
        knobs = {"lat_min": rng.choice([0.001, 0.005, 0.02]), "lat_jit": rng.choice([0.0, 0.01, 0.05, 0.2]),
                 "loss": rng.choice([0.0, 0.0, 0.02, 0.05, 0.1]), "dup": rng.choice([0.0, 0.0, 0.02, 0.05, 0.2]),
                 "tail_p": rng.choice([0.0, 0.0, 0.02]), "timer_jitter": rng.choice([0.0, 0.0, 0.001, 0.05, 0.5])}
    b = _B(rng, n)
    keys = ["r0", "r1", "r2", "m0", "m1", "m1", "a0", "a1"]
    n_blocks = rng.randrange(8, 30) if mode == "short" else rng.randrange(14, 40)

    def gap() -> None:
        if mode == "short":
            b.sleep(rng.choice([0.3, 0.6, 1.0, 1.0, 1.3, 2.5, 5.0]))
        else:
            b.sleep(rng.choice([0.6, 1.0, 1.3, 5.0, 30.0, 60.0, 120.0, 301.0, 310.0]) * horizon / 3700.0
                    if rng.random() < 0.5 else rng.choice([0.6, 1.0, 1.3]))

    def vals() -> list:
        return [list(rng.choice(VAL_KINDS)) for _ in range(rng.choice([1, 1, 1, 2, 3, 5]))]

    def tok_src() -> tuple:
        r = rng.random()
        if r < 0.12:
            x = rng.randrange(2)
            return f"sniff:{x}", f"client:{x}"      # the address the token was issued to, another key
        if r < 0.2:
            return "other_id", "peer"               # same, with the other adversary identity's token and address
        if r < 0.32:
            return "oldest", "own"
        return rng.choice(TOK_KINDS), rng.choice(SRC_KINDS)

    for hi in range(min(n, 4)):
        b.tok(0, hi)
        if rng.random() < 0.6:
            b.tok(1, hi)
        b.sleep(0.6)
    for _ in range(n_blocks):
        r = rng.random()
        hi = rng.randrange(min(n, 4))
        if r < 0.2:
            ci = rng.randrange(3)
            key = rng.choice(keys)
            signed = rng.random() < 0.6
            b.store(ci, key, signed)
            if rng.random() < 0.5:
                b.sleep(rng.choice([1.1, 1.5, 2.2])); b.store(ci, key, signed)
            if key.startswith("m") and rng.random() < 0.7:
                b.store(int(key[1:]), key, True)
            if rng.random() < 0.6:
                b.find(rng.randrange(n), key)
        elif r < 0.45:
            tk, sr = tok_src()
            b.astore(hi, rng.choice(keys), vals(), tok=tk, ai=rng.randrange(2), src=sr)
        elif r < 0.55:
            tk, sr = tok_src()
            b.apeer(hi, rng.choice(["own", "own", "client:0", "client:1", "rand"]), tok=tk, ai=rng.randrange(2), src=sr)
        elif r < 0.6:
            b.ops.append(["replay", hi, rng.choice(["own", "orig", "peer"])])
        elif r < 0.68:
            b.tok(rng.randrange(2), hi)
        elif r < 0.78:
            key = rng.choice(["a0", "a1", "a0", "m1"])
            if rng.random() < 0.5:
                b.store(rng.randrange(2), key, True); b.sleep(1.2); b.store(rng.randrange(2), key, True)
            b.ops.append(["evil", key, vals() + vals()])
            b.find(rng.randrange(n), key)
        elif r < 0.86:
            who = rng.choice([-1, -1, hi])
            if rng.random() < 0.35:
                # the edge of the validity window: a token used one and two rotations after it was issued
                ai = rng.randrange(2)
                b.tok(ai, hi); b.sleep(0.6)
                for _k in range(rng.choice([1, 2, 2, 3])):
                    if mode == "short" or rng.random() < 0.5:
                        b.ops.append(["rotate", who])
                    else:
                        b.sleep(301)
                    b.astore(hi, rng.choice(keys), [["u", 20]], tok="newest", ai=ai); b.sleep(0.7)
            elif mode == "short" or rng.random() < 0.3:
                b.ops.append(["rotate", who])
            else:
                b.sleep(rng.choice([150, 301, 301, 602]))
        elif r < 0.94:
            who = rng.choice([-1, -1, hi, rng.randrange(n)])
            b.ops.append(["clock", who, rng.choice([30, 301, 601, 1000, 1801, 3601, 3700])])
            if rng.random() < 0.6:
                key = rng.choice(["m0", "m1"])
                b.store(int(key[1:]), key, True)
            if mode == "short" or rng.random() < 0.3:
                b.ops.append(["maintain", who])
        else:
            b.find(rng.randrange(n), rng.choice(keys))
        gap()
    if mode == "long":
        total = sum(op[1] for op in b.ops if op[0] == "sleep")
        target = horizon if total < horizon - 80 else total + 10
        if total < target:
            # land just after the next run of the real value_maintenance timer
            b.sleep(target - total)
        b.find(rng.randrange(n), rng.choice(keys))
        b.sleep(1.0)
    return {"kind": "net", "seed": seed, "n": n, "knobs": knobs, "ops": b.ops, "mode": mode}


def cases(tier: str, base_seed: int):  # noqa: ANN201
    for v in range(4):
        yield _directed(v, base_seed + v, tier)
    for i in itertools.count():
        seed = base_seed + 100 + i
        r = i % 16
        if r in (3, 7, 11, 12, 13, 14):
            yield _net_case(seed, tier, "short")
        elif r == 15:
            yield _net_case(seed, tier, "long")       # ~10 s of wall time each: one in sixteen
        else:
            yield _storage_case(seed, tier)


def simplify(case: dict):  # noqa: ANN201
    """Candidates tried by the shrinker after ddmin on ``ops``: no network faults, fewer nodes."""
    if case.get("kind") != "net":
        return
    if case.get("knobs"):
        yield {**case, "knobs": {}}
    for n in (6, 8):
        if int(case.get("n", 8)) > n:
            yield {**case, "knobs": {}, "n": n}
            yield {**case, "n": n}


# ================================================================================================ harness' own codec
def mk_unsigned(data: bytes) -> bytes:
    return b"\x00" + data


def signed_body(data: bytes, version: int, pk: bytes) -> bytes:
    return b"\x01" + struct.pack(">H", len(data)) + data + struct.pack(">I", version) + struct.pack(">H", len(pk)) + pk


def mk_signed(key, data: bytes, version: int, pk: bytes | None = None) -> bytes:  # noqa: ANN001
    body = signed_body(data, version, pk if pk is not None else key.pub().key_to_bin())
    return body + key.signature(body)


def parse_value(v: bytes) -> dict | None:
    """The harness' own decoding + verification of a serialized DHT value (None = not decodable)."""
    from ipv8.keyvault.crypto import default_eccrypto
    if not v:
        return None
    if v[0] == 0:
        return {"t": 0, "data": v[1:], "pk": None, "version": 0, "valid": True}
    if v[0] != 1:
        return None
    try:
        off = 1
        (ln,) = struct.unpack_from(">H", v, off)
        off += 2
        data = v[off:off + ln]
        if len(data) != ln:
            return None
        off += ln
        (ver,) = struct.unpack_from(">I", v, off)
        off += 4
        (kl,) = struct.unpack_from(">H", v, off)
        off += 2
        pk = v[off:off + kl]
        if len(pk) != kl:
            return None
        off += kl
    except struct.error:
        return None
    valid = False
    try:
        key = default_eccrypto.key_from_public_bin(pk)
        siglen = key.get_signature_length()
        if len(v) >= off + siglen:
            valid = bool(default_eccrypto.is_valid_signature(key, v[:-siglen], v[-siglen:]))
    except Exception:  # noqa: BLE001
        valid = False
    return {"t": 1, "data": data, "pk": pk, "version": ver, "valid": valid}


def parse_dgram(ser, data: bytes, payload_cls):  # noqa: ANN001, ANN201
    """(sender key bin, datagram signature valid?, payload) decided from the bytes on the wire."""
    from ipv8.keyvault.crypto import default_eccrypto
    (kl,) = struct.unpack_from(">H", data, 23)
    kb = data[25:25 + kl]
    if len(kb) != kl or not kl:
        msg = "short key"
        raise ValueError(msg)
    pk = default_eccrypto.key_from_public_bin(kb)
    siglen = pk.get_signature_length()
    if len(data) < 25 + kl + siglen:
        msg = "short datagram"
        raise ValueError(msg)
    ok = bool(default_eccrypto.is_valid_signature(pk, data[:-siglen], data[-siglen:]))
    payload, _ = ser.unpack_serializable(payload_cls, data[:-siglen], offset=25 + kl)
    return kb, ok, payload


def _addr(a) -> tuple:  # noqa: ANN001
    return (str(a[0]), int(a[1]))


def _hx(b: bytes | None, n: int = 8) -> str:
    return "-" if b is None else bytes(b).hex()[:n]


# ================================================================================================ net harness
class Harness:
    def __init__(self, c: Case, case: dict) -> None:
        self.c = c
        self.case = case
        self.world = c.world
        self.net = c.net
        self.rng = c.world.stream("adversary")
        self.honest: list = []
        self.advs: list = []
        self.names: dict = {}           # honest host name -> SimNode
        self.rot: dict = {}             # name -> number of token_maintenance runs
        self.issued: dict = {}          # name -> {token: [(addr, key, rot)]}
        self.cur_find = None
        self.last: dict = {}            # name -> last snapshot (version monotonicity)
        self.recording: dict = {}       # client name -> list of offers (while a find op runs)
        self.findreq: dict = {}         # client name -> {identifier: (target, force_nodes)}
        self.sniffed: dict = {}         # target honest name -> [(src addr, datagram)]
        self.genuine: dict = {}         # signer pk -> {version: value bytes}
        self.book: dict = {}            # (ai, hi) -> [token]
        self.advver: dict = {}          # (signer ai, scope, key) -> current version
        self.evil: dict = {}            # key -> value specs
        self.intents: dict = {}         # sha1(datagram)+src -> label
        self.keys: dict = {}
        self.counter = 0
        self.granted = {}               # (node name, value bytes) -> (time of the last accepted store-request, lifetime it was granted)
        self.stats: dict = {}
        self.in_timer = True
        self.prefix = b""
        self.ser = None
        self.limits = (170, 8)
        self.errors: list = []

    # ------------------------------------------------------------------ bookkeeping helpers


    def stat(self, k: str) -> None:
        self.stats[k] = self.stats.get(k, 0) + 1

    def snap(self, ov) -> dict:  # noqa: ANN001
        out = {}
        for cls, st in ov.storages.items():
            for key, lst in st.items.items():
                for v in lst:
                    out[(cls.__name__, key, v.id)] = (v.version, v.data, v.max_age, v.last_update)
        return out

    def snap_store(self, ov) -> dict:  # noqa: ANN001
        return {k: [(n.public_key.key_to_bin(), _addr(n.address)) for n in lst] for k, lst in ov.store.items() if lst}

    def observe(self, name, ov, ctx: str, snap: dict | None = None) -> dict:  # noqa: ANN001
        """Version monotonicity + size limit over everything a node holds; called at every observation point."""
        cur = self.snap(ov) if snap is None else snap
        last = self.last.get(name)
        if last is not None:
            for k, (ver, data, _ma, _lu) in cur.items():
                old = last.get(k)
                if old is None:
                    if len(data) > self.limits[0]:
                        if ctx != "store_request" and name in self.recording:
                            ctx = "find"       # the node's own lookup is still running: its result cache is the writer
                        key = {"store_request": "oversized_value_stored",
                               "find": "oversized_value_stored:find_result_cached_locally"}.get(
                                   ctx, "oversized_value_stored:other_path")
                        self.c.violate("size_limit", key,
                                       f"{name} holds a {len(data)}-byte value (limit {self.limits[0]}) under key "
                                       f"{_hx(k[1])} that appeared during '{ctx}'")
                elif ver < old[0]:
                    self.c.violate("version_monotonic", "stored_version_decreased",
                                   f"{name} key {_hx(k[1])} signer-id {_hx(k[2])}: stored version went {old[0]} -> {ver} "
                                   f"(data {old[1][:12]!r} -> {data[:12]!r}) during '{ctx}'")
        self.last[name] = cur
        return cur

    # ------------------------------------------------------------------ callbacks from the observing subclass
    def on_rotation(self, ov) -> None:  # noqa: ANN001
        name = NODE.get()
        self.rot[name] = self.rot.get(name, 0) + 1
        if self.rot[name] > 1:
            self.c.probe("token_rotations")
            if self.in_timer:
                self.c.probe("real_timer_rotation")

    def before_maintenance(self, ov) -> None:  # noqa: ANN001
        name = NODE.get()
        if name in self.names:
            self.observe(name, ov, "before_maintenance")

    def after_maintenance(self, ov) -> None:  # noqa: ANN001
        import time
        name = NODE.get()
        if name not in self.names:
            return
        self.c.probe("value_maintenance_runs")
        if self.in_timer:
            self.c.probe("real_timer_maintenance")
        before = self.last.get(name, {})
        now = time.time()
        for cls, st in ov.storages.items():
            for key, lst in st.items.items():
                bad = [i for i, v in enumerate(lst) if now - v.last_update > v.max_age]
                if bad:
                    shape = [(("id==key" if v.id == key else _hx(v.id, 6)), round(now - v.last_update, 1), v.max_age)
                             for v in lst]
                    self.c.violate("lifetime", "expired_value_survives_maintenance",
                                   f"{name} right after value_maintenance: key {_hx(key)} still holds expired value(s) at "
                                   f"list index {bad}; list (id, age, max_age) = {shape}")
            del cls
        for st in ov.storages.values():
            for key, lst in st.items.items():
                for v in lst:
                    g = self.granted.get((name, bytes(v.data)))
                    if g is not None and now - g[0] > g[1] + 1e-6:
                        self.c.violate("lifetime", "value_outlives_lifetime_granted_by_last_store",
                                       f"{name} right after value_maintenance: a value under key {_hx(key)} was last stored (accepted "
                                       f"store-request) {now - g[0]:.0f} s ago with a lifetime of {g[1]} s and is still there "
                                       f"(the entry says age {now - v.last_update:.0f}, max_age {v.max_age})")
        after = self.observe(name, ov, "maintenance")
        if len(after) < len(before):
            self.c.probe("expired_value_removed_by_maintenance")

    def enter_find(self, ov, source_address, data: bytes) -> None:  # noqa: ANN001
        name = NODE.get()
        if name not in self.names:
            return
        try:
            (kl,) = struct.unpack_from(">H", data, 23)
            kb = data[25:25 + kl]
        except struct.error:
            return
        self.cur_find = (name, _addr(source_address), kb)

    def note_find_response(self, ov, source_address, data: bytes) -> None:  # noqa: ANN001
        from ipv8.dht.payload import FindResponsePayload
        name = NODE.get()
        rec = self.recording.get(name)
        if rec is None:
            return
        try:
            kb, ok, payload = parse_dgram(ov.serializer, data, FindResponsePayload)
        except Exception:  # noqa: BLE001
            return
        accepted = ok and ov.request_cache.has("find", payload.identifier)
        tgt = self.findreq.get(name, {}).get(payload.identifier)
        rec.append({"from": _addr(source_address), "key": kb, "accepted": bool(accepted), "target": tgt,
                    "values": [bytes(v) for v in payload.values]})

    def pre_request(self, ov, source_address, data: bytes, kind: str) -> dict | None:  # noqa: ANN001
        from ipv8.dht.payload import StorePeerRequestPayload, StoreRequestPayload
        name = NODE.get()
        if name not in self.names:
            return None
        src = _addr(source_address)
        rec = {"kind": kind, "name": name, "src": src, "parsed": None, "auth": False, "key": None,
               "intent": self.intents.get((hashlib.sha1(data).digest(), src))}  # noqa: S324
        try:
            kb, ok, payload = parse_dgram(ov.serializer, data, StoreRequestPayload if kind == "store"
                                          else StorePeerRequestPayload)
            rec.update(parsed=payload, auth=ok, key=kb)
        except Exception:  # noqa: BLE001
            pass
        if kind == "store":
            rec["before"] = self.observe(name, ov, "before_store_request")
            rec["granted"] = self.lifetime_now(ov, rec["parsed"].target) if rec["parsed"] is not None else None
        else:
            rec["before"] = self.snap_store(ov)
        return rec

    def lifetime_now(self, ov, target: bytes) -> float | None:  # noqa: ANN001
        """The lifetime a store accepted NOW is granted, worked out from the node's routing table by brute force."""
        from ipv8.dht.community import MAX_ENTRY_AGE, TARGET_NODES
        from ipv8.dht.routing import NODE_STATUS_BAD, distance
        from ipv8.messaging.interfaces.udp.endpoint import UDPv4Address
        rt = ov.routing_tables.get(UDPv4Address)
        if rt is None:
            return None
        live = [nd for b in rt.trie.values() for nd in b.nodes.values() if nd.status != NODE_STATUS_BAD]
        live.sort(key=lambda nd: distance(nd.id, target))
        mine = distance(rt.my_node_id, target)
        closer = sum(1 for nd in live[:20] if distance(nd.id, target) < mine)
        return MAX_ENTRY_AGE // 2 ** max(0, closer - TARGET_NODES + 1)

    def classify(self, name, src: tuple, kb: bytes | None, token: bytes | None, auth: bool) -> str:  # noqa: ANN001
        if kb is None or token is None:
            return "undecodable_request"
        if not auth:
            return "bad_request_signature"
        recs = self.issued.get(name, {}).get(bytes(token), [])
        same = [r for r in recs if r[0] == src and r[1] == kb]
        rot = self.rot.get(name, 0)
        if any(rot - r[2] <= 1 for r in same):
            return "valid"
        if same:
            return "expired_token"
        if not recs:
            if any(bytes(token) in d for n2, d in self.issued.items() if n2 != name):
                return "token_of_other_node"
            return "unknown_token"
        if any(r[1] == kb for r in recs):
            return "token_issued_to_other_address"
        if any(r[0] == src for r in recs):
            return "token_issued_to_other_key"
        return "token_issued_to_other_requester"

    def token_age_class(self, name, src: tuple, kb: bytes, token: bytes) -> int | None:  # noqa: ANN001
        recs = [r for r in self.issued.get(name, {}).get(bytes(token), []) if r[0] == src and r[1] == kb]
        if not recs:
            return None
        return self.rot.get(name, 0) - max(r[2] for r in recs)

    def post_request(self, ov, rec: dict | None) -> None:  # noqa: ANN001
        if rec is None:
            return
        if rec["kind"] == "store":
            self._post_store(ov, rec)
        else:
            self._post_store_peer(ov, rec)

    REFUSAL_PROBE = {"expired_token": "store_with_expired_token_refused",
                     "token_of_other_node": "store_with_foreign_token_refused",
                     "token_issued_to_other_address": "store_with_other_address_token_refused",
                     "token_issued_to_other_key": "store_with_other_key_token_refused",
                     "token_issued_to_other_requester": "store_with_other_requester_token_refused",
                     "unknown_token": "store_with_unknown_token_refused"}

    def _post_store(self, ov, rec: dict) -> None:  # noqa: ANN001, C901, PLR0912
        c = self.c
        name = rec["name"]
        before = rec["before"]
        after = self.observe(name, ov, "store_request")
        changed = sorted(k for k in after if before.get(k) != after[k])
        removed = sorted(k for k in before if k not in after)
        p = rec["parsed"]
        verdict = self.classify(name, rec["src"], rec["key"], p.token if p is not None else None, rec["auth"])
        vals = [parse_value(bytes(v)) for v in p.values] if p is not None else []
        raw = [bytes(v) for v in p.values] if p is not None else []
        kinds = sorted({self._vkind(v, r) for v, r in zip(vals, raw)})
        did = bool(changed or removed)
        c.nontrivial(f"store/{verdict}/{rec['intent']}/{','.join(kinds)}/{'changed' if did else 'same'}")
        self.stat(f"store:{verdict}:{'changed' if did else 'unchanged'}")
        self.world.trace.event("c15_store", name, verdict, (len(changed), len(removed)))
        if verdict == "valid" and p is not None and rec.get("granted") is not None and bytes(p.target) == self.key_of("r6"):
            import time
            for r in raw:
                if any(a[1] == r for a in after.values()):
                    prev = self.granted.get((name, r))
                    self.granted[(name, r)] = (time.time(), rec["granted"])
                    if prev is not None and prev[1] != rec["granted"]:
                        c.probe("republished_with_other_lifetime")
        if did:
            if verdict != "valid":
                c.violate("authorised_writer", f"store_accepted_without_valid_token:{verdict}",
                          f"{name} changed its Storage ({len(changed)} value(s) under key "
                          f"{_hx(p.target if p is not None else None)}) for a store-request from {rec['src']} key "
                          f"..{_hx(rec['key'])} whose token {_hx(p.token if p is not None else None)} is '{verdict}' "
                          f"(rotation count now {self.rot.get(name)}, issued records "
                          f"{[(r[0], _hx(r[1]), r[2]) for r in self.issued.get(name, {}).get(bytes(p.token), [])][:4] if p is not None else []})")
            else:
                c.probe("store_accepted_valid_token")
                if self.token_age_class(name, rec["src"], rec["key"], p.token) == 1:
                    c.probe("previous_secret_token_accepted")
            if len(changed) > self.limits[1]:
                c.violate("count_limit", "too_many_values_stored",
                          f"{name} stored {len(changed)} values from one store-request carrying {len(raw)} values "
                          f"(limit {self.limits[1]})")
        elif verdict in self.REFUSAL_PROBE:
            c.probe(self.REFUSAL_PROBE[verdict])
        if rec["intent"] == "replay_other_src" and not did:
            c.probe("replayed_store_refused")
        if verdict == "valid" and p is not None:
            if any(len(r) > self.limits[0] for r in raw) and not did:
                c.probe("oversized_refused")
            if len(raw) > self.limits[1] and not did:
                c.probe("too_many_refused")
            for vi, v in enumerate(vals):
                if v is None or v["t"] != 1:
                    continue
                if not v["valid"]:
                    stored = any(a[1] == raw[vi] for a in after.values())
                    c.probe("forged_value_stored_on_node" if stored else "forged_signature_filtered")
                    continue
                k = ("UDPv4Address", bytes(p.target), hashlib.sha1(v["pk"]).digest())  # noqa: S324
                if k in before and k in after:
                    if v["version"] < before[k][0] and after[k][0] >= before[k][0]:
                        c.probe("version_conflict_newer_wins")
                    elif v["version"] > before[k][0] and after[k][0] == v["version"]:
                        c.probe("version_newer_replaced")

    @staticmethod
    def _vkind(v: dict | None, raw: bytes) -> str:
        if v is None:
            return "undecodable"
        big = "big" if len(raw) > 170 else ""
        if v["t"] == 0:
            return big + "unsigned"
        return big + ("signed" if v["valid"] else "forged")

    def _post_store_peer(self, ov, rec: dict) -> None:  # noqa: ANN001
        c = self.c
        name = rec["name"]
        after = self.snap_store(ov)
        before = rec["before"]
        did = before != after
        p = rec["parsed"]
        verdict = self.classify(name, rec["src"], rec["key"], p.token if p is not None else None, rec["auth"])
        own_mid = hashlib.sha1(rec["key"]).digest() if rec["key"] else None  # noqa: S324
        under_own = p is not None and bytes(p.target) == own_mid
        c.nontrivial(f"store_peer/{verdict}/{rec['intent']}/{'own' if under_own else 'foreign'}/{'changed' if did else 'same'}")
        self.stat(f"store_peer:{verdict}:{'own' if under_own else 'foreign'}:{'changed' if did else 'unchanged'}")
        self.world.trace.event("c15_store_peer", name, verdict, did)
        if did:
            new = {(k, e) for k, lst in after.items() for e in lst} - {(k, e) for k, lst in before.items() for e in lst}
            if verdict != "valid":
                c.violate("authorised_writer", f"store_peer_accepted_without_valid_token:{verdict}",
                          f"{name} changed its peer store for a store-peer-request from {rec['src']} key ..{_hx(rec['key'])} "
                          f"whose token is '{verdict}'")
            for k, (nk, _na) in sorted(new):
                if k != hashlib.sha1(nk).digest() or not under_own or nk != rec["key"]:  # noqa: S324
                    c.violate("own_mid", "store_peer_under_foreign_mid",
                              f"{name} stored peer ..{_hx(nk)} (requester ..{_hx(rec['key'])}, mid {_hx(own_mid)}) under "
                              f"key {_hx(k)} which is not the requester's own mid")
            if verdict == "valid" and under_own:
                c.probe("store_peer_accepted")
        else:
            if verdict == "valid" and not under_own:
                c.probe("store_peer_foreign_mid_refused")
            if verdict != "valid":
                c.probe("store_peer_bad_token_refused")

    # ------------------------------------------------------------------ wire observation
    def on_send(self, pkt, fate) -> None:  # noqa: ANN001
        d = pkt.data
        if pkt.injected or len(d) < 30 or d[:PREFIX_LEN] != self.prefix:
            return
        name = pkt.src_node
        if name not in self.names:
            return
        mid = d[22]
        if mid == MSG_FIND_RESP:
            cf = self.cur_find
            if cf is None or cf[0] != name:
                return
            (kl,) = struct.unpack_from(">H", d, 23)
            token = d[25 + kl + 4:25 + kl + 24]
            lst = self.issued.setdefault(name, {}).setdefault(token, [])
            item = (cf[1], cf[2], self.rot.get(name, 0))
            if item not in lst:
                lst.append(item)
        elif mid == MSG_FIND_REQ:
            from ipv8.dht.payload import FindRequestPayload
            try:
                (kl,) = struct.unpack_from(">H", d, 23)
                payload, _ = self.ser.unpack_serializable(FindRequestPayload, d, offset=25 + kl)
            except Exception:  # noqa: BLE001
                return
            self.findreq.setdefault(name, {})[payload.identifier] = (bytes(payload.target), bool(payload.force_nodes))
        elif mid == MSG_STORE:
            from ipv8.dht.payload import StoreRequestPayload
            try:
                (kl,) = struct.unpack_from(">H", d, 23)
                payload, _ = self.ser.unpack_serializable(StoreRequestPayload, d[:-64], offset=25 + kl)
            except Exception:  # noqa: BLE001
                return
            dst = self.net.by_ip.get(pkt.dst[0])
            if dst is not None and dst.name in self.names:
                lst = self.sniffed.setdefault(dst.name, [])
                if len(lst) < 64:
                    lst.append((_addr(pkt.src), d))
            for v in payload.values:
                pv = parse_value(bytes(v))
                if pv is not None and pv["t"] == 1 and pv["valid"]:
                    self.genuine.setdefault(pv["pk"], {}).setdefault(pv["version"], bytes(v))

    # ------------------------------------------------------------------ key / value construction
    def key_of(self, spec: str) -> bytes:
        k = self.keys.get(spec)
        if k is not None:
            return k
        if spec[0] == "m":
            k = self.honest[int(spec[1:]) % len(self.honest)].my_peer.mid
        elif spec[0] == "a":
            from ipv8.dht.routing import calc_node_id
            adv = self.advs[0]
            nid = calc_node_id(adv.address, adv.my_peer.mid)
            k = nid[:-1] + bytes([nid[-1] ^ (1 + int(spec[1:]) % 200)])
        else:
            k = hashlib.sha1(f"{self.case['seed']}/{spec}".encode()).digest()  # noqa: S324
        self.keys[spec] = k
        return k

    def _filler(self, n: int) -> bytes:
        self.counter += 1
        head = f"x{self.counter}.".encode()
        return (head + self.rng.randbytes(max(0, n - len(head))))[:n] if n > 0 else b""

    def _version(self, signer: int, scope, key: bytes, kind: str) -> int:  # noqa: ANN001
        cur = self.advver.get((signer, scope, key))
        if cur is None or kind == "base":
            cur = 1000 if cur is None else cur
        elif kind == "old":
            return max(0, cur - self.rng.randrange(1, 500))
        elif kind == "new":
            cur = cur + self.rng.randrange(1, 500)
        self.advver[(signer, scope, key)] = cur
        return cur

    def build_values(self, specs: list, scope, key: bytes) -> list:  # noqa: ANN001, C901, PLR0912
        out: list = []
        for s in specs:
            kind = s[0]
            if kind == "u":
                out.append(mk_unsigned(self._filler(int(s[1]) - 1)))
                self.last_u = out[-1]
            elif kind == "same_again":
                out.append(getattr(self, "last_u", None) or mk_unsigned(self._filler(20)))
            elif kind == "s":
                signer = self.advs[int(s[1]) % 2]
                ver = self._version(int(s[1]) % 2, scope, key, s[2])
                out.append(mk_signed(signer.key, self._filler(int(s[3])), ver))
            elif kind in ("forged", "foreign", "flip", "rollback", "latest"):
                victim = self.honest[int(s[1]) % len(self.honest)]
                pk = victim.my_peer.public_key.key_to_bin()
                known = self.genuine.get(pk, {})
                if kind == "forged":
                    ver = (max(known) + 1000 if known else 2_000_000_000) if (len(s) > 2 and s[2] == "hi") else 1
                    out.append(signed_body(self._filler(6), ver, pk) + self.rng.randbytes(64))
                elif kind == "foreign":
                    ver = max(known) + 500 if known else 2_000_000_001
                    out.append(mk_signed(self.advs[0].key, self._filler(6), ver, pk))
                elif not known:
                    out.append(signed_body(self._filler(6), 7, pk) + self.rng.randbytes(64))
                elif kind == "flip":
                    g = bytearray(known[max(known)])
                    g[3] ^= 0x01
                    out.append(bytes(g))
                elif kind == "rollback":
                    out.append(known[min(known)])
                else:
                    out.append(known[max(known)])
            elif kind == "big_u":
                out.append(mk_unsigned(self._filler(self.rng.choice([170, 171, 200, 400, 1000]))))
            elif kind == "big_s":
                ver = self._version(int(s[1]) % 2, scope, key, "new")
                out.append(mk_signed(self.advs[int(s[1]) % 2].key, self._filler(self.rng.choice([24, 30, 100])), ver))
            elif kind == "many":
                out.extend(mk_unsigned(self._filler(8)) for _ in range(int(s[1])))
            elif kind == "junk":
                out.append(bytes([self.rng.choice([2, 3, 255])]) + self.rng.randbytes(self.rng.randrange(0, 20)))
            elif kind == "trunc":
                ver = self._version(int(s[1]) % 2, scope, key, "new")
                full = mk_signed(self.advs[int(s[1]) % 2].key, self._filler(5), ver)
                out.append(full[:len(full) - self.rng.choice([1, 10, 64, 70, 100])])
            elif kind == "empty":
                out.append(b"")
        return out

    # ------------------------------------------------------------------ find oracle
    def check_find_cache(self, cname, ov, offers: list) -> None:  # noqa: ANN001
        """Values that appeared in the client's own Storage while its lookup ran (find results are cached locally)."""
        cur = self.snap(ov)
        last = self.last.get(cname) or {}
        for k, (_ver, data, _ma, _lu) in sorted(cur.items()):
            if k in last:
                continue
            src = sorted({(o["from"], _hx(o["key"][-8:])) for o in offers if data in o["values"]})
            if not src:
                continue
            self.c.probe("find_result_cached_locally")
            if len(data) > self.limits[0]:
                self.c.violate("size_limit", "oversized_value_stored:find_result_cached_locally",
                               f"{cname} ran find_values({_hx(k[1])}); a find-response from {src[0][0]} (key ..{src[0][1]}) "
                               f"offered a {len(data)}-byte value (limit {self.limits[0]}); after the lookup the client's own "
                               f"Storage holds it under that key (no token, no size check on the caching path of _find -> "
                               f"store_on_nodes -> add_value) and serves it to later find-requests")

    def check_find(self, cname, key: bytes, res, offers: list) -> None:  # noqa: ANN001, C901
        c = self.c
        seen_all: list = []
        seen_acc: list = []
        forged_offered = False
        for o in offers:
            for raw in o["values"]:
                pv = parse_value(raw)
                if pv is None or pv["t"] != 1:
                    continue
                if not pv["valid"]:
                    forged_offered = True
                    continue
                seen_all.append(pv)
                if o["accepted"] and o["target"] == (key, False):
                    seen_acc.append(pv)
        best: dict = {}
        vers: dict = {}
        for pv in seen_acc:
            best[pv["pk"]] = max(best.get(pv["pk"], -1), pv["version"])
            vers.setdefault(pv["pk"], set()).add(pv["version"])
        reported = set()
        ok = True
        for item in res:
            try:
                data, pk = item
            except (TypeError, ValueError):
                continue
            if pk is None:
                continue
            reported.add(pk)
            cands = [pv for pv in seen_all if pv["pk"] == pk and pv["data"] == data]
            if not cands:
                ok = False
                c.violate("authentic_read", "find_returned_unverifiable_signature",
                          f"find_values({_hx(key)}) at {cname} reported data {bytes(data)[:16]!r} as signed by ..{_hx(pk[-8:])} "
                          f"but no value delivered to the client during the lookup carries that data with a valid "
                          f"signature of that key ({len(offers)} responses, forged values offered: {forged_offered})")
                continue
            top = best.get(pk)
            if top is not None and max(pv["version"] for pv in cands) < top:
                ok = False
                c.violate("highest_version", "find_did_not_return_highest_version",
                          f"find_values({_hx(key)}) at {cname} reported version "
                          f"{max(pv['version'] for pv in cands)} of signer ..{_hx(pk[-8:])} although it was offered "
                          f"versions {sorted(vers[pk])}")
        for pk in sorted(best):
            if pk not in reported:
                ok = False
                c.violate("highest_version", "find_did_not_return_highest_version",
                          f"find_values({_hx(key)}) at {cname} did not report signer ..{_hx(pk[-8:])} although valid values "
                          f"of versions {sorted(vers[pk])} were in the responses it accepted")
        if best:
            c.probe("find_checked_signed")
        if any(len(v) > 1 for v in vers.values()):
            c.probe("find_offered_older_and_newer")
        if forged_offered and ok:
            c.probe("find_forged_offered_and_filtered")
            c.probe("forged_signature_filtered")
        c.nontrivial(f"find/{len(best)}/{forged_offered}/{any(len(v) > 1 for v in vers.values())}")
        self.world.trace.event("c15_find", cname, len(res), (len(best), forged_offered))


def _guarded(fn):  # noqa: ANN001, ANN202
    """Hooks run inside ipv8's receive path, which swallows exceptions: keep the first one and fail the case with it."""
    def wrapper(self, *a, **k):  # noqa: ANN001, ANN002, ANN003, ANN202
        try:
            return fn(self, *a, **k)
        except Exception:  # noqa: BLE001
            import traceback
            if not self.errors:
                self.errors.append(traceback.format_exc()[-2000:])
            return None
    wrapper.__name__ = fn.__name__
    return wrapper


for _n in ("on_rotation", "before_maintenance", "after_maintenance", "enter_find", "note_find_response", "pre_request",
           "post_request", "on_send"):
    setattr(Harness, _n, _guarded(getattr(Harness, _n)))


def make_classes(hs: Harness):  # noqa: ANN201
    from ipv8.dht.discovery import DHTDiscoveryCommunity as Base
    from ipv8.dht.payload import FindRequestPayload, FindResponsePayload

    class HonestDHT(Base):
        def token_maintenance(self) -> None:
            Base.token_maintenance(self)
            hs.on_rotation(self)

        def value_maintenance(self) -> None:
            hs.before_maintenance(self)
            Base.value_maintenance(self)
            hs.after_maintenance(self)

        def on_store_request(self, source_address, data):  # noqa: ANN001, ANN202
            rec = hs.pre_request(self, source_address, data, "store")
            try:
                return Base.on_store_request(self, source_address, data)
            finally:
                hs.post_request(self, rec)

        def on_store_peer_request(self, source_address, data):  # noqa: ANN001, ANN202
            rec = hs.pre_request(self, source_address, data, "store_peer")
            try:
                return Base.on_store_peer_request(self, source_address, data)
            finally:
                hs.post_request(self, rec)

        def on_find_request(self, source_address, data):  # noqa: ANN001, ANN202
            hs.enter_find(self, source_address, data)
            try:
                return Base.on_find_request(self, source_address, data)
            finally:
                hs.cur_find = None

        def on_find_response(self, source_address, data):  # noqa: ANN001, ANN202
            hs.note_find_response(self, source_address, data)
            return Base.on_find_response(self, source_address, data)

    class AdvDHT(Base):
        """Adversary identity: a regular member of the DHT that answers find-requests for armed keys with crafted values."""

        def token_maintenance(self) -> None:
            Base.token_maintenance(self)

        def on_find_request(self, source_address, data):  # noqa: ANN001, ANN202
            try:
                (kl,) = struct.unpack_from(">H", data, 23)
                payload, _ = self.serializer.unpack_serializable(FindRequestPayload, data, offset=25 + kl)
                specs = hs.evil.get(bytes(payload.target))
            except Exception:  # noqa: BLE001
                specs = None
            if specs and not payload.force_nodes:
                values = hs.build_values(specs, "evil", bytes(payload.target))[:12]
                hs.c.probe("evil_find_response_sent")
                self._ez_senda(source_address, FindResponsePayload(payload.identifier, b"\x5a" * 20, values, []))
                return None
            return Base.on_find_request(self, source_address, data)

    return HonestDHT, AdvDHT


async def _run_net(c: Case, case: dict) -> dict:  # noqa: C901, PLR0912, PLR0915
    from ipv8.dht import DHTError
    from ipv8.dht.community import MAX_ENTRY_SIZE, MAX_VALUES_IN_STORE
    from ipv8.dht.payload import StorePeerRequestPayload, StoreRequestPayload
    from ipv8.dht.routing import Node

    world, net = c.world, c.net
    hs = Harness(c, case)
    hs.limits = (MAX_ENTRY_SIZE, MAX_VALUES_IN_STORE)
    honest_cls, adv_cls = make_classes(hs)
    knobs = case.get("knobs") or {}
    # the bootstrap (introductions) is not the object of study: it runs without loss, the knobs apply afterwards
    saved = (net.loss, net.dup, net.tail_p)
    net.loss = net.dup = net.tail_p = 0.0
    n = int(case.get("n", 8))
    for i in range(n):
        node = SimNode(world, f"n{i}", f"1.0.{1 + i // 200}.{1 + i % 200}")
        await node.open()
        hs.names[node.name] = node
        node.ov = node.add(honest_cls)
        hs.honest.append(node)
    for j in range(2):
        node = SimNode(world, f"adv{j}", f"6.6.{j + 1}.66")
        await node.open()
        node.ov = node.add(adv_cls)
        if j == 1:
            # identity 1 never announces itself through the regular timer: whether a node holds it in ``store`` is
            # decided by the scripted store-peer requests alone
            node.call(node.ov.cancel_pending_task, "store_peer")
        hs.advs.append(node)
    hs.prefix = hs.honest[0].ov.get_prefix()
    hs.ser = hs.honest[0].ov.serializer
    hs.in_timer = True
    net.on_send.append(hs.on_send)
    everyone = hs.honest + hs.advs
    for _ in range(2):
        for a in everyone:
            for b in everyone:
                if a is not b:
                    a.call(a.ov.walk_to, b.address)
        await asyncio.sleep(0.5)
    net.loss, net.dup, net.tail_p = saved
    del knobs
    skew: dict = {}
    unused_addr = ("9.9.9.9", 9999)

    def src_addr(spec: str, ai: int) -> tuple:
        if spec == "own":
            return hs.advs[ai].address
        if spec == "peer":
            return hs.advs[1 - ai].address
        if spec == "unused":
            return unused_addr
        if spec == "own_port":
            # same machine, another port: the DHT node id ignores the port, the token must not
            a = hs.advs[ai].address
            return (a[0], a[1] + 1000)
        if spec == "own_alias":
            # an address that differs only in bits the node-id computation masks out (ip & 0x030f3fff)
            a = hs.advs[ai].address
            o = [int(x) for x in a[0].split(".")]
            o[0] ^= 0x40
            return (".".join(map(str, o)), a[1])
        if spec.startswith("client:"):
            return hs.honest[int(spec[7:]) % n].address
        return hs.advs[ai].address

    async def get_token(ai: int, hi: int) -> bytes | None:
        adv = hs.advs[ai]
        h = hs.honest[hi % n]
        node = Node(h.my_peer.public_key.key_to_bin(), h.address)
        try:
            res = await adv.acall(adv.ov._send_find_request, node, hs.rng.randbytes(20), True)  # noqa: SLF001
        except Exception:  # noqa: BLE001
            res = None
        if res is None:
            c.probe("adv_token_request_unanswered")
            return None
        ent = adv.ov.tokens.get(node.id)
        if ent is None:
            return None
        lst = hs.book.setdefault((ai, hi % n), [])
        if not lst or lst[-1] != ent[1]:
            lst.append(ent[1])
        return ent[1]

    async def resolve_token(ai: int, hi: int, kind: str) -> bytes:
        hi %= n
        if kind == "fresh":
            t = await get_token(ai, hi)
            if t is not None:
                return t
            kind = "newest"
        if kind in ("newest", "oldest"):
            lst = hs.book.get((ai, hi))
            if lst:
                return lst[-1] if kind == "newest" else lst[0]
        elif kind == "other_node":
            for d in range(1, n):
                lst = hs.book.get((ai, (hi + d) % n))
                if lst:
                    return lst[-1]
            t = await get_token(ai, (hi + 1) % n)
            if t is not None:
                return t
        elif kind == "other_id":
            lst = hs.book.get((1 - ai, hi))
            if lst:
                return lst[-1]
            t = await get_token(1 - ai, hi)
            if t is not None:
                return t
        elif kind.startswith("sniff:"):
            cl = hs.honest[int(kind[6:]) % n]
            ck, ca = cl.my_peer.public_key.key_to_bin(), _addr(cl.address)
            bestt = None
            for tok, recs in hs.issued.get(hs.honest[hi].name, {}).items():
                for r in recs:
                    if r[0] == ca and r[1] == ck and (bestt is None or r[2] >= bestt[0]):
                        bestt = (r[2], tok)
            if bestt is not None:
                return bestt[1]
        return hs.rng.randbytes(20)

    def put_on_wire(src: tuple, h: SimNode, data: bytes, intent: str) -> None:
        hs.intents[(hashlib.sha1(data).digest(), _addr(src))] = intent  # noqa: S324
        net.inject(src, h.address, data, label=data[22] if len(data) > 22 else "inject", faults=True)

    def checkpoint(ctx: str) -> None:
        for h in hs.honest:
            with world.as_node(h.name):
                hs.observe(h.name, h.ov, ctx)

    hs.in_timer = True
    for idx, op in enumerate(case["ops"]):
        kind = op[0]
        world.trace.event("op", None, kind, idx)
        try:
            if kind == "sleep":
                await asyncio.sleep(float(op[1]))
            elif kind == "store":
                cl = hs.honest[int(op[1]) % n]
                key = hs.key_of(op[2])
                hs.counter += 1
                data = f"h{hs.counter}".encode()
                with world.as_node(cl.name):
                    hs.observe(cl.name, cl.ov, "checkpoint")
                try:
                    got = await cl.acall(cl.ov.store_value, key, data, bool(op[3]))
                    c.probe("honest_store_ok" if got else "honest_store_empty")
                except DHTError:
                    c.probe("honest_store_dhterror")
                with world.as_node(cl.name):
                    hs.observe(cl.name, cl.ov, "store_value")
            elif kind == "find":
                cl = hs.honest[int(op[1]) % n]
                key = hs.key_of(op[2])
                with world.as_node(cl.name):
                    hs.observe(cl.name, cl.ov, "checkpoint")
                offers: list = []
                hs.recording[cl.name] = offers
                try:
                    res = await cl.acall(cl.ov.find_values, key)
                except DHTError:
                    c.probe("find_dhterror")
                    res = None
                except Exception as e:  # noqa: BLE001
                    c.probe("find_raised:" + type(e).__name__)
                    res = None
                finally:
                    hs.recording.pop(cl.name, None)
                if res is not None:
                    hs.check_find(cl.name, key, res, offers)
                hs.check_find_cache(cl.name, cl.ov, offers)
                with world.as_node(cl.name):
                    hs.observe(cl.name, cl.ov, "find")
            elif kind == "tok":
                await get_token(int(op[1]) % 2, int(op[2]) % n)
            elif kind == "astore":
                a = op[1]
                ai = int(a["as"]) % 2
                h = hs.honest[int(a["h"]) % n]
                key = hs.key_of(a["key"])
                token = await resolve_token(ai, int(a["h"]), a["tok"])
                values = hs.build_values(a["vals"], h.name, key)
                adv = hs.advs[ai]
                hs.counter += 1
                pkt = adv.call(adv.ov.ezr_pack, MSG_STORE,
                               StoreRequestPayload(hs.counter & 0xffffffff, token, key, values))
                put_on_wire(src_addr(a["src"], ai), h, pkt, f"astore:{a['tok'].split(':')[0]}:{a['src'].split(':')[0]}")
                c.probe("adv_store_requests")
            elif kind == "apeer":
                a = op[1]
                ai = int(a["as"]) % 2
                h = hs.honest[int(a["h"]) % n]
                adv = hs.advs[ai]
                token = await resolve_token(ai, int(a["h"]), a["tok"])
                t = a["target"]
                if t == "own":
                    target = adv.my_peer.mid
                elif t.startswith("client:"):
                    target = hs.honest[int(t[7:]) % n].my_peer.mid
                else:
                    target = hs.rng.randbytes(20)
                hs.counter += 1
                pkt = adv.call(adv.ov.ezr_pack, MSG_STORE_PEER,
                               StorePeerRequestPayload(hs.counter & 0xffffffff, token, target))
                put_on_wire(src_addr(a["src"], ai), h, pkt, f"apeer:{a['tok'].split(':')[0]}:{a['src'].split(':')[0]}")
                c.probe("adv_store_peer_requests")
            elif kind == "replay":
                h = hs.honest[int(op[1]) % n]
                lst = hs.sniffed.get(h.name)
                if lst:
                    osrc, dgram = lst[hs.rng.randrange(len(lst))]
                    src = osrc if op[2] == "orig" else src_addr(op[2], 0)
                    put_on_wire(src, h, dgram, "replay_same_src" if _addr(src) == osrc else "replay_other_src")
                    c.probe("adv_replays")
            elif kind == "evil":
                key = hs.key_of(op[1])
                if op[2]:
                    hs.evil[key] = op[2]
                else:
                    hs.evil.pop(key, None)
            elif kind == "fillrt":
                from ipv8.dht.routing import Node, calc_node_id
                from ipv8.keyvault.crypto import default_eccrypto
                from ipv8.messaging.interfaces.udp.endpoint import UDPv4Address
                h = hs.honest[int(op[1]) % n]
                key = hs.key_of(op[2])
                rt = h.ov.routing_tables[UDPv4Address]
                added = 0
                for i in range(int(op[3])):
                    fk = h.call(default_eccrypto.generate_key, "curve25519").pub()
                    node = None
                    for _try in range(3000):
                        addr = UDPv4Address(f"{hs.rng.randrange(11, 200)}.{hs.rng.randrange(256)}.{hs.rng.randrange(256)}.{hs.rng.randrange(1, 255)}",
                                            8000 + i)
                        cand = Node(fk, addr)
                        if calc_node_id(addr, cand.mid)[0] == key[0]:
                            node = cand
                            break
                    if node is not None and rt.add(node) is not None:
                        added += 1
                if added:
                    c.probe("routing_table_learnt_closer_nodes", added)
            elif kind in ("rotate", "maintain"):
                who = hs.honest if int(op[1]) < 0 else [hs.honest[int(op[1]) % n]]
                hs.in_timer = False
                try:
                    for h in who:
                        h.call(h.ov.token_maintenance if kind == "rotate" else h.ov.value_maintenance)
                finally:
                    hs.in_timer = True
            elif kind == "clock":
                who = hs.honest if int(op[1]) < 0 else [hs.honest[int(op[1]) % n]]
                for h in who:
                    skew[h.name] = skew.get(h.name, 0.0) + float(op[2])
                    world.set_skew(h.name, skew[h.name])
                c.probe("clock_advances")
            elif kind == "speer":
                cl = hs.honest[int(op[1]) % n]
                await cl.acall(cl.ov.store_peer)
        except asyncio.CancelledError:
            raise
        checkpoint("checkpoint")
    await asyncio.sleep(1.0)
    checkpoint("checkpoint")
    net.on_send.remove(hs.on_send)
    if hs.errors:
        msg = "exception inside a harness hook:\n" + hs.errors[0]
        raise RuntimeError(msg)
    return {"stats": dict(sorted(hs.stats.items())), "rotations": dict(sorted(hs.rot.items()))}


def _exec_net(c: Case, case: dict) -> None:
    out = c.world.run(_run_net(c, case))
    c.world.trace.event("c15", None, sorted(out["stats"].items()))
    c.sample = {"kind": "net", "n": case.get("n"), "mode": case.get("mode", "directed"), "knobs": case.get("knobs"),
                "ops": len(case["ops"]), "requests_by_model_verdict": out["stats"],
                "rotations_per_node": max(out["rotations"].values()) if out["rotations"] else 0,
                "first_ops": case["ops"][:6]}


# ================================================================================================ storage histories
def _exec_storage(c: Case, case: dict) -> None:  # noqa: C901
    from ipv8.dht.storage import Storage
    import time
    st = Storage()
    keys = [hashlib.sha1(bytes([i])).digest() for i in range(3)]  # noqa: S324
    ids = {"a": b"\xaa" * 20, "b": b"\xbb" * 20, "c": b"\xcc" * 20}
    hist: list = []

    def snap() -> dict:
        return {(k, v.id): (v.version, v.data, v.max_age, v.last_update) for k, lst in st.items.items() for v in lst}

    for op in case["ops"]:
        kind = op[0]
        if kind == "put":
            key = keys[op[1] % 3]
            ident = None if op[2] is None else (key if op[2] == "key" else ids[op[2]])
            data = b"d%d" % op[3]
            before = snap()
            st.put(key, data, id_=ident, version=int(op[4]), max_age=float(op[5]))
            after = snap()
            hist.append(f"put(k{op[1] % 3},id={op[2]},v={op[4]},max_age={op[5]})")
            for k, (ver, _d, _m, _l) in after.items():
                if k in before and ver < before[k][0]:
                    c.violate("version_monotonic", "stored_version_decreased",
                              f"Storage.put replaced version {before[k][0]} by {ver}; history: {' '.join(hist[-8:])}")
            eid = ident or hashlib.sha1(data).digest()  # noqa: S324
            if (key, eid) in before and int(op[4]) < before[(key, eid)][0] and after.get((key, eid)) == before[(key, eid)]:
                c.probe("storage_put_older_ignored")
        elif kind == "tick":
            c.world.run(asyncio.sleep(float(op[1])))
            hist.append(f"tick({op[1]})")
        elif kind == "clean":
            n0 = sum(len(v) for v in st.items.values())
            st.clean()
            hist.append("clean()")
            now = time.time()
            for k, lst in st.items.items():
                bad = [i for i, v in enumerate(lst) if now - v.last_update > v.max_age]
                if bad:
                    shape = [("id==key" if v.id == k else _hx(v.id, 4), round(now - v.last_update, 1), v.max_age) for v in lst]
                    c.violate("lifetime", "expired_value_survives_maintenance",
                              f"Storage.clean() left expired value(s) at index {bad} of (id, age, max_age) list {shape}; "
                              f"history: {' '.join(hist[-10:])}")
            if sum(len(v) for v in st.items.values()) < n0:
                c.probe("storage_clean_removed_expired")
        elif kind == "get":
            key = keys[op[1] % 3]
            st.get(key, starting_point=int(op[2]), limit=op[3])      # exercised only (must not disturb the history)
    shape = sorted((len(lst), sum(1 for v in lst if v.id == k), len({v.max_age for v in lst})) for k, lst in st.items.items())
    c.nontrivial(f"storage/{shape}")
    c.world.trace.event("c15_storage", None, len(case["ops"]), shape)
    c.sample = {"kind": "storage", "ops": case["ops"][:8], "final_shape(n, id==key, distinct max_age)": shape}


def execute(case: dict) -> dict:
    c = Case(case, net=True, first_only=False)
    if case.get("kind") == "storage":
        _exec_storage(c, case)
    else:
        _exec_net(c, case)
    return c.result()
