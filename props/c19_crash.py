"""
C19 - stored identity data survives a crash at any point.

A workload (list of explicit operations) is run against the real, file-backed ``IdentityManager`` /
``IdentityDatabase`` and the wallet ``AttestationsDB`` on real SQLite files in a temporary directory.  Every
insert-type call is wrapped *on the instance* so that an ack log records (a) the full row that is offered, before the
call, and (b) the fact that the call returned.

Crash points (quick tier, in-process): ``ipv8.database.sqlite3`` is replaced by a proxy whose ``connect`` returns a
``sqlite3.Connection`` subclass with a trace callback.  A crash point is taken before every SQL statement (including
every statement inside ``executescript`` and the implicit BEGIN/COMMIT), after every ``commit()``, after every
``close()``, after every insert call and at the end of the workload.  The crash itself is the copy of every file of
the database directory (db, -wal, -shm, -journal) at that instant: what the page cache holds when the process is
SIGKILLed there.  The copy is then opened by fresh ``IdentityManager`` / ``AttestationsDB`` objects ("the next
process") and the oracle of the property statement is applied.  While a copy is reopened, the crash points of that
*open* are enumerated again (second crash during recovery) and those copies are reopened as well.

Thorough tier additionally kills real processes: the same workload runs in a child interpreter under
``strace -e inject=<syscall>:signal=KILL:when=N`` for every N (pwrite64 / write / ftruncate / fsync / fdatasync /
unlink), the child's fsync'ed ack log is the ground truth; and a child that SIGKILLs itself inside the trace callback
validates the copy model (the reopened real files must show exactly what the reopened copy shows).

This file is also the child program (``python c19_crash.py --child SPEC.json``); the child never imports simkit.
"""
from __future__ import annotations

import hashlib
import json
import os
import random
import re
import shutil
import signal
import sqlite3 as _real_sqlite3
import subprocess
import sys
import tempfile

PROPERTY = "C19"
LEVEL = "fault_enumeration"
BUDGET = {"quick": 25, "thorough": 420}
CHUNK = 2
ENUMERATED = {"quick": True, "thorough": True}
CASE_WALL = {"quick": 60, "thorough": 300}
RULE = ("case = explicit op list (cred / attest / recred / blob / reopen / read, and batch = inserts inside a `with database:` "
        "block that ends normally, by an application error handled by the caller, or by IgnoreCommits; inserts inside a block "
        "count as returned only once the block was left normally; on up to 2 pseudonyms, 2 authorities, "
        "1 wallet db; sizes from 0 to 40 kB so rows spill to overflow pages) + a selection of crash points. Crash point = "
        "before every SQL statement seen by sqlite's trace hook (every statement of the schema script that runs on every "
        "open, implicit BEGIN/COMMIT), after every commit(), after every close(), after every insert call, end of "
        "workload; for each of them additionally every crash point of the recovering open itself. The scripted "
        "workloads enumerate ALL their crash points and all second-crash points (split over several cases by index "
        "modulo); the seeded workloads (finite list) enumerate all first crash points and the second-crash points of "
        "every 5th. thorough adds one real SIGKILL per case: strace kill before the N-th pwrite64/write/ftruncate/"
        "fsync/fdatasync/unlink for every N of 3 scripted workloads, and self-kill children at every statement-level "
        "crash point of 2 scripted workloads (copy model vs real death). evaluations = reopened crash states. "
        "Non-trivial/distinct = distinct (normalised statement at the crash point, op kind, op index, #acked records); "
        "for second crashes (first tag, second tag).")
COMPONENTS = {"real": ["SQLite 3 on real temporary files (WAL, synchronous=NORMAL, as configured by ipv8.database; the "
                       "scratch directory is a tempfile.mkdtemp() on /dev/shm when that exists, else the default tmp dir)",
                       "ipv8.database.Database", "ipv8.attestation.identity.database.IdentityDatabase",
                       "ipv8.attestation.identity.manager.IdentityManager / PseudonymManager", "TokenTree / Token / Metadata "
                       "/ Attestation signing and verification", "ipv8.attestation.wallet.database.AttestationsDB",
                       "thorough: a real child process killed by a real SIGKILL (strace syscall injection / self-kill)"],
              "stub": ["quick tier: process death is modelled by copying db/-wal/-shm/-journal at the crash point "
                       "(thorough: validated against self-killing children, which must leave exactly the same visible rows)",
                       "wallet attestation object / secret key are byte-string stand-ins (only serialisation is used "
                       "by the database layer)", "time.time() is a constant epoch; keys come from the seeded key seam"]}
ASSUMPTIONS = ["process death only (SIGKILL / crash): everything written with write() reaches the file; power loss, "
               "lost or torn page-cache writes and fsync lies are out of scope",
               "a single process uses the database files (no concurrent second opener while the first is alive)",
               "in-process crash points are at SQL-statement / commit granularity; finer (system call) granularity only in "
               "the thorough strace tier; a write() torn by the signal in the middle of one system call is not modelled",
               "the SQLite library itself (WAL recovery, checksums) is trusted to be deterministic for identical call "
               "sequences; its random WAL salts are not part of any digest"]
REACH = ["crash_points", "crash_inside_schema_script", "crash_between_insert_and_commit", "crash_after_ack",
         "crash_after_commit", "crash_after_close", "wal_present_at_crash", "shm_present_at_crash", "reopen_cycles",
         "second_crash_during_recovery", "inflight_record_visible", "inflight_record_absent", "overflow_row",
         "batch_committed", "batch_left_by_error", "batch_left_by_ignorecommits", "stored_token_offered_again_without_content",
         "crash_before_first_page_written", "stored_attestation_delivered_again", "commit_failed_disk_full", "insert_raised_after_failed_commit"]
SHRINK_FIELDS = ("ops",)

ROOT = os.path.dirname(os.path.dirname(os.path.abspath(__file__)))
WALLET_NAME = "attestations"
ID_FILE = "identity.db"
N_PSEUDONYMS = 2
N_AUTHORITIES = 2
KILL_CALLS = ("pwrite64", "write", "ftruncate", "fsync", "fdatasync", "unlink")
N_SEEDED = {"quick": 60, "thorough": 2000}


class HarnessProblem(Exception):
    """The harness (not the code under test) misbehaved."""


class _BatchAbort(Exception):
    """The application error that ends a ``with database:`` block in a "batch" op with end == "error"."""


# =========================================================================== crash-point recorder + sqlite3 proxy
class _State:
    recorder = None          # consulted by the proxy at connect() time
    commit_fail_at = None    # fault: the N-th commit() of the workload fails like a full disk (SQLite rolls the transaction back)
    commits = 0
    commit_failures = 0
    in_insert = False        # (only commits made by the insert calls of the workload are failed, not those of opening a database)


class _Recorder:
    """Numbers the crash points of whatever runs while it is the active recorder; copies ``src`` for the selected ones."""

    def __init__(self, src: str | None, root: str | None, prefix: str, select) -> None:  # noqa: ANN001
        self.src = src
        self.root = root
        self.prefix = prefix
        self.select = select
        self.n = 0
        self.points: list[dict] = []
        self.enabled = True
        self.error: BaseException | None = None
        self.kill_at: int | None = None
        self.ctx = dict
        self.last: dict[str, str] = {}     # database kind -> tag of its most recent crash point

    def point(self, tag: str, kind: str) -> None:
        if not self.enabled:
            return
        idx = self.n
        self.n += 1
        if self.kill_at is not None:
            if idx == self.kill_at:
                os.kill(os.getpid(), signal.SIGKILL)
            return
        self.last[kind] = tag
        if not self.select(idx):
            return
        dst = os.path.join(self.root, f"{self.prefix}{idx}")
        _copy_dir(self.src, os.path.join(dst, "sqlite"))
        p = {"idx": idx, "tag": tag, "kind": kind, "dir": dst, "last": dict(self.last)}
        p.update(self.ctx())
        self.points.append(p)

    def guarded(self, tag: str, kind: str) -> None:
        """Entry for sqlite callbacks: the sqlite3 module swallows exceptions raised inside them."""
        try:
            self.point(tag, kind)
        except BaseException as e:  # noqa: BLE001
            if self.error is None:
                self.error = e
            self.enabled = False

    def check(self) -> None:
        if self.error is not None:
            e, self.error = self.error, None
            raise e


def _scratch_base() -> str | None:
    """tmpfs if there is one (fsync of the many reopen/close cycles is free there; file semantics are the same)."""
    shm = "/dev/shm"  # noqa: S108
    if os.environ.get("C19_TMP"):
        return os.environ["C19_TMP"]
    return shm if os.path.isdir(shm) and os.access(shm, os.W_OK | os.X_OK) else None


def _copy_dir(src: str, dst: str) -> None:
    os.makedirs(dst)
    if not os.path.isdir(src):
        return
    for name in sorted(os.listdir(src)):
        s = os.path.join(src, name)
        if os.path.isfile(s):
            with open(s, "rb") as fi, open(os.path.join(dst, name), "wb") as fo:
                shutil.copyfileobj(fi, fo, 1 << 20)


_WS = re.compile(r"\s+")
_PATS = [(re.compile(p, re.IGNORECASE), g) for p, g in (
    (r"^(INSERT(?: OR \w+)? INTO \w+)", 1), (r"^(DELETE FROM \w+)", 1), (r"^(CREATE \w+(?: IF NOT EXISTS)? \w+)", 1),
    (r"^(UPDATE \w+)", 1), (r"^(ALTER TABLE \w+)", 1), (r"^(PRAGMA \w+(?: ?= ?\w+)?)", 1), (r"^(SELECT) .*?(FROM \w+)", 2),
    (r"^(\w+)", 1))]


def _norm(sql: str) -> str:
    """Normalised statement prefix, e.g. ``INSERT INTO option`` / ``CREATE TABLE IF NOT EXISTS Tokens`` / ``COMMIT``."""
    s = _WS.sub(" ", sql).strip()
    for pat, groups in _PATS:
        m = pat.match(s)
        if m:
            return " ".join(m.group(i + 1) for i in range(groups))
    return s[:24]


def _kind_of(path: object) -> str:
    base = os.path.basename(str(path))
    if base == ID_FILE:
        return "identity"
    if base == WALLET_NAME + ".db":
        return "wallet"
    return base


class _TracedConnection(_real_sqlite3.Connection):
    _c19 = None

    def commit(self) -> None:
        if self._c19 is not None and _State.commit_fail_at is not None and _State.in_insert:
            _State.commits += 1
            if _State.commits == _State.commit_fail_at:
                # ENOSPC / EFBIG / EIO while the transaction is written out: COMMIT fails and SQLite rolls the transaction back
                _State.commit_failures += 1
                super().rollback()
                raise _real_sqlite3.OperationalError("database or disk is full")
        super().commit()
        if self._c19 is not None:
            self._c19[0].guarded("after_commit", self._c19[1])

    def close(self) -> None:
        super().close()
        if self._c19 is not None:
            self._c19[0].guarded("after_close", self._c19[1])


class _SqliteProxy:
    """Stands in for the name ``sqlite3`` inside ipv8.database only (the global module is left alone)."""

    def __init__(self, real) -> None:  # noqa: ANN001
        self._real = real

    def __getattr__(self, name: str):  # noqa: ANN204
        return getattr(self._real, name)

    def connect(self, database, *a, **kw):  # noqa: ANN001, ANN002, ANN003, ANN201
        rec = _State.recorder
        if rec is None or not rec.enabled:
            return self._real.connect(database, *a, **kw)
        kind = _kind_of(database)
        kw.setdefault("factory", _TracedConnection)
        conn = self._real.connect(database, *a, **kw)
        conn._c19 = (rec, kind)  # noqa: SLF001
        conn.set_trace_callback(lambda sql, rec=rec, kind=kind: rec.guarded("before:" + _norm(sql), kind))
        return conn


class _Installed:
    """Context manager: proxy in place, fresh lock table (no state of an earlier 'process')."""

    def __enter__(self) -> None:
        import ipv8.database as dbmod
        self.dbmod = dbmod
        self.prev = dbmod.sqlite3
        real = self.prev._real if isinstance(self.prev, _SqliteProxy) else self.prev  # noqa: SLF001
        dbmod.sqlite3 = _SqliteProxy(real)
        self.real = real

    def __exit__(self, *a: object) -> None:
        self.dbmod.sqlite3 = self.real
        _State.recorder = None


def _fresh_process_state() -> None:
    import ipv8.database as dbmod
    locks = getattr(dbmod, "db_locks", None)
    if locks is not None:
        locks.clear()


# =========================================================================== workload
class _StubAttestation:
    def __init__(self, blob: bytes) -> None:
        self.blob = blob

    def serialize_private(self, pk) -> bytes:  # noqa: ANN001
        return self.blob


class _StubSecretKey:
    def __init__(self, raw: bytes) -> None:
        self.raw = raw

    def public_key(self) -> None:
        return None

    def serialize(self) -> bytes:
        return self.raw


def _bytes(label: str, n: int) -> bytes:
    out = b""
    i = 0
    while len(out) < n:
        out += hashlib.sha256(f"{label}/{i}".encode()).digest()
        i += 1
    return out[:n]


def _flat(ops: list) -> list:
    out = []
    for o in ops:
        out.append(o)
        if o.get("op") == "batch":
            out.extend(o.get("inner", []))
    return out


def _uses(ops: list) -> tuple[bool, bool]:
    ops = _flat(ops)
    ops = ops + [{"op": "read", "db": o.get("db")} for o in ops if o.get("op") == "batch"]
    uid = any(o.get("op") in ("cred", "attest", "recred", "retoken") or (o.get("op") in ("reopen", "read") and o.get("db") == "id")
              for o in ops)
    uw = any(o.get("op") in ("blob", "reblob") or (o.get("op") in ("reopen", "read") and o.get("db") == "wallet") for o in ops)
    return uid, uw


class _Runner:
    """Executes ops through the public API of the code under test; keeps the ack log."""

    def __init__(self, workdir: str, keys: list) -> None:
        self.dir = workdir
        self.keys = keys
        self.mgr = None
        self.wallet = None
        self.ps: dict = {}
        self.creds: dict = {}
        self.attested: set = set()
        self.blobs: set = set()
        self.records: list = []       # seq -> (kind, table, row)   every row offered so far, in full
        self.acked: list = []         # seqs whose insert call has returned
        self.cur_op = -1
        self.cur_kind = "-"
        self.on_ack = None
        self.reopens = 0
        self.overflow = 0
        self.batch_kind = None        # "identity" | "wallet" while inside a ``with database:`` block of that database
        self.deferred: list = []      # (seq, table, kind) of inserts that returned inside the current block
        self.batches = {"ok": 0, "error": 0, "ignore": 0}

    def context(self) -> dict:
        return {"op": self.cur_op, "opk": self.cur_kind, "na": len(self.acked), "no": len(self.records)}

    # ------------------------------------------------------------ opening / wrapping
    def _wrapped(self, kind: str, table: str, orig, to_row):  # noqa: ANN001, ANN202
        def call(*args):  # noqa: ANN002, ANN202
            row = to_row(*args)
            seq = len(self.records)
            self.records.append((kind, table, row))
            if any(isinstance(v, bytes) and len(v) > 8000 for v in row):
                self.overflow += 1
            _State.in_insert = True
            try:
                orig(*args)
            except _real_sqlite3.OperationalError:
                if _State.commit_fail_at is None:
                    raise
                self.insert_errors = getattr(self, "insert_errors", 0) + 1     # the caller sees the error: not acknowledged
                raise
            finally:
                _State.in_insert = False
            if self.batch_kind == kind:
                # inside ``with database:`` commits are deferred by design: the insert counts as returned-and-durable only
                # once the block has been left normally
                self.deferred.append((seq, table, kind))
                return
            self.acked.append(seq)
            if self.on_ack is not None:
                self.on_ack(seq, table, kind)
        return call

    def open_id(self) -> None:
        from ipv8.attestation.identity.manager import IdentityManager
        self.mgr = IdentityManager(os.path.join(self.dir, "sqlite", ID_FILE))
        db = self.mgr.database
        db.insert_token = self._wrapped(
            "identity", "Tokens", db.insert_token, lambda pk, t: (pk.key_to_bin(), *t.to_database_tuple()))
        db.insert_metadata = self._wrapped(
            "identity", "Metadata", db.insert_metadata, lambda pk, m: (pk.key_to_bin(), *m.to_database_tuple()))
        db.insert_attestation = self._wrapped(
            "identity", "Attestations", db.insert_attestation,
            lambda pk, ak, a: (pk.key_to_bin(), ak.key_to_bin(), *a.to_database_tuple()))
        self.ps = {}

    def open_wallet(self) -> None:
        from ipv8.attestation.wallet.database import AttestationsDB
        self.wallet = AttestationsDB(self.dir, WALLET_NAME)
        self.wallet.insert_attestation = self._wrapped(
            "wallet", WALLET_NAME, self.wallet.insert_attestation,
            lambda att, h, sk, fmt: (h, att.serialize_private(sk.public_key()), sk.serialize(), fmt.encode()))

    def pseudonym(self, p: int):  # noqa: ANN201
        if self.mgr is None:
            self.open_id()
        if p not in self.ps:
            self.ps[p] = self.mgr.get_pseudonym(self.keys[p])
        return self.ps[p]

    def close_all(self) -> None:
        if self.mgr is not None:
            self.mgr.database.close()
            self.mgr = None
        if self.wallet is not None:
            self.wallet.close()
            self.wallet = None

    # ------------------------------------------------------------ ops
    def run_op(self, i: int, op: dict) -> None:  # noqa: C901, PLR0912
        from ipv8.attestation.identity.metadata import Metadata
        self.cur_op = i
        kind = self.cur_kind = op["op"]
        if kind == "cred":
            p = op.get("p", 0) % N_PSEUDONYMS
            cid = op["id"]
            if (p, cid) in self.creds:
                return
            ps = self.pseudonym(p)
            prev = self.creds.get((p, op.get("after")))
            after_md = prev[1] if prev else None
            md_json = {"name": f"attribute-{cid}", "schema": "id_metadata", "date": 1700000000.0 + cid,
                       "pad": "m" * int(op.get("msize", 0))}
            csize = int(op.get("csize", 0))
            if csize:
                preceding = ps.tree.elements.get(after_md.token_pointer) if after_md is not None else None
                token = ps.tree.add(_bytes(f"content/{p}/{cid}", csize), preceding)
                metadata = Metadata.create(token, md_json, self.keys[p])
                if ps.add_credential(token, metadata, set()) is None:
                    self.refused = [*getattr(self, "refused", []), (p, cid, op.get("after"), "add_credential")]
                    return
            else:
                cred = ps.create_credential(hashlib.sha3_256(f"attestation/{p}/{cid}".encode()).digest(), md_json, after_md)
                if cred is None:
                    # the pseudonym's own tree (as rebuilt from the database) refuses a token of its owner that follows a stored one
                    self.refused = [*getattr(self, "refused", []), (p, cid, op.get("after"), "create_credential")]
                    return
                metadata = cred.metadata
                token = ps.tree.elements[metadata.token_pointer]
            self.creds[(p, cid)] = (token, metadata)
        elif kind == "attest":
            p = op.get("p", 0) % N_PSEUDONYMS
            ent = self.creds.get((p, op.get("cred")))
            if ent is None or (p, op["cred"]) in self.attested:
                return      # the table keeps one attestation per metadata: a second one is ignored by design
            self.attested.add((p, op["cred"]))
            ps = self.pseudonym(p)
            auth = self.keys[N_PSEUDONYMS + op.get("auth", 0) % N_AUTHORITIES]
            ps.add_attestation(auth.pub(), ps.create_attestation(ent[1], auth))
        elif kind == "recred":
            p = op.get("p", 0) % N_PSEUDONYMS
            ent = self.creds.get((p, op.get("cred")))
            if ent is None:
                return
            self.pseudonym(p).add_credential(ent[0], ent[1], set())
        elif kind == "blob":
            bid = op["id"]
            if bid in self.blobs:
                return      # plain INSERT with a primary key on hash: a duplicate raises by design
            self.blobs.add(bid)
            if self.wallet is None:
                self.open_wallet()
            self.wallet.insert_attestation(_StubAttestation(_bytes(f"blob/{bid}", int(op.get("size", 100)))),
                                           hashlib.sha1(f"blob/{bid}".encode()).digest(),  # noqa: S324
                                           _StubSecretKey(_bytes(f"sk/{bid}", int(op.get("ksize", 300)))), "id_metadata")
        elif kind == "reblob":
            # an attestation that is already stored is delivered once more (same hash, same bytes) and handed to the database again:
            # the table has a primary key on the hash, so this insert fails (or is a no-op) - the stored record stays.  Called past
            # the recording wrapper: it offers no new record.
            import sqlite3
            bid = op["id"]
            if bid not in self.blobs:
                return
            if self.wallet is None:
                self.open_wallet()
            try:
                type(self.wallet).insert_attestation(
                    self.wallet, _StubAttestation(_bytes(f"blob/{bid}", int(op.get("size", 100)))),
                    hashlib.sha1(f"blob/{bid}".encode()).digest(),  # noqa: S324
                    _StubSecretKey(_bytes(f"sk/{bid}", int(op.get("ksize", 300)))), "id_metadata")
            except sqlite3.IntegrityError:
                pass
            self.reblobs = getattr(self, "reblobs", 0) + 1
        elif kind == "retoken":
            # a token that is already stored (with its content) is seen again in its public, content-less form (as it arrives in
            # somebody's disclosure) and handed to the database once more: INSERT OR IGNORE must leave the stored record alone.
            # Called past the recording wrapper: it offers no new record.
            from ipv8.attestation.tokentree.token import Token
            p = op.get("p", 0) % N_PSEUDONYMS
            ent = self.creds.get((p, op.get("cred")))
            if ent is None:
                return
            ps = self.pseudonym(p)
            bare = Token.unserialize(ent[0].get_plaintext_signed(), ps.public_key)
            db = self.mgr.database
            type(db).insert_token(db, ps.public_key, bare)
            self.retokens = getattr(self, "retokens", 0) + 1
        elif kind == "batch":
            # the library's batching API: ``with database:`` defers the commits of the inserts made inside the block.
            # end "ok": block left normally (one commit); "error": an application error leaves the block and is handled by the
            # caller, who carries on; "ignore": the block is left with IgnoreCommits (no commit now)
            from ipv8.database import IgnoreCommits
            if op.get("db") == "wallet":
                if self.wallet is None:
                    self.open_wallet()
                dbo, bk = self.wallet, "wallet"
            else:
                if self.mgr is None:
                    self.open_id()
                dbo, bk = self.mgr.database, "identity"
            end = op.get("end", "ok")
            self.batch_kind, self.deferred = bk, []
            try:
                with dbo:
                    for inner in op.get("inner", []):
                        if inner.get("op") in ("cred", "attest", "recred", "blob"):
                            self.run_op(i, inner)
                    self.cur_kind = "batch"
                    if end == "error":
                        raise _BatchAbort
                    if end == "ignore":
                        raise IgnoreCommits
            except _BatchAbort:
                pass
            finally:
                self.batch_kind = None
                self.cur_kind = "batch"
            self.batches[end] = self.batches.get(end, 0) + 1
            if end == "ok":
                for seq, table, k in self.deferred:
                    self.acked.append(seq)
                    if self.on_ack is not None:
                        self.on_ack(seq, table, k)
            self.deferred = []
        elif kind == "reopen":
            if op.get("db") == "wallet":
                if self.wallet is not None:
                    self.reopens += 1
                    self.wallet.close()
                self.open_wallet()
            else:
                if self.mgr is not None:
                    self.reopens += 1
                    self.mgr.database.close()
                self.open_id()
        elif kind == "read":
            if op.get("db") == "wallet":
                if self.wallet is None:
                    self.open_wallet()
                for row in self.wallet.get_all():
                    self.wallet.get_attestation_by_hash(row[0])
            else:
                for p in range(N_PSEUDONYMS):
                    self.pseudonym(p).get_credentials()
                self.mgr.database.get_known_identities()
        else:
            msg = f"unknown op {op!r}"
            raise HarnessProblem(msg)


# =========================================================================== oracle
_PK = {"Tokens": (0, 1, 3), "Metadata": (0, 1), "Attestations": (0, 2), WALLET_NAME: (0,)}
_SELECTS = {
    "Tokens": "SELECT public_key, previous_token_hash, signature, content_hash, content FROM Tokens",
    "Metadata": "SELECT public_key, token_pointer, signature, serialized_json_dict FROM Metadata",
    "Attestations": "SELECT public_key, authority_key, metadata_pointer, signature FROM Attestations",
}


def _is_timeout(e: BaseException) -> bool:
    return type(e).__name__ == "CaseTimeout"


def _short(e: BaseException, root: str) -> str:
    return f"{type(e).__name__}: {str(e).replace(root, '<tmp>')[:160]}"


def _row_repr(row: tuple) -> str:
    return "(" + ", ".join("NULL" if v is None else f"{len(v)}B:{bytes(v[:6]).hex()}" for v in row) + ")"


def _verify(snap: str, keys: list, uses: tuple, records: list, acked: set, n_offered: int,  # noqa: C901, PLR0912, PLR0915
            sub: _Recorder | None = None) -> tuple[list, dict]:
    """
    Open the crash state under ``snap``/sqlite with fresh objects and apply the oracle of the statement.

    Returns (problems, stats); a problem is (oracle, key, needs_where, message).
    """
    from ipv8.attestation.identity.manager import IdentityManager
    from ipv8.attestation.wallet.database import AttestationsDB
    from ipv8.keyvault.crypto import default_eccrypto

    problems: list = []
    visible: dict = {}
    stats = {"visible": visible, "inflight": None}
    offered: dict = {}
    must: dict = {}
    for seq in range(n_offered):
        kind, table, row = records[seq]
        offered.setdefault((kind, table), set()).add(row)
        if seq in acked:
            must.setdefault((kind, table), set()).add(row)
    inflight = [records[s] for s in range(n_offered) if s not in acked]

    def compare(kind: str, table: str, rows: list) -> None:
        visible[table] = frozenset(rows)
        if len(rows) != len(set(rows)):
            problems.append(("no_partial_record", f"{kind}:duplicate_record_visible:{table}", False,
                             f"{len(rows) - len(set(rows))} duplicated rows in {table}"))
        off = offered.get((kind, table), set())
        rowset = set(rows)
        pk = _PK[table]
        for row in sorted(must.get((kind, table), set()) - rowset, key=repr):
            same_pk = [r for r in rows if all(r[i] == row[i] for i in pk)]
            if same_pk:
                problems.append(("acked_present_unchanged", f"{kind}:acked_record_changed:{table}", False,
                                 f"acknowledged {table} row {_row_repr(row)} reads back as {_row_repr(same_pk[0])}"))
            else:
                problems.append(("acked_present_unchanged", f"{kind}:acked_record_missing:{table}", False,
                                 f"acknowledged {table} row {_row_repr(row)} is not in the reopened database "
                                 f"({len(rows)} rows visible, {len(must[(kind, table)])} acknowledged)"))
        for row in sorted(rowset - off, key=repr):
            if any(all(r[i] == row[i] for i in pk) for r in off):
                problems.append(("no_partial_record", f"{kind}:partial_record_visible:{table}", False,
                                 f"{table} row {_row_repr(row)} has the key of an offered row but different content"))
            else:
                problems.append(("no_partial_record", f"{kind}:never_offered_record_visible:{table}", False,
                                 f"{table} row {_row_repr(row)} was never offered to an insert call"))

    _fresh_process_state()
    use_id, use_wallet = uses
    # The token / metadata loaders hand back *sets*: their iteration order is unspecified (it depends on object addresses in the
    # next process).  The simulator owns that choice: reverse insertion order (children before parents) or a seeded shuffle.
    from ipv8.attestation.identity.database import IdentityDatabase
    orig_gtf = IdentityDatabase.get_tokens_for

    class _OrderedSet(set):
        def __init__(self, items: list) -> None:
            super().__init__(items)
            self._order = list(items)

        def __iter__(self):  # noqa: ANN204
            return iter(self._order)

    def get_tokens_for(self, public_key):  # noqa: ANN001, ANN202
        toks = list(orig_gtf(self, public_key))
        sigs = [bytes(r[0]) for r in self.execute("SELECT signature FROM Tokens WHERE public_key = ? ORDER BY rowid",
                                                  (public_key.key_to_bin(),), fetch_all=True)]
        pos = {sg: i for i, sg in enumerate(sigs)}
        toks.sort(key=lambda t: pos.get(bytes(t.signature), 1 << 30))
        if len(toks) % 2:
            toks.reverse()
        else:
            random.Random(f"c19/setorder/{n_offered}/{len(toks)}").shuffle(toks)
        return _OrderedSet(toks)
    IdentityDatabase.get_tokens_for = get_tokens_for
    try:
        return _verify_inner(snap, keys, uses, records, acked, n_offered, sub, problems, visible, stats, must, inflight, compare)
    finally:
        IdentityDatabase.get_tokens_for = orig_gtf


def _verify_inner(snap, keys, uses, records, acked, n_offered, sub, problems, visible, stats, must, inflight, compare):  # noqa: ANN001, ANN202, C901, PLR0912, PLR0913, PLR0915
    from ipv8.attestation.identity.manager import IdentityManager
    from ipv8.attestation.wallet.database import AttestationsDB
    from ipv8.keyvault.crypto import default_eccrypto
    use_id, use_wallet = uses
    # ------------------------------------------------------------------ identity database
    if use_id:
        mgr = None
        _State.recorder = sub
        try:
            mgr = IdentityManager(os.path.join(snap, "sqlite", ID_FILE))
        except Exception as e:  # noqa: BLE001
            if _is_timeout(e):
                raise
            problems.append(("reopens", f"identity:reopen_raises:{type(e).__name__}", True,
                             f"IdentityManager(path) on the crash state raised {_short(e, snap)}"))
        finally:
            _State.recorder = None
            if sub is not None:
                sub.enabled = False
        if mgr is not None:
            db = mgr.database
            try:
                for table, sel in _SELECTS.items():
                    compare("identity", table, [tuple(r) for r in db.execute(sel)])
                for p in range(N_PSEUDONYMS):
                    key = keys[p]
                    ps = mgr.get_pseudonym(key)
                    pub = ps.public_key
                    stored = {r for r in visible.get("Tokens", ()) if r[0] == pub.key_to_bin()}
                    if len(ps.tree.elements) != len(stored):
                        problems.append(("pseudonym_verifies", "identity:pseudonym_lacks_stored_tokens", False,
                                         f"pseudonym {p}: {len(stored)} token rows are stored for its key, the rebuilt tree holds "
                                         f"{len(ps.tree.elements)} ({len(ps.tree.unchained)} waiting)"))
                    for token in ps.tree.elements.values():
                        if not ps.tree.verify(token):
                            problems.append(("pseudonym_verifies", "identity:pseudonym_token_chain_unverifiable", False,
                                             f"pseudonym {p}: token {token.get_hash().hex()[:12]} does not verify back to "
                                             f"genesis ({len(ps.tree.elements)} tokens loaded)"))
                            break
                    for cred in ps.get_credentials():
                        md = cred.metadata
                        if not md.verify(pub):
                            problems.append(("pseudonym_verifies", "identity:pseudonym_metadata_signature_invalid", False,
                                             f"pseudonym {p}: metadata for token {md.token_pointer.hex()[:12]}"))
                        if md.token_pointer not in ps.tree.elements:
                            problems.append(("pseudonym_verifies", "identity:pseudonym_metadata_without_token", False,
                                             f"pseudonym {p}: metadata points to token {md.token_pointer.hex()[:12]} "
                                             "which is not in the reloaded tree"))
                        for att in cred.attestations:
                            auth = default_eccrypto.key_from_public_bin(db.get_authority(att))
                            if not att.verify(auth) or att.metadata_pointer != md.get_hash():
                                problems.append(("pseudonym_verifies", "identity:pseudonym_attestation_invalid", False,
                                                 f"pseudonym {p}: attestation over {att.metadata_pointer.hex()[:12]}"))
            except Exception as e:  # noqa: BLE001
                if _is_timeout(e):
                    raise
                problems.append(("reopens", f"identity:read_raises:{type(e).__name__}", True,
                                 f"reading the reopened identity database raised {_short(e, snap)}"))
            try:
                db.close()
            except Exception as e:  # noqa: BLE001
                if _is_timeout(e):
                    raise
                problems.append(("reopens", f"identity:close_raises:{type(e).__name__}", True, _short(e, snap)))
    # ------------------------------------------------------------------ wallet database
    if use_wallet:
        wdb = None
        if sub is not None:
            sub.enabled = True
        _State.recorder = sub
        try:
            wdb = AttestationsDB(snap, WALLET_NAME)
        except Exception as e:  # noqa: BLE001
            if _is_timeout(e):
                raise
            problems.append(("reopens", f"wallet:reopen_raises:{type(e).__name__}", True,
                             f"AttestationsDB(dir, name) on the crash state raised {_short(e, snap)}"))
        finally:
            _State.recorder = None
            if sub is not None:
                sub.enabled = False
        if wdb is not None:
            try:
                rows = [tuple(r) for r in wdb.get_all()]
                compare("wallet", WALLET_NAME, rows)
                for row in sorted(must.get(("wallet", WALLET_NAME), set()), key=repr):
                    got = wdb.get_attestation_by_hash(row[0])
                    if row in rows and got != [row[1]]:
                        problems.append(("acked_present_unchanged", f"wallet:acked_record_changed:{WALLET_NAME}", False,
                                         f"get_attestation_by_hash({row[0].hex()[:12]}) returned {len(got)} values"))
            except Exception as e:  # noqa: BLE001
                if _is_timeout(e):
                    raise
                problems.append(("reopens", f"wallet:read_raises:{type(e).__name__}", True,
                                 f"reading the reopened wallet database raised {_short(e, snap)}"))
            try:
                wdb.close()
            except Exception as e:  # noqa: BLE001
                if _is_timeout(e):
                    raise
                problems.append(("reopens", f"wallet:close_raises:{type(e).__name__}", True, _short(e, snap)))
    if len(inflight) == 1 and inflight[0][1] in visible:
        stats["inflight"] = inflight[0][2] in visible[inflight[0][1]]
    return problems, stats


# =========================================================================== crash point selection
class _Selection:
    """crash: "all" | {"mod": m, "rem": r} | [k | [k, j], ...];  recovery (for non-list crash): "all" | "none" | {"mod","rem"}."""

    def __init__(self, crash, recovery) -> None:  # noqa: ANN001
        self.crash = crash
        self.recovery = recovery
        self.explicit: dict | None = None
        if isinstance(crash, list):
            self.explicit = {}
            for spec in crash:
                if isinstance(spec, list):
                    self.explicit.setdefault(int(spec[0]), {"self": False, "subs": set()})["subs"].add(int(spec[1]))
                else:
                    self.explicit.setdefault(int(spec), {"self": False, "subs": set()})["self"] = True

    def primary(self, k: int) -> bool:
        if self.explicit is not None:
            return k in self.explicit
        if isinstance(self.crash, dict):
            return k % int(self.crash["mod"]) == int(self.crash["rem"])
        return True

    def report_primary(self, k: int) -> bool:
        return self.explicit is None or self.explicit[k]["self"]

    def sub(self, k: int):  # noqa: ANN201
        """None = no second-crash enumeration for k; else a predicate over the second index."""
        if self.explicit is not None:
            subs = self.explicit[k]["subs"]
            return (lambda j: j in subs) if subs else None
        r = self.recovery
        if r == "all":
            return lambda j: True
        if isinstance(r, dict) and k % int(r["mod"]) == int(r["rem"]):
            return lambda j: True
        return None


# =========================================================================== in-process execution
class _Eval:
    def __init__(self, c, keys, runner, sel, uses, snaproot, ops) -> None:  # noqa: ANN001
        self.c = c
        self.keys = keys
        self.runner = runner
        self.sel = sel
        self.uses = uses
        self.root = snaproot
        self.ops = ops
        self.found: dict = {}
        self.n_eval = 0
        self.rows: list = []
        self.db_size: dict = {}
        self.no_reopen = not any(o.get("op") == "reopen" for o in ops)

    def _note(self, spec, point: dict, where: str, problems: list, sub_last: dict | None = None,  # noqa: ANN001
              inherit: dict | None = None) -> list:
        keys = []
        for prob in problems:
            # a state that was already unopenable before the recovering open started keeps its original attribution
            key = (inherit or {}).get(prob[1]) or _where_key(prob, point["last"], sub_last)
            keys.append(key)
            ent = self.found.get(key)
            if ent is None:
                op = self.ops[point["op"]] if 0 <= point["op"] < len(self.ops) else {"op": "end"}
                ent = self.found[key] = {"oracle": prob[0], "points": [], "msg": (
                    f"crash point {spec} [{where}] during op #{point['op']} {json.dumps(op, sort_keys=True)[:120]} with "
                    f"{point['na']} acknowledged / {point['no']} offered records: {prob[3]}")}
            if spec not in ent["points"]:
                ent["points"].append(spec)
        return sorted(set(keys))

    def flush(self, rec: _Recorder) -> None:  # noqa: C901
        c = self.c
        points, rec.points = rec.points, []
        for p in points:
            k = p["idx"]
            tag = p["tag"]
            acked = set(self.runner.acked[:p["na"]])
            subsel = self.sel.sub(k)
            sub = _Recorder(os.path.join(p["dir"], "sqlite"), self.root, f"r{k}_", subsel) if subsel else None
            sq = os.path.join(p["dir"], "sqlite")
            files = {f: os.path.getsize(os.path.join(sq, f)) for f in sorted(os.listdir(sq))}   # before recovery touches them
            problems, stats = _verify(p["dir"], self.keys, self.uses, self.runner.records, acked, p["no"], sub)
            if sub is not None:
                sub.check()
            inherit = {prob[1]: _where_key(prob, p["last"]) for prob in problems if prob[2]}
            # ---- reach probes / coverage keys
            if self.sel.report_primary(k):
                self.n_eval += 1
                c.probe("crash_points")
                if tag.startswith(("before:CREATE", "before:DELETE FROM option", "before:INSERT INTO option")):
                    c.probe("crash_inside_schema_script")
                if tag == "before:COMMIT" and p["no"] > p["na"]:
                    c.probe("crash_between_insert_and_commit")
                if tag.startswith("after_insert"):
                    c.probe("crash_after_ack")
                if tag == "after_commit":
                    c.probe("crash_after_commit")
                if tag == "after_close":
                    c.probe("crash_after_close")
                if any(f.endswith(".db") and size == 0 for f, size in files.items()):
                    c.probe("crash_before_first_page_written")
                if any(f.endswith("-wal") and size > 0 for f, size in files.items()):
                    c.probe("wal_present_at_crash")
                if any(f.endswith("-shm") for f in files):
                    c.probe("shm_present_at_crash")
                if any(f.endswith("-journal") for f in files):
                    c.probe("journal_present_at_crash")
                for f, size in files.items():
                    if f.endswith(".db"):
                        # in WAL mode the main file only changes when a checkpoint runs
                        if self.no_reopen and p["na"] > 0 and size > self.db_size.get(f, size):
                            c.probe("checkpoint_while_open")
                        self.db_size[f] = size
                if stats["inflight"] is True:
                    c.probe("inflight_record_visible")
                elif stats["inflight"] is False:
                    c.probe("inflight_record_absent")
                keys = self._note(k, p, tag, problems)
                c.nontrivial([tag, p["opk"], p["op"], p["na"]])
                nvis = ",".join(f"{t}={len(v)}" for t, v in sorted(stats["visible"].items()))
                outcome = ";".join(keys) if keys else "ok"
                c.world.trace.event("crash", p["kind"], f"{k}|{tag}|op{p['op']}", f"{p['na']}/{p['no']}|{nvis}|{outcome}")
                if len(self.rows) < 14 or keys:
                    self.rows.append([k, tag, f"op{p['op']}:{p['opk']}", f"acked {p['na']}/{p['no']}", nvis, outcome])
            if sub is not None:
                for q in sub.points:
                    problems2, stats2 = _verify(q["dir"], self.keys, self.uses, self.runner.records, acked, p["no"], None)
                    self.n_eval += 1
                    c.probe("second_crash_during_recovery")
                    keys2 = self._note([k, q["idx"]], p, f"{tag} -> {q['tag']}", problems2, q["last"], inherit)
                    c.nontrivial(["second", tag, q["kind"], q["tag"]])
                    nvis2 = ",".join(f"{t}={len(v)}" for t, v in sorted(stats2["visible"].items()))
                    c.world.trace.event("crash2", q["kind"], f"{k}.{q['idx']}|{q['tag']}",
                                        f"{p['na']}/{p['no']}|{nvis2}|{';'.join(keys2) or 'ok'}")
                    if keys2 and len(self.rows) < 40:
                        self.rows.append([[k, q["idx"]], f"{tag} -> {q['tag']}", f"op{p['op']}:{p['opk']}",
                                          f"acked {p['na']}/{p['no']}", nvis2, ";".join(keys2)])
                    shutil.rmtree(q["dir"], ignore_errors=True)
            shutil.rmtree(p["dir"], ignore_errors=True)

    def report(self) -> None:
        for key in sorted(self.found):
            ent = self.found[key]
            first = [sp for sp in ent["points"] if not isinstance(sp, list)]
            second = [sp for sp in ent["points"] if isinstance(sp, list)]
            self.c.violate(ent["oracle"], key, f"{len(first)} first-crash state(s) {first[:8]} and {len(second)} second-crash "
                                               f"state(s) {second[:4]}; first found: {ent['msg']}")
            if self.c.violations and self.c.violations[-1]["key"] == key:
                self.c.violations[-1]["crash_points"] = first[:16] + second[:16]


def _where_key(prob: tuple, last: dict, sub_last: dict | None = None) -> str:
    """
    Violation key.  Failures to reopen are attributed to the crash window of the database that fails: the statement
    before which the process died on *that* database's connection (second crash: inside the recovering open).
    """
    if not prob[2]:
        return prob[1]
    kind = prob[1].split(":", 1)[0]
    where = (sub_last or {}).get(kind) or last.get(kind) or "never_opened"
    return f"{prob[1]}@{where}"


def _gen_keys() -> list:
    from ipv8.keyvault.crypto import default_eccrypto
    return [default_eccrypto.generate_key("curve25519") for _ in range(N_PSEUDONYMS + N_AUTHORITIES)]


def _run_inproc(c, case: dict, tmp: str, keys: list, tag: str = "w"):  # noqa: ANN001, ANN202
    """Run the workload with crash points; evaluate the selected ones.  Returns (evaluator, recorder, runner)."""
    ops = case.get("ops", [])
    work = os.path.join(tmp, tag)
    snaproot = os.path.join(tmp, tag + "_snap")
    os.makedirs(snaproot)
    sel = _Selection(case.get("crash", "all"), case.get("recovery", "none"))
    rec = _Recorder(os.path.join(work, "sqlite"), snaproot, "p", sel.primary)
    runner = _Runner(work, keys)
    rec.ctx = runner.context
    runner.on_ack = lambda seq, table, kind: rec.point("after_insert:" + table, kind)
    ev = _Eval(c, keys, runner, sel, _uses(ops), snaproot, ops)
    with _Installed():
        _fresh_process_state()
        _State.commit_fail_at, _State.commits, _State.commit_failures = case.get("commit_fail"), 0, 0
        try:
            for i, op in enumerate(ops):
                _State.recorder = rec
                try:
                    runner.run_op(i, op)
                except _real_sqlite3.OperationalError:
                    if not _State.commit_failures:
                        raise
                    # the injected disk-full error reached the application: it gives up (the workload ends here)
                    rec.check()
                    ev.flush(rec)
                    break
                rec.check()
                ev.flush(rec)
            runner.cur_op, runner.cur_kind = len(ops), "end"
            rec.point("end", "-")
            ev.flush(rec)
        finally:
            rec.enabled = False
            _State.recorder = None
            if _State.commit_failures:
                c.probe("commit_failed_disk_full", _State.commit_failures)
                c.world.fault("commit_failed_disk_full", _State.commit_failures)
            if getattr(runner, "insert_errors", 0):
                c.probe("insert_raised_after_failed_commit", runner.insert_errors)
            _State.commit_fail_at = None
            try:
                runner.close_all()
            except Exception:  # noqa: BLE001, S110
                pass
    if runner.reopens:
        c.probe("reopen_cycles", runner.reopens)
    if runner.overflow:
        c.probe("overflow_row", runner.overflow)
    if getattr(runner, "retokens", 0):
        c.probe("stored_token_offered_again_without_content", runner.retokens)
    for p_, cid_, after_, how_ in getattr(runner, "refused", []):
        c.violate("reload", "credential_refused_by_reloaded_tree",
                  f"pseudonym {p_}: {how_} for credential {cid_} (following credential {after_}) returned None: the tree rebuilt from the "
                  f"database does not accept a token of its owner that points back to a stored token")
        break
    if getattr(runner, "reblobs", 0):
        c.probe("stored_attestation_delivered_again", runner.reblobs)
    for end, probe in (("ok", "batch_committed"), ("error", "batch_left_by_error"), ("ignore", "batch_left_by_ignorecommits")):
        if runner.batches.get(end):
            c.probe(probe, runner.batches[end])
    return ev, rec, runner


def _exec_inproc(c, case: dict, tmp: str) -> int:  # noqa: ANN001
    keys = _gen_keys()
    ev, rec, runner = _run_inproc(c, case, tmp, keys)
    ev.report()
    c.sample = {"scenario": case.get("scenario"), "name": case.get("name"), "ops": case.get("ops", [])[:10],
                "crash": case.get("crash", "all") if not isinstance(case.get("crash"), list) else case["crash"][:8],
                "recovery": case.get("recovery", "none"), "crash_points_in_workload": rec.n,
                "records_offered": len(runner.records), "crash_states_reopened": ev.n_eval,
                "points [index, where, op, acked/offered, visible rows, outcome]": ev.rows[:24]}
    return ev.n_eval


# =========================================================================== child processes (thorough tier)
def _rec_digest(rec: tuple) -> str:
    return hashlib.sha256(repr(rec).encode()).hexdigest()[:16]


def _child_env() -> dict:
    env = dict(os.environ)
    repo = env.get("VERIF_REPO", "/repo")
    parts = [p for p in env.get("PYTHONPATH", "").split(os.pathsep) if p]
    for need in (ROOT, repo):
        if need not in parts:
            parts.append(need)
    env["PYTHONPATH"] = os.pathsep.join(parts)
    env["PYTHONDONTWRITEBYTECODE"] = "1"
    return env


def _child_main(specpath: str) -> int:
    """The process that gets killed.  Plain library use; acks are appended with write+fsync after each insert returns."""
    with open(specpath) as f:
        spec = json.load(f)
    from ipv8.keyvault.crypto import default_eccrypto
    keys = [default_eccrypto.key_from_private_bin(bytes.fromhex(h)) for h in spec["keys"]]
    fd = os.open(spec["acklog"], os.O_WRONLY | os.O_CREAT | os.O_APPEND, 0o600)
    runner = _Runner(spec["dir"], keys)
    rec = None
    if spec.get("kill_at") is not None:
        rec = _Recorder(None, None, "", lambda i: False)
        rec.kill_at = int(spec["kill_at"])

    def on_ack(seq: int, table: str, kind: str) -> None:
        os.write(fd, f"A {seq} {_rec_digest(runner.records[seq])}\n".encode())
        os.fsync(fd)
        if rec is not None:
            rec.point("after_insert:" + table, kind)
    runner.on_ack = on_ack

    def body() -> None:
        for i, op in enumerate(spec["ops"]):
            runner.run_op(i, op)
        if rec is not None:
            rec.point("end", "-")
        runner.close_all()
    if rec is not None:
        with _Installed():
            _State.recorder = rec
            body()
    else:
        body()
    os.close(fd)
    return 0


def _spawn_child(tmp: str, name: str, ops: list, key_hex: list, kill_at: int | None, wrapper: list) -> tuple:
    """Returns (returncode, work dir, list of (seq, digest) acks, stderr tail)."""
    work = os.path.join(tmp, name)
    os.makedirs(work)
    acklog = os.path.join(tmp, name + ".acks")
    specpath = os.path.join(tmp, name + ".json")
    with open(specpath, "w") as f:
        json.dump({"dir": work, "ops": ops, "keys": key_hex, "acklog": acklog, "kill_at": kill_at}, f)
    p = subprocess.run([*wrapper, sys.executable, os.path.abspath(__file__), "--child", specpath],  # noqa: S603
                       capture_output=True, timeout=240, env=_child_env(), cwd=tmp, check=False)
    acks = []
    if os.path.exists(acklog):
        with open(acklog, "rb") as f:
            data = f.read()
        for line in data.split(b"\n")[:-1]:      # a line without its newline was not completed
            parts = line.decode().split()
            if len(parts) == 3 and parts[0] == "A":
                acks.append((int(parts[1]), parts[2]))
    return p.returncode, work, acks, p.stderr.decode(errors="replace")[-800:]


_STRACE: dict = {}


def _strace_prefix() -> list | None:
    """strace command prefix if syscall-injection of SIGKILL works here, else None (reason in _STRACE['why'])."""
    if "prefix" in _STRACE:
        return _STRACE["prefix"]
    _STRACE["prefix"] = None
    exe = shutil.which("strace")
    if exe is None:
        _STRACE["why"] = "strace not installed"
        return None
    why = "?"
    for extra in (["--seccomp-bpf"], []):
        base = [exe, *extra, "-f", "-qq", "-o", "/dev/null"]
        try:
            p = subprocess.run([*base, "-e", "trace=write", "-e", "inject=write:signal=KILL:when=2", sys.executable, "-c",  # noqa: S603
                                "import os; os.write(1, b'a'); os.write(1, b'b'); os.write(1, b'c')"],
                               capture_output=True, timeout=60, check=False)
        except Exception as e:  # noqa: BLE001
            why = f"{type(e).__name__}: {e}"
            continue
        if p.returncode in (-9, 137) and p.stdout == b"a":
            _STRACE["prefix"] = base
            return base
        why = f"probe rc={p.returncode} stdout={p.stdout[:20]!r} stderr={p.stderr.decode(errors='replace')[-200:]}"
    _STRACE["why"] = why
    return None


def _count_calls(ops: list) -> dict | None:
    """Number of file-mutating system calls of each class in an undisturbed run of the child (case generation)."""
    base = _strace_prefix()
    if base is None:
        return None
    tmp = tempfile.mkdtemp(prefix="c19count_", dir=_scratch_base())
    try:
        out = os.path.join(tmp, "trace.txt")
        wrapper = [x if x != "/dev/null" else out for x in base] + ["-e", "trace=" + ",".join(KILL_CALLS)]
        key_hex = [(b"LibNaCLSK:" + hashlib.sha512(f"c19/count/{i}".encode()).digest()).hex()
                   for i in range(N_PSEUDONYMS + N_AUTHORITIES)]
        rc, _, _, err = _spawn_child(tmp, "count", ops, key_hex, None, wrapper)
        if rc != 0:
            _STRACE["why"] = f"counting run failed rc={rc}: {err[-200:]}"
            return None
        counts = dict.fromkeys(KILL_CALLS, 0)
        with open(out) as f:
            for line in f:
                m = re.match(r"^(?:\d+\s+)?(\w+)\(", line)
                if m and m.group(1) in counts:
                    counts[m.group(1)] += 1
        return counts
    finally:
        shutil.rmtree(tmp, ignore_errors=True)


def _reference(c, case: dict, tmp: str, keys: list, crash, recovery="none"):  # noqa: ANN001, ANN202
    ref_case = dict(case)
    ref_case["crash"] = crash
    ref_case["recovery"] = recovery
    return _run_inproc(c, ref_case, tmp, keys, tag="ref")


def _check_acks(acks: list, records: list) -> set:
    for seq, dig in acks:
        if seq >= len(records) or _rec_digest(records[seq]) != dig:
            msg = f"child acknowledged record {seq} with digest {dig}, the reference run has " \
                  f"{_rec_digest(records[seq]) if seq < len(records) else 'no such record'}"
            raise HarnessProblem(msg)
    return {seq for seq, _ in acks}


def _exec_strace(c, case: dict, tmp: str) -> int:  # noqa: ANN001
    """One real SIGKILL before the N-th system call of one class."""
    base = _strace_prefix()
    kill = case["kill"]
    if base is None:
        c.probe("strace_unavailable")
        c.sample = {"scenario": "strace", "notes": f"tier skipped: {_STRACE.get('why')}"}
        c.world.trace.event("strace", None, "unavailable")
        return 1
    keys = _gen_keys()
    ev, _, ref = _reference(c, case, tmp, keys, [])           # undisturbed run: the record sequence, no crash points
    records = ref.records
    wrapper = [*base, "-e", f"trace={kill['call']}", "-e", f"inject={kill['call']}:signal=KILL:when={int(kill['when'])}"]
    rc, work, acks, err = _spawn_child(tmp, "victim", case["ops"], [k.key_to_bin().hex() for k in keys], None, wrapper)
    if rc in (-9, 137):
        c.probe("strace_kills")
        c.probe("strace_kill_" + kill["call"])
        died = "killed"
    elif rc == 0:
        c.probe("strace_child_survived")
        died = "survived"
    else:
        msg = f"strace child failed rc={rc}: {err}"
        raise HarnessProblem(msg)
    acked = _check_acks(acks, records)
    n_off = min(len(records), (max(acked) + 2) if acked else 1)   # the record after the last ack may be in flight
    if died == "survived":
        if acked != set(range(len(records))):
            msg = f"child exited normally with {len(acked)} acks of {len(records)}"
            raise HarnessProblem(msg)
        n_off = len(records)
    files = sorted(os.listdir(os.path.join(work, "sqlite"))) if os.path.isdir(os.path.join(work, "sqlite")) else []
    problems, stats = _verify(work, keys, _uses(case["ops"]), records, acked, n_off, None)
    if any(f.endswith("-wal") for f in files):
        c.probe("wal_present_at_crash")
    where = f"kill_before_{kill['call']}"
    found = []
    for prob in problems:
        key = f"{prob[1]}@{where}" if prob[2] else prob[1]
        found.append(key)
        c.violate(prob[0], key, f"real SIGKILL before {kill['call']} call #{kill['when']} of the child "
                                f"({len(acked)} acknowledged records, files {files}): {prob[3]}")
    if stats["inflight"] is True:
        c.probe("inflight_record_visible")
    elif stats["inflight"] is False:
        c.probe("inflight_record_absent")
    nvis = ",".join(f"{t}={len(v)}" for t, v in sorted(stats["visible"].items()))
    c.nontrivial(["strace", case.get("name"), kill["call"], kill["when"], died])
    c.world.trace.event("strace", None, f"{kill['call']}#{kill['when']}|{died}",
                        f"{len(acked)}/{n_off}|{nvis}|{';'.join(sorted(set(found))) or 'ok'}")
    c.sample = {"scenario": "strace", "name": case.get("name"), "kill": kill, "child": died, "acked": len(acked),
                "files_left": files, "visible": nvis, "outcome": sorted(set(found)) or "ok", "notes": " ".join(base)}
    return 1


def _exec_selfkill(c, case: dict, tmp: str) -> int:  # noqa: ANN001
    """Statement-level crash points again, but the child really dies there; the copy model must agree with it."""
    keys = _gen_keys()
    _, rec, ref = _reference(c, case, tmp, keys, [])          # record sequence + number of crash points
    key_hex = [k.key_to_bin().hex() for k in keys]
    sel = _Selection(case.get("crash", "all"), "none")
    uses = _uses(case["ops"])
    n = 0
    rows = []
    for k in range(rec.n):
        if not sel.primary(k):
            continue
        rc, work, acks, err = _spawn_child(tmp, f"victim{k}", case["ops"], key_hex, k, [])
        if rc not in (-9, 137):
            msg = f"self-kill child for crash point {k} ended with rc={rc}: {err}"
            raise HarnessProblem(msg)
        c.probe("selfkill_children")
        acked = _check_acks(acks, ref.records)
        sub_tmp = os.path.join(tmp, f"copy{k}")
        os.makedirs(sub_tmp)
        cp_problems, cp_stats, pt = _copy_model_point(case, sub_tmp, keys, k)     # what the copy model says
        if set(ref.acked[:pt["na"]]) != acked:
            msg = f"crash point {k}: child acknowledged {sorted(acked)}, in-process run had {ref.acked[:pt['na']]}"
            raise HarnessProblem(msg)
        problems, stats = _verify(work, keys, uses, ref.records, acked, pt["no"], None)
        n += 1
        real_keys = sorted({p[1] for p in problems})
        copy_keys = sorted({p[1] for p in cp_problems})
        if stats["visible"] != cp_stats["visible"] or real_keys != copy_keys:
            msg = (f"copy model disagrees with real death at crash point {k} [{pt['tag']}]: real "
                   f"{[(t, len(v)) for t, v in sorted(stats['visible'].items())]} {real_keys} vs copy "
                   f"{[(t, len(v)) for t, v in sorted(cp_stats['visible'].items())]} {copy_keys}")
            raise HarnessProblem(msg)
        c.probe("copy_model_agrees")
        for prob in problems:
            key = _where_key(prob, pt["last"])
            c.violate(prob[0], key, f"child SIGKILLed itself at crash point {k} [{pt['tag']}] "
                                    f"({len(acked)} acknowledged records): {prob[3]}")
            if c.violations and c.violations[-1]["key"] == key and "crash_points" not in c.violations[-1]:
                c.violations[-1]["crash_points"] = [k]
        c.nontrivial(["selfkill", case.get("name"), k, pt["tag"]])
        c.world.trace.event("selfkill", None, f"{k}|{pt['tag']}", f"{len(acked)}|{';'.join(real_keys) or 'ok'}")
        rows.append([k, pt["tag"], f"acked {len(acked)}", ";".join(real_keys) or "ok"])
        shutil.rmtree(work, ignore_errors=True)
        shutil.rmtree(sub_tmp, ignore_errors=True)
    c.sample = {"scenario": "selfkill", "name": case.get("name"), "crash": case.get("crash", "all"), "children_killed": n,
                "crash_points_in_workload": rec.n, "points [index, where, acked, outcome (same for copy and real)]": rows[:12]}
    return max(1, n)


def _copy_model_point(case: dict, tmp: str, keys: list, k: int) -> tuple:
    """Problems/stats of the copied crash state k (no reporting)."""
    ops = case["ops"]
    work = os.path.join(tmp, "w")
    snaproot = os.path.join(tmp, "s")
    os.makedirs(snaproot)
    rec = _Recorder(os.path.join(work, "sqlite"), snaproot, "p", lambda i: i == k)
    runner = _Runner(work, keys)
    rec.ctx = runner.context
    runner.on_ack = lambda seq, table, kind: rec.point("after_insert:" + table, kind)
    with _Installed():
        _fresh_process_state()
        try:
            _State.recorder = rec
            for i, op in enumerate(ops):
                runner.run_op(i, op)
                rec.check()
                if rec.points:
                    break
            if not rec.points:
                runner.cur_op, runner.cur_kind = len(ops), "end"
                rec.point("end", "-")
        finally:
            rec.enabled = False
            _State.recorder = None
            runner.close_all()
        if not rec.points:
            msg = f"crash point {k} does not exist in the workload ({rec.n} points)"
            raise HarnessProblem(msg)
        pt = rec.points[0]
        problems, stats = _verify(pt["dir"], keys, _uses(ops), runner.records, set(runner.acked[:pt["na"]]), pt["no"], None)
    return problems, stats, pt


# =========================================================================== case generation
def _scripted() -> list:
    cred = lambda cid, after=None, p=0, msize=24, csize=0: {"op": "cred", "p": p, "id": cid, "after": after,  # noqa: E731
                                                             "msize": msize, "csize": csize}
    return [
        ("three_credentials", [cred(1), cred(2, 1), cred(3, 2)]),
        ("attested_with_reopen", [cred(1), {"op": "attest", "p": 0, "cred": 1, "auth": 0}, {"op": "reopen", "db": "id"},
                                  cred(2, 1), {"op": "attest", "p": 0, "cred": 2, "auth": 1}, {"op": "read", "db": "id"}]),
        ("wallet_blobs", [{"op": "blob", "id": 1, "size": 120}, {"op": "blob", "id": 2, "size": 20000},
                          {"op": "reopen", "db": "wallet"}, {"op": "blob", "id": 3, "size": 900},
                          {"op": "read", "db": "wallet"}]),
        ("two_pseudonyms_and_wallet", [cred(1), cred(1, None, 1), {"op": "blob", "id": 1, "size": 3000},
                                       cred(2, 1, 0, 40, 10000), {"op": "recred", "p": 0, "cred": 1},
                                       {"op": "reopen", "db": "id"}, {"op": "reopen", "db": "wallet"},
                                       {"op": "attest", "p": 1, "cred": 1, "auth": 0}, cred(2, 1, 1),
                                       {"op": "blob", "id": 2, "size": 64}]),
        ("forked_tree_big_metadata", [cred(1), cred(2, 1), cred(3, 1), cred(4, 3, 0, 9000), cred(5, 2, 0, 0, 17000),
                                      {"op": "attest", "p": 0, "cred": 4, "auth": 0}]),
        ("batches", [cred(1), {"op": "batch", "db": "id", "end": "ok", "inner": [cred(2, 1), {"op": "attest", "p": 0, "cred": 1, "auth": 0}]},
                     {"op": "batch", "db": "id", "end": "error", "inner": [cred(3, 2)]}, cred(4, 2),
                     {"op": "attest", "p": 0, "cred": 4, "auth": 1},
                     {"op": "batch", "db": "wallet", "end": "error", "inner": [{"op": "blob", "id": 1, "size": 500}]},
                     {"op": "blob", "id": 2, "size": 700},
                     {"op": "batch", "db": "id", "end": "ignore", "inner": [cred(5, 4)]}, cred(6, 4),
                     {"op": "batch", "db": "wallet", "end": "ok", "inner": [{"op": "blob", "id": 3, "size": 90}, {"op": "blob", "id": 4, "size": 9000}]},
                     {"op": "read", "db": "id"}]),
        ("content_then_bare_token", [cred(1, None, 0, 24, 300), cred(2, 1, 0, 24, 5000), {"op": "retoken", "p": 0, "cred": 1},
                                     {"op": "retoken", "p": 0, "cred": 2}, cred(3, 2), {"op": "retoken", "p": 0, "cred": 3},
                                     {"op": "read", "db": "id"}]),
        ("redelivered_attestation", [{"op": "blob", "id": 1, "size": 200, "ksize": 300}, {"op": "blob", "id": 2, "size": 5000, "ksize": 300},
                                     {"op": "reblob", "id": 1, "size": 200, "ksize": 300}, {"op": "blob", "id": 3, "size": 64},
                                     {"op": "reopen", "db": "wallet"}, {"op": "reblob", "id": 2, "size": 5000, "ksize": 300},
                                     {"op": "read", "db": "wallet"}]),
        ("reopen_storm", [cred(1), {"op": "reopen", "db": "id"}, {"op": "reopen", "db": "id"}, cred(2, 1),
                          {"op": "reopen", "db": "id"}, {"op": "read", "db": "id"}, {"op": "blob", "id": 1, "size": 10},
                          {"op": "reopen", "db": "wallet"}, {"op": "reopen", "db": "wallet"}]),
    ]


def _random_case(seed: int) -> dict:
    rng = random.Random(f"c19/{seed}")
    n = rng.choice([1, 2, 3, 4, 6, 8, 10, 14])
    ops: list = []
    creds: dict = {0: [], 1: []}
    attested: set = set()
    nblob = 0
    for _ in range(n):
        kind = rng.choices(["cred", "attest", "recred", "blob", "reopen", "read", "retoken", "reblob"], [40, 14, 5, 20, 13, 8, 6, 5])[0]
        if kind == "reblob":
            prev = [o for o in ops if o["op"] == "blob"]
            if prev:
                ops.append(dict(rng.choice(prev), op="reblob"))
            continue
        if kind == "cred":
            p = rng.choice([0, 0, 1])
            cid = len(creds[p]) + 1
            after = rng.choice(creds[p][-3:] + [creds[p][-1]] * 2) if creds[p] and rng.random() < 0.85 else None
            ops.append({"op": "cred", "p": p, "id": cid, "after": after,
                        "msize": rng.choice([0, 0, 30, 300, 3000, 9000, 20000]),
                        "csize": rng.choice([0, 0, 0, 0, 100, 5000, 17000])})
            creds[p].append(cid)
        elif kind == "attest":
            cands = [(p, cid) for p in creds for cid in creds[p] if (p, cid) not in attested]
            if not cands:
                continue
            p, cid = rng.choice(cands)
            attested.add((p, cid))
            ops.append({"op": "attest", "p": p, "cred": cid, "auth": rng.randrange(N_AUTHORITIES)})
        elif kind in ("recred", "retoken"):
            cands = [(p, cid) for p in creds for cid in creds[p]]
            if not cands:
                continue
            p, cid = rng.choice(cands)
            ops.append({"op": kind, "p": p, "cred": cid})
        elif kind == "blob":
            nblob += 1
            ops.append({"op": "blob", "id": nblob, "size": rng.choice([10, 200, 3000, 9000, 40000]),
                        "ksize": rng.choice([32, 300, 9000])})
        else:
            ops.append({"op": kind, "db": rng.choice(["id", "id", "wallet"])})
    if not ops:
        ops.append({"op": "cred", "p": 0, "id": 1, "after": None, "msize": 0, "csize": 0})
    if rng.random() < 0.4:
        # some of the inserts are made through the batching API (``with database:``), ended normally, by an application
        # error the caller handles, or by IgnoreCommits
        out: list = []
        for o in ops:
            dbk = "wallet" if o["op"] == "blob" else "id" if o["op"] in ("cred", "attest", "recred") else None
            if dbk is None or rng.random() >= 0.35:
                out.append(o)
            elif out and out[-1].get("op") == "batch" and out[-1]["db"] == dbk and len(out[-1]["inner"]) < 3 and rng.random() < 0.5:
                out[-1]["inner"].append(o)
            else:
                out.append({"op": "batch", "db": dbk, "end": rng.choice(["ok", "ok", "error", "error", "ignore"]), "inner": [o]})
        ops = out
    case = {"scenario": "seeded", "seed": seed, "ops": ops, "crash": "all", "recovery": {"mod": 5, "rem": seed % 5}}
    if rng.random() < 0.15:
        case["commit_fail"] = rng.randrange(1, 3 * len(ops) + 2)
        case["recovery"] = "none"
    return case


def cases(tier: str, base_seed: int):  # noqa: ANN201
    split = 4
    for i, (name, ops) in enumerate(_scripted()):
        for r in range(split):
            yield {"scenario": "scripted", "name": name, "seed": 1000 + i, "ops": ops,
                   "crash": {"mod": split, "rem": r}, "recovery": "all"}
    # fault: one commit() of the workload fails like a full disk (the transaction is rolled back); the insert that hit it must not
    # count as made - crash points after it included
    scripted_f = dict(_scripted())
    for name, n_commits in (("three_credentials", 9), ("wallet_blobs", 4), ("two_pseudonyms_and_wallet", 14)):
        for k in range(1, n_commits + 1):
            yield {"scenario": "scripted", "name": name + "_commit_fails", "seed": 1700 + k, "ops": scripted_f[name],
                   "crash": {"mod": 3, "rem": k % 3}, "recovery": "none", "commit_fail": k}
    # a pseudonym with a long chain (more tokens than the token tree's waiting area holds): few crash points, full reload each time
    chain = [{"op": "cred", "p": 0, "id": k, "after": k - 1 if k > 1 else None, "msize": 0, "csize": 0} for k in range(1, 131)]
    for r in ((7,) if tier == "quick" else (7, 19, 31)):
        yield {"scenario": "scripted", "name": "long_chain_130", "seed": 1500, "ops": chain, "crash": {"mod": 120, "rem": r},
               "recovery": "none"}
    if tier == "quick":
        # a sample of real SIGKILLs at system-call granularity (a kill INSIDE a commit, between two page writes, is invisible at
        # statement granularity); the thorough tier runs every kill point
        if "strace_kills" not in REACH:
            REACH.append("strace_kills")
        scripted_q = dict(_scripted())
        for when in range(2, 42, 3):
            yield {"scenario": "strace", "name": "three_credentials", "seed": 2000, "ops": scripted_q["three_credentials"],
                   "kill": {"call": "pwrite64", "when": when}}
        for when in (3, 9):
            yield {"scenario": "strace", "name": "wallet_blobs", "seed": 2002, "ops": scripted_q["wallet_blobs"],
                   "kill": {"call": "pwrite64", "when": when}}
    if tier == "thorough":
        for probe in ("strace_kills", "selfkill_children", "copy_model_agrees", "checkpoint_while_open"):
            if probe not in REACH:
                REACH.append(probe)
        scripted = dict(_scripted())
        for i, name in enumerate(("three_credentials", "attested_with_reopen", "wallet_blobs")):
            counts = _count_calls(scripted[name])
            if counts is None:
                yield {"scenario": "strace", "name": name, "seed": 2000 + i, "ops": scripted[name],
                       "kill": {"call": "pwrite64", "when": 1}}
                continue
            for call in KILL_CALLS:
                for when in range(1, counts[call] + 2):       # +1: one run that is not killed (full ack log)
                    yield {"scenario": "strace", "name": name, "seed": 2000 + i, "ops": scripted[name],
                           "kill": {"call": call, "when": when}}
        for i, name in enumerate(("three_credentials", "wallet_blobs")):
            for r in range(16):
                yield {"scenario": "selfkill", "name": name, "seed": 3000 + i, "ops": scripted[name],
                       "crash": {"mod": 16, "rem": r}}
        big = [{"op": "blob", "id": b, "size": 1 << 20, "ksize": 64} for b in range(1, 10)] + [{"op": "read", "db": "wallet"}]
        for r in range(8):
            yield {"scenario": "scripted", "name": "auto_checkpoint_9MB", "seed": 4000, "ops": big,
                   "crash": {"mod": 8, "rem": r}, "recovery": {"mod": 9, "rem": r}}
    for i in range(N_SEEDED[tier]):
        yield _random_case(base_seed + i)


def simplify(case: dict):  # noqa: ANN201
    """After ddmin over the ops: pin the case to single crash points (the runner keeps a candidate if the key survives)."""
    if case.get("scenario") in ("strace",) or isinstance(case.get("crash"), list):
        return
    big = len(_flat(case.get("ops", []))) > 24      # (a long workload has thousands of first x second crash points: keep it bounded)
    if big and isinstance(case.get("crash"), dict):
        return
    res = execute(dict(case, scenario="pinned", crash="all",
                       recovery="none" if case.get("scenario") == "selfkill" or big else "all"))
    for second in (True, False):          # first-crash-only candidates last: the runner keeps the last one that still fails
        for v in res.get("violations", []):
            specs = [sp for sp in v.get("crash_points", []) if isinstance(sp, list) == second]
            for spec in specs[:1]:
                cand = dict(case)
                cand["scenario"] = "pinned"
                cand["crash"] = [spec]
                cand["recovery"] = "none"
                yield cand


# =========================================================================== entry point
def execute(case: dict) -> dict:
    from simkit.scenario import Case

    c = Case(case, first_only=False)
    tmp = tempfile.mkdtemp(prefix="c19_", dir=_scratch_base())
    try:
        scen = case.get("scenario")
        if scen == "strace":
            n = _exec_strace(c, case, tmp)
        elif scen == "selfkill":
            n = _exec_selfkill(c, case, tmp)
        else:
            n = _exec_inproc(c, case, tmp)
    finally:
        _State.recorder = None
        shutil.rmtree(tmp, ignore_errors=True)
    return c.result(evaluations=max(1, n))


if __name__ == "__main__":
    if len(sys.argv) == 3 and sys.argv[1] == "--child":
        sys.exit(_child_main(sys.argv[2]))
    print("usage: c19_crash.py --child SPEC.json   (run the check with /verif/check C19)")
    sys.exit(2)
