"""
C04 - onion circuits deliver data intact and never expose it in transit.

Real TunnelCommunity nodes over PythonCryptoEndpoint on SimNet; an outside echo server; circuits of 1..3 hops; marked
payloads of many sizes in both directions plus ping and speed-test cells.  The wire monitor links every cell to the
cell that caused it (causality ContextVar), so the body seen on link i can be decrypted with hop i's session keys
(the Rust primitive only) and compared with the body on link i+1.  An on-path adversary alters cells in flight or
injects altered / spliced / re-addressed copies according to an explicit, shrinkable fault list.
"""
from __future__ import annotations

import asyncio
import itertools
import random

from simkit.scenario import Case

from .tunnel_lib import TunnelWorld, cell_parts

PROPERTY = "C04"
LEVEL = "exploration"
BUDGET = {"quick": 35, "thorough": 480}
CHUNK = 4
CASE_WALL = {"quick": 120, "thorough": 600}
ENUMERATED = {"quick": False, "thorough": False}
SHRINK_FIELDS = ("faults", "sizes")
RULE = ("case = (hop count 1..3, payload sizes 2..1400 with unique markers, data/ping/speed-test workload, network knobs, "
        "explicit fault list: in-flight alteration or extra altered copy of the n-th cell on the wire: byte flip at any "
        "position of header or body, flag flips, circuit-id rewrite, splice of another circuit's body, seeded injected "
        "cells, and 'sweep' = every byte position of one cell). Non-trivial = a run in which a READY circuit carried data "
        "both ways; distinct by (hops, direction, size) for deliveries and by (fault kind, link, cell label, byte "
        "position) for tampering.")
COMPONENTS = {"real": ["TunnelCommunity (create/extend/data/ping/test paths)", "PythonCryptoEndpoint (send_cell, process_cell, "
                       "relay_cell, encrypt/decrypt layers)", "TunnelExitSocket with real (simulated) outside transports",
                       "CellPayload codec", "ipv8_rust_tunnels.SessionKeys AEAD (also used by the oracle to peel layers)"],
              "stub": ["UDP/IP (SimNet)", "outside echo server", "DNS", "wall clock", "OS RNG"]}
ASSUMPTIONS = ["ChaCha20-Poly1305 in ipv8_rust_tunnels is trusted (the oracle peels layers with the same primitive)",
               "no replay protection is demanded: an exact or flag-flipped duplicate of a genuine cell may deliver its payload "
               "twice; only *altered or foreign* data must never be delivered",
               "the native ipv8_rust_tunnels.Endpoint is not covered"]
REACH = ["delivered_forward", "delivered_backward", "layer_checked_forward", "layer_checked_backward", "hops:1", "hops:2",
         "hops:3", "fault:flip", "fault:cid", "fault:splice", "fault:inject", "fault:flag", "fault:plain_data", "tampered_dropped",
         "speedtest_ok", "e2e_linked", "e2e_delivered", "e2e_reader_checked", "sent_from_ready_callback", "plain_reader_checked",
         "e2e_ipv8_shaped_payload", "fault:reflect", "outside_answer_during_removal_grace_period", "nested_data_message_from_outside", "fault:rp_inject_at_link", "destination_by_host_name", "same_host_name_other_port", "outside_answer_while_exit_socket_is_closing"]

SIZES = [2, 3, 10, 22, 23, 24, 64, 100, 279, 500, 1000, 1399, 1400]


def cases(tier: str, base_seed: int):  # noqa: ANN201
    n = 0
    # fault-free deliveries for every hop count, all sizes
    for hops in (1, 2, 3):
        n += 1
        yield {"seed": base_seed + n, "hops": hops, "knobs": {"lat_jit": 0.0}, "sizes": SIZES, "faults": [],
               "second_circuit": False}
    for hops in (1, 2, 3):
        n += 1
        yield {"seed": base_seed + n, "hops": hops, "knobs": {"lat_jit": 0.0}, "sizes": [64, 279], "faults": [],
               "second_circuit": False, "exit_removes": True}
    for hops in (1, 2):
        n += 1
        yield {"seed": base_seed + n, "hops": hops, "knobs": {"lat_jit": 0.0}, "sizes": [64, 279, 80, 500, 64, 100], "faults": [],
               "second_circuit": False, "by_name": True}
    for hops in (1, 2, 3):
        n += 1
        yield {"seed": base_seed + n, "hops": hops, "knobs": {"lat_jit": 0.0}, "sizes": [64, 279], "faults": [],
               "second_circuit": False, "removal_during_lookup": True}
    # sweeps: every byte position of one cell of each kind on each link
    for hops in ((2,) if tier == "quick" else (1, 2, 3)):
        for cell in range(0, 10 if tier == "quick" else 40, 1):
            n += 1
            yield {"seed": base_seed + n, "hops": hops, "knobs": {}, "sizes": [64, 279], "second_circuit": True,
                   "faults": [{"kind": "sweep", "cell": cell, "stride": 3 if tier == "quick" else 1}]}
    # hidden-service (end-to-end) circuits: fault-free, then with tampering
    for k in range(3 if tier == "quick" else 12):
        n += 1
        yield {"kind": "e2e", "seed": base_seed + n, "knobs": {"lat_jit": 0.0}, "sizes": [64, 279, 1000], "faults": [],
               "send_in_callback": k % 2 == 0, "shape": ("bt", "ipv8", "own_prefix")[k % 3]}
    # the rendezvous point forges data into both halves right after linking them, before any end-to-end cell has travelled
    for k in range(2 if tier == "quick" else 6):
        n += 1
        yield {"kind": "e2e", "seed": base_seed + n, "knobs": {"lat_jit": 0.0}, "sizes": [64, 279], "send_in_callback": False,
               "shape": ("bt", "ipv8")[k % 2], "faults": [{"kind": "rp_inject_at_link", "cell": 0, "pos": 0.5, "mask": 1, "mode": "extra"}]}
    # the rendezvous point (which holds hop keys, not the e2e keys) reflects relayed cells into the half they came from
    for k in range(2 if tier == "quick" else 8):
        n += 1
        yield {"kind": "e2e", "seed": base_seed + n, "knobs": {"lat_jit": 0.0}, "sizes": [64, 279, 500], "send_in_callback": False,
               "shape": ("bt", "ipv8")[k % 2], "faults": [{"kind": "reflect", "cell": j, "pos": 0.5, "mask": 1, "mode": "extra"}
                                                           for j in range(k % 2, 6, 2)]}
    for i in itertools.count():
        seed = base_seed + 1000 + i
        rng = random.Random(f"c04/{seed}")
        if i % 6 == 5:
            fl = []
            for _ in range(rng.choice([0, 0, 2, 6])):
                fl.append({"kind": rng.choice(["flip", "flip", "flag", "cid", "inject", "reflect", "rp_inject_at_link"]), "cell": rng.randrange(0, 40),
                           "pos": rng.random(), "mask": 1 << rng.randrange(8), "mode": rng.choice(["alter", "extra"])})
            yield {"kind": "e2e", "seed": seed, "knobs": {"lat_jit": rng.choice([0.0, 0.02]), "timer_jitter": 0.0},
                   "sizes": [rng.randrange(20, 1300) for _ in range(rng.choice([1, 3, 6]))], "faults": fl,
                   "send_in_callback": rng.random() < 0.5, "shape": rng.choice(["bt", "ipv8", "own_prefix", "mixed"])}
            continue
        hops = rng.choice([1, 2, 2, 3, 3])
        sizes = [rng.choice([rng.randrange(2, 1401), rng.choice(SIZES)]) for _ in range(rng.choice([2, 4, 8]))]
        knobs = {"lat_jit": rng.choice([0.0, 0.02, 0.1]), "timer_jitter": rng.choice([0.0, 0.001])}
        faults = []
        mode = rng.choice(["none", "lossy", "tamper", "tamper", "tamper"])
        if mode == "lossy":
            knobs.update(loss=rng.choice([0.02, 0.05]), dup=rng.choice([0.0, 0.05]))
        elif mode == "tamper":
            for _ in range(rng.choice([1, 3, 8, 20])):
                faults.append({"kind": rng.choice(["flip", "flip", "flip", "flag", "cid", "splice", "inject", "plain_data"]),
                               "cell": rng.randrange(0, 60), "pos": rng.random(), "mask": 1 << rng.randrange(8),
                               "mode": rng.choice(["alter", "extra"])})
        yield {"seed": seed, "hops": hops, "knobs": knobs, "sizes": sizes, "faults": faults,
               "second_circuit": mode == "tamper" or rng.random() < 0.3, "exit_removes": rng.random() < 0.25,
               "by_name": rng.random() < 0.25, "removal_during_lookup": rng.random() < 0.1}


def readers(tw, pkt, marker: bytes, max_depth: int = 4) -> bool:  # noqa: ANN001
    """Can the RECEIVER of this cell, with the session keys it holds, peel it down to something containing the marker?"""
    parts = cell_parts(pkt.orig or pkt.data)
    node = tw.node_of_ip(pkt.dst[0])
    if parts is None or node is None:
        return False
    keys = [k for n, _s, k in tw.session_keys if n == node.name]
    seen = {parts[3]}
    frontier = [parts[3]]
    for _ in range(max_depth):
        nxt = []
        for body in frontier:
            if marker in body:
                return True
            for k in keys:
                for d in (0, 1):
                    try:
                        out = k.decrypt_str(body, d)
                    except Exception:  # noqa: BLE001, S112
                        continue
                    if out not in seen:
                        seen.add(out)
                        nxt.append(out)
        frontier = nxt
        if not frontier:
            break
    return any(marker in b for b in frontier)


class StubDHT:
    """Stand-in for the DHT provider of the hidden-service code (a shared dictionary, as in the repository's own mock)."""

    table: dict = {}

    def __init__(self, peer) -> None:  # noqa: ANN001
        self.peer = peer

    async def peer_lookup(self, mid, peer=None):  # noqa: ANN001, ANN201
        return None

    async def lookup(self, info_hash):  # noqa: ANN001, ANN201
        return info_hash, list(self.table.get(info_hash, []))

    async def announce(self, info_hash, intro_point) -> None:  # noqa: ANN001
        self.table.setdefault(info_hash, []).append(intro_point)


def execute_e2e(case: dict) -> dict:  # noqa: C901, PLR0915
    """Hidden-service circuit: downloader - (hop) - rendezvous point - (hop) - seeder, plus the extra end-to-end layer."""
    c = Case(case, net=True, first_only=False)
    world, net = c.world, c.net
    rng = world.stream("c04e2e")
    StubDHT.table = {}
    tw = TunnelWorld(c, n=6, exits=(4, 5), hidden=True)
    faults = case.get("faults", [])
    state = {"phase": "build", "cells": 0, "tampered_ids": set()}
    sent: dict = {}          # payload -> (marker, direction)
    got = {"seeder": [], "downloader": []}
    service = b"\x5a" * 20

    def flt(pkt):  # noqa: ANN001, ANN202
        if state["phase"] != "data" or pkt.injected:
            return None
        addrs = {n.address for n in tw.nodes}
        if pkt.src not in addrs or pkt.dst not in addrs or cell_parts(pkt.data) is None:
            return None
        n = state["cells"]
        state["cells"] += 1
        out = None
        for f in faults:
            if f.get("cell") != n:
                continue
            world.probe("fault:" + f["kind"])
            b = bytearray(pkt.data)
            if f["kind"] == "flip":
                p = int(f["pos"] * len(b)) % len(b)
                b[p] ^= f["mask"]
            elif f["kind"] == "flag":
                b[27 + (0 if f["pos"] < 0.5 else 1)] ^= 1
            elif f["kind"] == "cid":
                b[23:27] = rng.getrandbits(32).to_bytes(4, "big")
            elif f["kind"] == "inject":
                b = bytearray(pkt.data[:29] + rng.randbytes(rng.choice([1, 30, 200])))
            if bytes(b) == pkt.data:
                continue
            if f.get("mode") == "alter":
                out = bytes(b)
                state["tampered_ids"].add(pkt.id)
            else:
                inj = net.inject(pkt.src, pkt.dst, bytes(b), delay=0.0005 + f["pos"] * 0.02, label="tampered")
                state["tampered_ids"].add(inj.id)
        return out
    net.filters.append(flt)

    res: dict = {}
    crafting = {"on": False, "n": 0}

    def on_send_craft(pkt, fate) -> None:  # noqa: ANN001
        if crafting["on"]:
            state["tampered_ids"].add(pkt.id)
    net.on_send.append(on_send_craft)

    def install_reflector() -> None:
        """
        A dishonest rendezvous point: it holds the hop keys of both halves (not the end-to-end keys) and sends a copy of a relayed
        cell back into the half it came from, under its own legitimate hop layer.
        """
        from ipv8.messaging.anonymization.payload import CellPayload
        from ipv8.messaging.anonymization.tunnel import BACKWARD, FORWARD
        wanted = sorted(f["cell"] for f in faults if f["kind"] == "reflect")
        if not wanted:
            return
        for node in tw.nodes:
            ce = node.ov.crypto_endpoint
            orig = ce.relay_cell

            def relay_cell(cell, _orig=orig, _ce=ce, _node=node):  # noqa: ANN001, ANN202
                nr = _ce.relays.get(cell.circuit_id)
                if state["phase"] == "data" and nr is not None and nr.rendezvous_relay:
                    k = crafting["n"]
                    crafting["n"] += 1
                    if k in wanted and nr.circuit_id in _ce.relays:
                        dup = CellPayload(cell.circuit_id, cell.message, cell.plaintext, cell.relay_early)
                        try:
                            _ce.decrypt_cell(dup, FORWARD, nr.hop)
                            _ce.encrypt_cell(dup, BACKWARD, nr.hop)
                        except Exception:  # noqa: BLE001
                            dup = None
                        if dup is not None:
                            dup.relay_early = False
                            back = _ce.relays[nr.circuit_id].hop.address
                            world.probe("fault:reflect")
                            c.nontrivial(f"reflect/{k}")
                            crafting["on"] = True
                            try:
                                _node.call(_ce.endpoint.send, back, dup.to_bin(_ce.prefix))
                            finally:
                                crafting["on"] = False
                return _orig(cell)
            ce.relay_cell = relay_cell

    async def main() -> None:  # noqa: C901, PLR0915
        await tw.build()
        for node in tw.nodes:
            node.ov.dht_provider = StubDHT(node.my_peer)
            node.ov.settings.swarm_lookup_interval = 0
        await tw.introduce()
        d, s_ = tw.nodes[0], tw.nodes[2]
        install_reflector()
        linked = {"d": None, "s": None}
        first: dict = {}

        def send_e2e(node, who: str, payload: bytes) -> bool:  # noqa: ANN001
            ctypes = ("RP_DOWNLOADER",) if who == "d" else ("RP_SEEDER",)
            circ = next((x for x in node.ov.circuits.values() if x.ctype in ctypes and x.state == "READY"), None)
            if circ is None:
                return False
            node.call(node.ov.send_data, circ.hop.address, circ.circuit_id, ("0.0.0.0", 0), ("0.0.0.0", 0), payload)
            return True

        def mk(direction: str, size: int) -> bytes:
            marker = b"E2E%s%04d" % (direction.encode(), len(sent)) + rng.randbytes(4).hex().encode()
            shape = case.get("shape", "bt")
            if shape == "mixed":
                shape = ("bt", "ipv8", "own_prefix")[len(sent) % 3]
            head = b"d"
            if shape == "ipv8":
                head = b"\x00\x02" + rng.randbytes(20) + bytes([rng.choice([245, 246, 1, 7])])     # looks like an IPv8 packet
            elif shape == "own_prefix":
                head = d.ov.get_prefix() + bytes([rng.choice([1, 3, 10, 20])])                       # ... of the tunnel overlay itself
            if shape != "bt":
                world.probe("e2e_ipv8_shaped_payload")
            payload = head + marker + rng.randbytes(max(0, size - 1 - len(head) - len(marker))) + b"e"
            sent[payload] = (marker, direction)
            return payload

        def rp_inject() -> None:
            """The rendezvous point, right after it linked the two halves and before any end-to-end cell has travelled: a made-up data
            message into each half, under its own legitimate hop layer only (it does not hold the end-to-end keys)."""
            from ipv8.messaging.anonymization.payload import CellPayload
            from ipv8.messaging.serialization import Serializer
            ser = Serializer()
            for node in tw.nodes:
                ce = node.ov.crypto_endpoint
                rz = {cid: r for cid, r in ce.relays.items() if r.rendezvous_relay}
                for xid, nxt in rz.items():
                    yid = nxt.circuit_id
                    if yid not in rz:
                        continue
                    evil = b"d" + b"RPFORGED%08x" % yid + b"e"
                    plain = b"\x01" + ser.pack("address", ("0.0.0.0", 0)) + ser.pack("address", ("6.6.6.6", 66)) + evil
                    cell = CellPayload(yid, plain, False, False)
                    try:
                        ce.encrypt_cell(cell, 1, rz[yid].hop)
                    except Exception:  # noqa: BLE001, S112
                        continue
                    crafting["on"] = True
                    try:
                        node.call(ce.endpoint.send, nxt.hop.address, cell.to_bin(ce.prefix))
                    finally:
                        crafting["on"] = False
                    world.probe("fault:rp_inject_at_link")
                    c.nontrivial("rp_inject_at_link")

        def d_cb(addr) -> None:  # noqa: ANN001
            linked["d"] = addr
            if any(f["kind"] == "rp_inject_at_link" for f in faults):
                c.loop.call_later(0.001, rp_inject)
                c.loop.call_later(0.05, rp_inject)
            if case.get("send_in_callback") and "p" not in first:
                # an application that starts talking from inside its "circuit is ready" callback
                state["phase"] = "data"
                first["p"] = mk("d", 100)
                send_e2e(d, "d", first["p"])
                world.probe("sent_from_ready_callback")

        d.call(d.ov.join_swarm, service, 1, d_cb, False)
        s_.call(s_.ov.join_swarm, service, 1, lambda addr: linked.__setitem__("s", addr))
        s_.ov.on_raw_data = lambda circ, origin, data: got["seeder"].append((circ.circuit_id, tuple(origin), data))
        d.ov.on_raw_data = lambda circ, origin, data: got["downloader"].append((circ.circuit_id, tuple(origin), data))
        await s_.acall(s_.ov.create_introduction_point, service)
        await asyncio.sleep(2.0)
        d.call(d.ov.build_tunnels, 1)
        for _ in range(6):
            await asyncio.sleep(2.0)
            await d.acall(d.ov.do_peer_discovery)
            if linked["d"] is not None:
                break
        await asyncio.sleep(2.0)
        if linked["d"] is None:
            world.probe("e2e_not_linked")
            return
        world.probe("e2e_linked")
        state["phase"] = "data"
        for size in case["sizes"]:
            send_e2e(d, "d", mk("d", size))
            await asyncio.sleep(0.2)
            send_e2e(s_, "s", mk("s", size))
            await asyncio.sleep(0.3)
        await asyncio.sleep(3.0)
        state["phase"] = "done"
        res["ok"] = True
        res["d"], res["s"] = d, s_

    try:
        world.run(main())
    finally:
        async def down() -> None:
            await tw.teardown()
        try:
            world.run(down())
        except Exception:  # noqa: BLE001
            tw.uninstall_probes()
    if res.get("ok"):
        d, s_ = res["d"], res["s"]
        lossy = bool(faults) or bool(case["knobs"].get("loss")) or case["knobs"].get("lat_jit", 0.045) != 0 \
            or bool(case["knobs"].get("timer_jitter"))
        seen = {"d": set(), "s": set()}
        for who, lst in (("d", got["seeder"]), ("s", got["downloader"])):
            for _cid, _origin, data in lst:
                if data not in sent or sent[data][1] != who:
                    c.violate("intact_or_dropped", "altered_data_delivered_over_e2e_circuit",
                              f"{'seeder' if who == 'd' else 'downloader'} got {len(data)} bytes never sent to it: {data[:30]!r}")
                else:
                    seen[who].add(data)
                    world.probe("e2e_delivered")
                    c.nontrivial(f"e2e/{who}/{len(data)}")
        if not lossy:
            for p, (_m, who) in sent.items():
                if p not in seen[who]:
                    c.violate("delivery", "e2e_payload_not_delivered_fault_free",
                              f"{len(p)}-byte payload from the {'downloader' if who == 'd' else 'seeder'} never arrived "
                              f"(sent from the ready callback: {bool(case.get('send_in_callback'))})")
        # nobody but the two ends can read the payload: neither on the wire nor after peeling every layer the receiver has keys for
        ends = {d.name, s_.name}
        addrs = {n.address for n in tw.nodes}
        for pkt in tw.wire:
            if pkt.injected or pkt.id in state["tampered_ids"] or pkt.src not in addrs or pkt.dst not in addrs:
                continue
            raw = pkt.orig or pkt.data
            for _p, (marker, _who) in sent.items():
                if marker in raw:
                    c.violate("no_plaintext_in_transit", "plaintext_marker_on_tunnel_link",
                              f"e2e marker visible in a datagram from {pkt.src_node} to {pkt.dst}")
            rcv = tw.node_of_ip(pkt.dst[0])
            if rcv is None or rcv.name in ends or cell_parts(raw) is None:
                continue
            for _p, (marker, _who) in sent.items():
                if readers(tw, pkt, marker):
                    c.violate("e2e_layer", "intermediate_node_can_read_e2e_payload",
                              f"{rcv.name} (not an end of the e2e circuit) can peel a cell from {pkt.src_node} down to the payload "
                              f"with the session keys it holds")
                    break
            world.probe("e2e_reader_checked")
    world.trace.event("c04e2e", None, (len(sent), len(got["seeder"]), len(got["downloader"])))
    c.sample = {"kind": "e2e", "sizes": case["sizes"][:6], "faults": faults[:4], "linked": bool(res.get("ok")),
                "delivered_at_seeder": len(got["seeder"]), "delivered_at_downloader": len(got["downloader"])}
    return c.result(evaluations=max(1, len(sent)))


def execute(case: dict) -> dict:  # noqa: C901, PLR0915
    if case.get("kind") == "e2e":
        return execute_e2e(case)
    c = Case(case, net=True, first_only=False)
    world, net = c.world, c.net
    rng = world.stream("c04")
    hops = case["hops"]
    tw = TunnelWorld(c, n=hops + 3, exits=(hops + 1, hops + 2))
    sent_fwd: dict = {}     # payload -> marker
    sent_bwd: set = set()
    late_markers: list = []
    faults = case.get("faults", [])
    lossy = bool(case["knobs"].get("loss")) or bool(faults)
    state = {"phase": "build", "cells": 0, "tampered_ids": set(), "bitflips": {}}
    bodies_by_circuit: dict = {}

    def apply_fault(f: dict, data: bytes, pkt):  # noqa: ANN001, ANN202
        parts = cell_parts(data)
        kind = f["kind"]
        world.probe("fault:" + kind)
        b = bytearray(data)
        if kind == "flip":
            p = int(f["pos"] * len(b)) % len(b)
            b[p] ^= f["mask"]
            c.nontrivial(f"flip/{pkt.label}/{p}")
        elif kind == "flag":
            p = 27 + (0 if f["pos"] < 0.5 else 1)
            b[p] ^= 1
            c.nontrivial(f"flag/{pkt.label}/{p}")
        elif kind == "cid":
            others = [cid for cid in bodies_by_circuit if parts and cid != parts[0]]
            new = rng.choice(others) if others and f["pos"] < 0.7 else rng.getrandbits(32)
            b[23:27] = new.to_bytes(4, "big")
            c.nontrivial(f"cid/{pkt.label}")
        elif kind == "splice":
            others = [x for cid, lst in bodies_by_circuit.items() if parts and cid != parts[0] for x in lst]
            if not others:
                return None
            b = bytearray(data[:29] + rng.choice(others))
            c.nontrivial(f"splice/{pkt.label}")
        elif kind == "inject":
            b = bytearray(data[:29] + rng.randbytes(rng.choice([0, 1, 16, 29, 64, 300])))
            c.nontrivial(f"inject/{pkt.label}")
        elif kind == "plain_data":
            # a well-formed DataPayload that claims to be plaintext (or is simply not encrypted), towards either end
            from ipv8.messaging.serialization import Serializer
            ser = Serializer()
            evil = b"d" + b"EVIL%04d" % int(f["pos"] * 9999) + b"e"
            dest = ("9.9.9.9", 7000) if f["pos"] < 0.5 else ("0.0.0.0", 0)
            org = ("0.0.0.0", 0) if f["pos"] < 0.5 else ("9.9.9.9", 7000)
            body = b"\x01" + ser.pack("address", dest) + ser.pack("address", org) + evil
            flags = b"\x01\x00" if f["mask"] & 0x0f else b"\x00\x00"
            b = bytearray(data[:27] + flags + body)
            c.nontrivial(f"plain_data/{pkt.label}")
        return bytes(b)

    def flt(pkt):  # noqa: ANN001, ANN202
        if state["phase"] != "data" or pkt.injected:
            return None
        addrs = {n.address for n in tw.nodes}
        if pkt.src not in addrs or pkt.dst not in addrs:
            return None      # only tunnel links carry cells; the exit's outside traffic is not a cell
        parts = cell_parts(pkt.data)
        if parts is None:
            return None
        n = state["cells"]
        state["cells"] += 1
        bodies_by_circuit.setdefault(parts[0], [])
        if len(bodies_by_circuit[parts[0]]) < 8:
            bodies_by_circuit[parts[0]].append(parts[3])
        out = None
        for f in faults:
            if f.get("cell") != n:
                continue
            if f["kind"] == "sweep":
                for p in range(0, len(pkt.data), f.get("stride", 1)):
                    b = bytearray(pkt.data)
                    b[p] ^= 1 << ((p + n) % 8)
                    world.probe("fault:flip")
                    c.nontrivial(f"flip/{pkt.label}/{p}")
                    inj = net.inject(pkt.wire_src if pkt.wire_src else pkt.src, pkt.dst, bytes(b), delay=0.001 + p * 1e-5,
                                     label="tampered")
                    state["tampered_ids"].add(inj.id)
                    state["bitflips"][inj.id] = p
                continue
            m = apply_fault(f, pkt.data, pkt)
            if m is None or m == pkt.data:
                continue
            if f.get("mode") == "alter":
                out = m
                state["tampered_ids"].add(pkt.id)
            else:
                src = pkt.src if f["pos"] < 0.8 else (f"6.6.6.{1 + int(f['pos'] * 200) % 250}", 4444)
                inj = net.inject(src, pkt.dst, m, delay=0.0005 + f["pos"] * 0.05, label="tampered")
                state["tampered_ids"].add(inj.id)
        return out
    net.filters.append(flt)

    res: dict = {"circ": None, "circ2": None}

    sent_times: dict = {}
    sent_bwd_optional: set = set()     # outside answers that may or may not be delivered (sent while the exit was closing)

    async def main() -> None:  # noqa: C901, PLR0912
        from ipv8.messaging.interfaces.udp.endpoint import DomainAddress, UDPv4Address
        await tw.build()
        w = tw.add_outside("w0", "9.9.9.9", 7000)
        # the destination may be given by host name: the exit resolves it (simulated name service, seeded latency) per packet, so
        # several packets for one name are in flight inside the exit at once
        world.dns["w0.example"] = "9.9.9.9"
        w_dest = DomainAddress("w0.example", 7000) if case.get("by_name") else UDPv4Address(*w.address)
        port_b: list = []        # what a second port (7001) of the same outside host received: (t, data, src)
        res["port_b"] = port_b
        res["to_b"] = set()
        if case.get("by_name"):
            world.probe("destination_by_host_name")

            class PortB(asyncio.DatagramProtocol):
                def datagram_received(self, data, addr) -> None:  # noqa: ANN001
                    port_b.append((world.loop.time(), data, addr))
            with world.as_node("w0"):
                net.create_datagram_endpoint(PortB, ("9.9.9.9", 7001), None)
        w2 = tw.add_outside("w1", "9.9.9.10", 7001)
        await tw.introduce()
        o = tw.nodes[0]
        circ = await tw.build_circuit(o, hops)
        res["circ"] = circ
        if circ is None:
            world.probe("no_circuit")
            await tw.teardown()
            return
        world.probe(f"hops:{hops}")
        circ2 = None
        if case.get("second_circuit"):
            circ2 = await tw.build_circuit(tw.nodes[1], max(1, hops - 1) if hops > 1 else 1)
            res["circ2"] = circ2
        # open the exit's outside sockets first: data arriving while they are being created sits in a 10-slot queue
        warm = b"d" + b"warmup" + b"e"
        sent_fwd[warm] = None
        sent_bwd.add(w.reply(warm, None))
        o.call(o.ov.send_data, circ.hop.address, circ.circuit_id, UDPv4Address(*w.address), ("0.0.0.0", 0), warm)
        if circ2 is not None:
            tw.nodes[1].call(tw.nodes[1].ov.send_data, circ2.hop.address, circ2.circuit_id, UDPv4Address(*w2.address),
                             ("0.0.0.0", 0), warm)
        await asyncio.sleep(1.0)
        state["phase"] = "data"
        mk = 0
        for size in case["sizes"]:
            mk += 1
            marker = b"MK%06dx" % mk + rng.randbytes(4).hex().encode()
            fill = max(0, size - 2 - len(marker))
            payload = (b"d" + marker + rng.randbytes(fill) + b"e") if size >= 2 + len(marker) else \
                (b"d" + marker[: max(0, size - 2)] + b"e")
            payload = payload[:size] if len(payload) > size else payload
            if not payload.endswith(b"e"):
                payload = payload[:-1] + b"e"
            sent_fwd[payload] = marker if len(payload) >= 2 + len(marker) else None
            sent_times[payload] = sent_times.get(payload, 0) + 1
            dest_now = w_dest
            if case.get("by_name") and mk % 3 == 2 and sent_fwd[payload] is not None and sent_times[payload] == 1:
                # same host name, ANOTHER port (a silent listener): every packet leaves towards the port it names
                dest_now = DomainAddress("w0.example", 7001)
                res["to_b"].add(payload)
                world.probe("same_host_name_other_port")
            else:
                sent_bwd.add(w.reply(payload, None))
            o.call(o.ov.send_data, circ.hop.address, circ.circuit_id, dest_now, ("0.0.0.0", 0), payload)
            if circ2 is not None and circ2.state == "READY":
                p2 = b"d" + b"C2%06d" % mk + rng.randbytes(20) + b"e"
                tw.nodes[1].call(tw.nodes[1].ov.send_data, circ2.hop.address, circ2.circuit_id, UDPv4Address(*w2.address),
                                 ("0.0.0.0", 0), p2)
            await asyncio.sleep(rng.choice([0.0, 0.05, 0.3]))
        if circ.state == "READY":
            fut = o.call(o.ov.send_test_request, circ, 64, 128)
            try:
                data, _rtt = await asyncio.wait_for(fut, 5)
                if len(data) == 128:
                    world.probe("speedtest_ok")
            except (asyncio.TimeoutError, Exception):  # noqa: BLE001
                world.probe("speedtest_failed")
        await asyncio.sleep(9.0)     # covers a ping round
        srcs0 = sorted({src for _t, _d, src in w.received})
        if srcs0 and circ.state == "READY":
            # the outside host answers with a datagram that LOOKS like a data message of the tunnel overlay itself, naming the circuit
            # (its id is in the clear in every cell header) and carrying made-up content and origin: it holds no session key
            from ipv8.messaging.serialization import Serializer
            ser = Serializer()
            nested = o.ov.get_prefix() + b"\x01" + circ.circuit_id.to_bytes(4, "big") + ser.pack("address", ("0.0.0.0", 0)) + \
                ser.pack("address", ("6.6.6.6", 66)) + b"d" + b"NESTEDEVIL" + rng.randbytes(4).hex().encode() + b"e"
            for src in srcs0:
                w.transport.sendto(nested, src)
            world.probe("nested_data_message_from_outside")
            await asyncio.sleep(1.0)
        if case.get("exit_removes"):
            # the exit gives its side up on its own (as its sweep does for an old circuit) and the outside host answers once more
            # during the removal grace period: whatever still travels back must travel encrypted
            path_now = tw.path_of(o, circ)
            x = path_now[-1] if len(path_now) == hops else None
            srcs = sorted({src for _t, _d, src in w.received})
            if x is not None and srcs:
                for cid in list(x.ov.exit_sockets):
                    x.call(x.ov.remove_exit_socket, cid, "c04: exit gives up", destroy=0)
                await asyncio.sleep(1.0)
                for k in range(2):
                    lm = b"LATE%04dx" % k + rng.randbytes(4).hex().encode()
                    late_markers.append(lm)
                    lp = b"d" + lm + rng.randbytes(40) + b"e"
                    sent_bwd.add(lp)
                    for src in srcs:
                        w.transport.sendto(lp, src)
                    world.probe("outside_answer_during_removal_grace_period")
                    await asyncio.sleep(1.0)
                await asyncio.sleep(1.0)
        if case.get("removal_during_lookup"):
            # the exit gives the circuit up (no grace period configured) while it is still waiting for a name lookup made for that
            # circuit; closing the exit socket has to wait for the lookup, and the outside host keeps answering meanwhile: nothing
            # of what it sends may appear in the clear on a tunnel link
            path_now = tw.path_of(o, circ)
            x = path_now[-1] if len(path_now) == hops else None
            srcs = sorted({src for _t, _d, src in w.received})
            if x is not None and srcs and circ.state == "READY":
                world.dns["slow.example"] = "9.9.9.9"
                world.knobs["dns_latency"] = (2.5, 2.5)
                slow = b"d" + b"SLOW%04dx" % 1 + rng.randbytes(4).hex().encode() + b"e"
                sent_times[slow] = 1
                o.call(o.ov.send_data, circ.hop.address, circ.circuit_id, DomainAddress("slow.example", 7000), ("0.0.0.0", 0), slow)
                await asyncio.sleep(0.4)
                x.ov.settings.remove_tunnel_delay = 0
                outs = [t2 for t2 in net.all_transports if t2.owner == x.name and t2.port != x.port and not t2.closed]
                for cid in list(x.ov.exit_sockets):
                    x.call(x.ov.remove_exit_socket, cid, "c04: exit gives up during a lookup", destroy=0)
                # answers that reach the exit's outside socket in the very loop iterations in which the entry is already gone and
                # the socket not yet closed
                for k, d in enumerate((0.0, 1e-9, 1e-7, 1e-6, 1e-5, 1e-4, 1e-3, 0.01, 0.1, 0.5)):
                    lm = b"INWINDOW%02dx" % k + rng.randbytes(4).hex().encode()
                    late_markers.append(lm)
                    lp = b"d" + lm + rng.randbytes(30) + b"e"
                    sent_bwd_optional.add(lp)
                    for t2 in outs:
                        if t2.family != 10 and ":" not in str(t2.addr[0]):
                            net.inject(tuple(w.address), t2.addr, lp, delay=d, label="outside_late")
                    world.probe("outside_answer_while_exit_socket_is_closing")
                await asyncio.sleep(4.0)
        state["phase"] = "done"
        await asyncio.sleep(1.0)
        res["w"] = w
        res["o"] = o
        res["path"] = tw.path_of(o, circ)
        res["keys"] = [h.keys for h in circ.hops]
        res["cid"] = circ.circuit_id
        await tw.teardown()

    world.run(main())
    circ = res["circ"]
    if circ is None:
        c.sample = {"note": "circuit could not be built", "hops": hops}
        return c.result()
    w, o, path, keys = res["w"], res["o"], res["path"], res["keys"]
    exit_node = path[-1]
    # ---- (3) + (1): deliveries at the outside server
    seen_fwd = set()
    for _t, data, _src in res.get("port_b", ()):
        if data in res["to_b"]:
            seen_fwd.add(data)
        elif data in sent_fwd:
            c.violate("right_destination", "payload_left_exit_towards_other_port",
                      f"a {len(data)}-byte payload addressed to w0.example:7000 arrived at port 7001 of that host")
    for _t, data, _src in w.received:
        if data in res.get("to_b", ()):
            c.violate("right_destination", "payload_left_exit_towards_other_port",
                      f"a {len(data)}-byte payload addressed to w0.example:7001 arrived at port 7000 of that host")
    if not lossy and not case["faults"] and not case["knobs"].get("dup"):
        # nothing duplicates datagrams in this run: every payload went into the circuit once and may leave the exit once
        cnt: dict = {}
        for _t, data, _src in w.received:
            cnt[data] = cnt.get(data, 0) + 1
        for data, k in cnt.items():
            if data in sent_times and k > sent_times[data]:
                c.violate("intact_or_dropped", "payload_left_exit_more_often_than_sent",
                          f"a {len(data)}-byte payload sent {sent_times[data]} time(s) arrived {k} times at the outside server: {data[:24]!r}")
    for _t, data, src in w.received:
        if data not in sent_fwd:
            c.violate("intact_or_dropped", "altered_data_left_exit",
                      f"outside server received {len(data)} bytes that were never sent: {data[:40]!r}")
            import os
            if os.environ.get("C04_DEBUG"):
                wp = next(p for p in tw.wire if p.data == data and p.dst == w.address)
                for q in tw.chain(wp):
                    print("   chain", q.id, q.src_node, q.dst, q.label, len(q.data), "inj" if q.injected else "", "ALT" if q.orig else "", q.id in state["tampered_ids"], q.fate)
            continue
        seen_fwd.add(data)
        world.probe("delivered_forward")
        c.nontrivial(f"fwd/{hops}/{len(data)}")
        if exit_node is not None and src[0] != exit_node.ip:
            c.violate("right_exit", "data_left_through_wrong_node", f"payload arrived from {src}, exit is {exit_node.ip}")
    seen_bwd = set()
    for name, cid, origin, data in tw.delivered_raw:
        if name != o.name:
            if name == "n1" and res.get("circ2") is not None:
                continue
            c.violate("right_originator", "reply_delivered_at_other_node", f"{name} got raw data of circuit {cid}")
            continue
        if data in sent_bwd_optional:
            continue
        if data not in sent_bwd:
            c.violate("intact_or_dropped", "altered_data_reached_originator",
                      f"originator got {len(data)} bytes that the outside server never sent: {data[:40]!r}")
            continue
        seen_bwd.add(data)
        world.probe("delivered_backward")
        c.nontrivial(f"bwd/{hops}/{len(data)}")
        if origin != w.address or cid != res["cid"]:
            c.violate("attribution", "reply_wrong_origin_or_circuit", f"origin {origin} circuit {cid} (expected {w.address}, "
                      f"{res['cid']})")
    if not lossy and case["knobs"].get("lat_jit", 0.045) == 0 and not case["knobs"].get("timer_jitter"):
        # (links are FIFO only without latency / timer jitter; when cells overtake each other a relay legitimately drops a late
        #  relay_early cell, which is loss, not corruption)
        for p in sent_fwd:
            if p not in seen_fwd:
                c.violate("delivery", "payload_not_delivered_fault_free", f"{len(p)}-byte payload never reached the outside server")
                import os
                if os.environ.get("C04_DEBUG"):
                    for q in tw.wire:
                        if q.src_node in ("n0",) and q.label == "DataPayload":
                            def show(q, ind=0):
                                print("   " + " " * ind, q.id, "%.4f" % q.t, q.src_node, q.dst, q.label, len(q.data), q.fate, cell_parts(q.data)[:3] if cell_parts(q.data) else None)
                                for d in tw.descendants(q): show(d, ind + 2)
                            show(q)
        for p in sent_bwd:
            if p not in seen_bwd:
                c.violate("delivery", "reply_not_delivered_fault_free", f"{len(p)}-byte reply never reached the originator")
    # ---- (2) layering on the wire
    tunnel_addrs = {n.address for n in tw.nodes}
    link_bodies: dict = {}
    for pkt in tw.wire:
        if pkt.injected or pkt.id in state["tampered_ids"]:
            continue
        parts = cell_parts(pkt.orig or pkt.data)
        if pkt.dst in tunnel_addrs and pkt.src in tunnel_addrs:
            raw = pkt.orig or pkt.data
            for marker in [*sent_fwd.values(), *late_markers]:
                if marker and marker in raw:
                    c.violate("no_plaintext_in_transit", "plaintext_marker_on_tunnel_link",
                              f"marker visible in a datagram from {pkt.src_node} to {pkt.dst} (label {pkt.label})")
            if parts and parts[3] and not parts[1]:
                prev = link_bodies.get(parts[3])
                if prev is not None and prev != (pkt.src_node, pkt.dst) and not pkt.dup:
                    c.violate("distinct_ciphertext", "same_ciphertext_on_two_links",
                              f"cell body of {len(parts[3])} bytes seen on {prev} and on {(pkt.src_node, pkt.dst)}")
                link_bodies.setdefault(parts[3], (pkt.src_node, pkt.dst))
    # who can read: a relay (any node of the path but the exit) must not be able to peel a cell down to the payload with the
    # session keys it holds
    relay_names = {n.name for n in path[:-1] if n is not None}
    markers = [m for m in sent_fwd.values() if m]
    for pkt in tw.wire:
        if pkt.injected or pkt.id in state["tampered_ids"] or pkt.dst not in tunnel_addrs or pkt.src not in tunnel_addrs:
            continue
        rcv = tw.node_of_ip(pkt.dst[0])
        if rcv is None or rcv.name not in relay_names or cell_parts(pkt.orig or pkt.data) is None:
            continue
        world.probe("plain_reader_checked")
        if any(readers(tw, pkt, m) for m in markers[:6]):
            c.violate("layering", "relay_can_read_payload",
                      f"relay {rcv.name} can peel a cell from {pkt.src_node} down to the payload with the session keys it holds")
            break
    FORWARD, BACKWARD = 0, 1
    for pkt in tw.wire:
        if pkt.label != "DataPayload" or pkt.injected or pkt.orig is not None or pkt.id in state["tampered_ids"]:
            continue
        parts = cell_parts(pkt.data)
        if parts is None:
            continue
        if pkt.src_node == o.name and parts[0] == res["cid"]:
            # forward chain: O -> hop1 -> ... -> exit -> outside
            cur, body, ok = pkt, parts[3], True
            for i, k in enumerate(keys):
                try:
                    inner = k.decrypt_str(body, FORWARD)
                except Exception as e:  # noqa: BLE001
                    c.violate("layering", "forward_layer_does_not_peel", f"body on link {i} does not decrypt under hop {i + 1}: {e}")
                    ok = False
                    break
                if i + 1 < len(keys):
                    nxt = [d for d in tw.descendants(cur) if cell_parts(d.orig or d.data) and d.src_node == path[i].name
                           and d.dst == path[i + 1].address]
                    if not nxt or cur.orig is not None:
                        ok = False
                        break     # lost / dropped by the relay / altered in flight on the way to this relay
                    nb = cell_parts(nxt[0].orig or nxt[0].data)[3]
                    if nb != inner:
                        import os
                        if os.environ.get("C04_DEBUG"):
                            print("  cur", cur.id, cur.src_node, cur.dst, cur.label, cur.dup, "desc", [(d.id, d.src_node, d.dst, d.label, d.dup, d.orig is not None, len(d.data)) for d in tw.descendants(cur)])
                        c.violate("layering", "forward_next_link_not_one_layer_less",
                                  f"link {i + 1} body is not link {i} body minus one layer (hop {i + 1})")
                        ok = False
                        break
                    cur, body = nxt[0], nb
                else:
                    if inner[:1] != b"\x01":
                        c.violate("layering", "forward_innermost_not_data", f"innermost plaintext starts with {inner[:1]!r}")
                        ok = False
            if ok:
                world.probe("layer_checked_forward")
        elif pkt.dst == o.address and parts[0] == res["cid"] and len(keys) >= 1 and pkt.src_node == path[0].name:
            # backward chain, walked from the originator's end: [exit cell, relay cell, ..., this cell]
            cells = [p for p in tw.chain(pkt) if cell_parts(p.orig or p.data) and p.label == "DataPayload"
                     and p.src_node in {n.name for n in path}]
            cells = cells[-len(keys):]
            if len(cells) != len(keys) or any(p.orig is not None or p.id in state["tampered_ids"] for p in cells):
                continue
            chain = [cell_parts(p.data)[3] for p in cells]       # chain[0]: exit's body (1 layer) ... chain[-1]: n layers
            ok = True
            try:
                for idx in range(len(chain) - 1, 0, -1):
                    hop_i = len(keys) - 1 - idx                   # the relay that added this layer
                    if keys[hop_i].decrypt_str(chain[idx], BACKWARD) != chain[idx - 1]:
                        c.violate("layering", "backward_link_not_one_layer_more",
                                  f"body sent by hop {hop_i + 1} is not the body it received plus one layer")
                        ok = False
                        break
                if ok:
                    inner = keys[-1].decrypt_str(chain[0], BACKWARD)
                    if inner[:1] != b"\x01":
                        c.violate("layering", "backward_innermost_not_data", f"starts with {inner[:1]!r}")
                    else:
                        world.probe("layer_checked_backward")
            except Exception as e:  # noqa: BLE001
                c.violate("layering", "backward_layer_does_not_peel", str(e))
    # a copy of a genuine cell with ONE bit flipped in the overlay prefix is dropped by whoever receives it: that node sends nothing
    # because of it (a flip further back may legitimately travel on: a relay cannot authenticate what it merely wraps in one more
    # layer, the END of the circuit drops it - that is what the delivery oracles above check)
    for pid, pos in sorted(state["bitflips"].items()):
        if pos >= 22:
            continue
        caused = [q for q in tw.wire if q.cause == pid]
        if caused:
            q = caused[0]
            c.violate("intact_or_dropped", "altered_cell_was_processed:prefix",
                      f"a cell with one bit flipped at byte {pos} (overlay prefix) made {q.src_node} send {len(q.data)} bytes to {q.dst} ({q.label})")
            break
    if state["tampered_ids"]:
        world.probe("tampered_dropped", len(state["tampered_ids"]))
    world.trace.event("c04", None, (len(w.received), len(tw.delivered_raw), len(state["tampered_ids"])))
    c.sample = {"hops": hops, "sizes": case["sizes"][:8], "faults": faults[:5], "delivered_forward": len(seen_fwd),
                "delivered_backward": len(seen_bwd), "tampered_cells": len(state["tampered_ids"]),
                "path": [n.name if n else None for n in path]}
    return c.result(evaluations=max(1, len(sent_fwd) + len(state["tampered_ids"])))
