"""
C01 - signed handlers run only for authentic, untampered datagrams.

For every overlay class shipped, a scripted multi-node run of the real protocol (props/overlay_scenarios.py) is
executed on SimNet.  An on-path adversary sits at the delivery point: just before a genuine datagram d is handed to the
receiver (whose request caches are armed for it) it first hands the receiver mutated versions m(d).  Authenticity is
decided by the harness from the wire format and the Rust primitive only.
"""
from __future__ import annotations

import itertools
import random
import struct

from simkit import probes
from simkit.boot import CAUSE
from simkit.scenario import Case

from .overlay_scenarios import SCENARIOS

PROPERTY = "C01"
LEVEL = "exploration"
BUDGET = {"quick": 35, "thorough": 480}
CHUNK = 2
CASE_WALL = {"quick": 120, "thorough": 600}
ENUMERATED = {"quick": False, "thorough": False}
RULE = ("case = (overlay scenario, seed, key curve, mutation plan). sample plan: each genuine delivery is preceded with "
        "probability p by seeded mutants (bit flip, truncation, extension, key substitution, foreign signature under the "
        "victim's key, full re-sign by adversary, signature strip, payload splice, msg-id swap, prefix swap, spoofed "
        "source, verbatim replay). sweep plan (thorough + part of quick): for one (overlay, msg id) every byte position "
        "x masks of the first/second genuine datagram of that type. Non-trivial = a mutant that reached signature "
        "verification (right prefix, registered msg id of a signed type, parsable key); distinct by (overlay, msg id, "
        "mutation kind, byte position).")
COMPONENTS = {"real": ["all shipped overlay classes with their handlers", "ipv8.lazy_community decorators", "Serializer",
                       "UDPEndpoint on SimNet", "Network", "RequestCache", "Rust signature primitives (oracle uses them too)"],
              "stub": ["UDP/IP (SimNet)", "wall clock", "OS RNG"]}
ASSUMPTIONS = ["Ed25519 / ECDSA verification in ipv8_rust_tunnels is trusted (it is also the oracle's primitive)",
               "a message type counts as authenticated when honest nodes emit it with a valid trailing signature"]
REACH = ["mutant_reached_verification", "authentic_handler_entries", "kind:flip", "kind:keysub", "kind:foreign_sig",
         "kind:resign_own", "kind:splice", "kind:spoof_src", "kind:strip_sig", "kind:msgid_swap", "kind:truncate",
         "kind:extend", "kind:replay", "verified_peer_dropped_before_mutant"]

SCN_NAMES = ["community", "discovery", "dht", "dhtdiscovery", "tunnel", "hidden", "pex", "attestation", "identity"]
KINDS = ["flip", "flip", "flip", "truncate", "extend", "keysub", "foreign_sig", "resign_own", "strip_sig", "splice",
         "msgid_swap", "prefix_swap", "spoof_src", "replay"]


def cases(tier: str, base_seed: int):  # noqa: ANN201
    # sweeps first: one per (scenario, occurrence)
    n = 0
    for curve in ("curve25519", "medium"):
        for scn in SCN_NAMES:
            n += 1
            if curve != "curve25519" and scn not in ECDSA_OK:
                continue   # circuits need X25519 keys; token/value hashes make the other flows depend on random ECDSA bytes
            yield {"scenario": scn, "seed": base_seed + n, "curve": curve, "plan": {"mode": "none"},
                   "knobs": {} if curve == "curve25519" else {"trace_payload_hash": False}}
    # five overlays multiplexed on one endpoint; "tunnel" = the endpoint is wrapped in a TunnelEndpoint (what ipv8_service does when an
    # overlay asks for anonymity), under which every overlay is offered every datagram: a datagram signed for overlay A must not enter B
    for k, ep_kind in enumerate(("tunnel", "udp")):
        n += 1
        yield {"scenario": "multi", "seed": base_seed + n, "knobs": {}, "curve": "curve25519", "ep_kind": ep_kind,
               "plan": {"mode": "sample", "p": 0.15, "per": 1}}
    for occ in ((0, 1) if tier == "quick" else (0, 1, 2, 3)):
        for scn in SCN_NAMES:
            n += 1
            yield {"scenario": scn, "seed": base_seed + n, "knobs": {}, "curve": "curve25519", "drop": occ % 2 == 1,
                   "plan": {"mode": "sweep", "occurrence": occ, "stride": 7 if tier == "quick" else 1,
                            "masks": [1, 0x80] if tier == "quick" else [1, 2, 4, 8, 16, 32, 64, 128, 255]}}
    for i in itertools.count():
        seed = base_seed + 1000 + i
        rng = random.Random(f"c01/{seed}")
        curve = rng.choice(["curve25519", "curve25519", "curve25519", "medium", "very-low"])
        if SCN_NAMES[i % len(SCN_NAMES)] not in ECDSA_OK:
            curve = "curve25519"
        knobs = {"lat_jit": rng.choice([0.0, 0.01, 0.05]), "dup": rng.choice([0.0, 0.0, 0.05]),
                 "timer_jitter": rng.choice([0.0, 0.001])}
        if curve != "curve25519":
            knobs["trace_payload_hash"] = False
        if i % 12 == 11:
            yield {"scenario": "multi", "seed": seed, "knobs": {k: v for k, v in knobs.items() if k != "trace_payload_hash"},
                   "curve": "curve25519", "ep_kind": rng.choice(["tunnel", "tunnel", "udp"]),
                   "plan": {"mode": "sample", "p": rng.choice([0.1, 0.3]), "per": 1}}
            continue
        yield {"scenario": SCN_NAMES[i % len(SCN_NAMES)], "seed": seed, "knobs": knobs, "curve": curve, "drop": (i // 9) % 3 == 1,
               "plan": {"mode": "sample", "p": rng.choice([0.15, 0.3, 0.6]), "per": rng.choice([1, 2, 4])}}


# ------------------------------------------------------------------------------------------------ wire analysis
def analyse(data: bytes):  # noqa: ANN201
    """(authentic?, key bytes or None) decided from the wire format only."""
    from ipv8.keyvault.crypto import default_eccrypto
    if len(data) < 25:
        return False, None
    (klen,) = struct.unpack_from(">H", data, 23)
    key = data[25:25 + klen]
    if len(key) != klen or klen == 0:
        return False, None
    try:
        pk = default_eccrypto.key_from_public_bin(key)
        siglen = pk.get_signature_length()
        if len(data) < 25 + klen + siglen:
            return False, key
        ok = bool(pk.verify(data[-siglen:], data[:-siglen]))
    except Exception:  # noqa: BLE001
        return False, None
    return ok, key


ECDSA_OK = ("community", "discovery", "pex")   # flows that do not branch on (randomised) ECDSA signature bytes


def _missing(expect: tuple, entered: set) -> list:
    return [e for e in expect if not any(alt in entered for alt in e.split("|"))]


def execute(case: dict) -> dict:  # noqa: C901, PLR0915
    from ipv8.keyvault.crypto import default_eccrypto
    from ipv8.peer import Peer
    from ipv8.peerdiscovery.network import Network

    if case.get("ep_kind") == "tunnel" and case.get("scenario") == "multi" and "offer_all" not in case:
        # behind the TunnelEndpoint the overlays are also registered as plain listeners: every overlay is offered every datagram
        case = dict(case, offer_all=True)
    c = Case(case, net=True, first_only=False)
    world, net = c.world, c.net
    scn = SCENARIOS[case["scenario"]]
    plan = case["plan"]
    rng = world.stream("adversary")
    adv_key = None
    emitted: dict = {}        # (prefix, msgid) -> [n authentic, n total] from honest senders
    entries: list = []        # handler entries: dict
    mutants: dict = {}        # id -> record
    peer_adds: list = []      # (cause, key)
    nets_of: dict = {}        # node name -> Network objects of that node
    sends_by_cause: dict = {}
    captured: dict = {}       # type -> list of datagrams seen
    seen_count: dict = {}
    state = {"cur": None, "mid": 0, "busy": False}
    sweep_done: set = set()

    # ---- probes
    def on_entry(ov, fn, dec, data, poa, args) -> None:  # noqa: ANN001
        if data is None:
            return
        auth, key = analyse(data)
        pk = poa.public_key.key_to_bin() if isinstance(poa, Peer) else None
        entries.append({"ov": type(ov).__name__, "fn": fn, "dec": dec, "type": (data[:22], data[22]), "auth": auth,
                        "key": key, "peer_key": pk, "mut": state["cur"], "len": len(data), "ov_prefix": ov.get_prefix()})
    probes.on_handler_entry.append(on_entry)

    orig_add = Network.add_verified_peer

    def add_verified_peer(self, peer) -> None:  # noqa: ANN001
        known = peer.public_key.key_to_bin() in self.verified_by_public_key_bin
        orig_add(self, peer)
        if not known and peer.public_key.key_to_bin() in self.verified_by_public_key_bin:
            peer_adds.append((CAUSE.get(), peer.public_key.key_to_bin()))
    Network.add_verified_peer = add_verified_peer

    def on_send(pkt, fate) -> None:  # noqa: ANN001
        if pkt.injected or len(pkt.data) < 23:
            return
        if isinstance(pkt.cause, tuple):
            sends_by_cause.setdefault(pkt.cause, []).append(pkt.data[22])
            return      # caused by a mutant: not honest-sender evidence
        t = (pkt.data[:22], pkt.data[22])
        a, _ = analyse(pkt.data)
        e = emitted.setdefault(t, [0, 0])
        e[0] += 1 if a else 0
        e[1] += 1
    net.on_send.append(on_send)

    # ---- mutation
    def mutate(kind: str, d: bytes, typ: tuple, rng) -> tuple | None:  # noqa: ANN001, C901, PLR0911
        auth, key = analyse(d)
        if kind == "flip":
            p = rng.randrange(len(d))
            b = bytearray(d)
            b[p] ^= 1 << rng.randrange(8)
            return bytes(b), None, p
        if kind == "truncate":
            n = rng.choice([rng.randrange(len(d)), len(d) - 1, len(d) - 2, 23, 25])
            return d[:max(0, n)], None, n
        if kind == "extend":
            return d + rng.randbytes(rng.choice([1, 2, 16, 64])), None, None
        if kind == "replay":
            return d, None, None
        if kind == "spoof_src":
            return d, "spoof", None
        if kind == "msgid_swap":
            b = bytearray(d)
            b[22] = rng.choice([i for i in range(256) if i != d[22]]) if rng.random() < 0.3 else \
                rng.choice(sorted({t[1] for t in captured}) or [0])
            return bytes(b), None, 22
        if kind == "prefix_swap":
            b = bytearray(d)
            b[2 + rng.randrange(20)] ^= 0xff
            return bytes(b), None, None
        if key is None or not auth:
            return None
        klen = len(key)
        pk = default_eccrypto.key_from_public_bin(key)
        siglen = pk.get_signature_length()
        advpub = adv_key.pub().key_to_bin()
        if kind == "keysub":
            if len(advpub) != klen:
                return None
            return d[:25] + advpub + d[25 + klen:], None, None
        if kind == "foreign_sig":
            body = d[:-siglen]
            sig = adv_key.signature(body)
            return body + sig[:siglen].ljust(siglen, b"\0"), None, None
        if kind == "resign_own":
            body = d[:23] + struct.pack(">H", len(advpub)) + advpub + d[25 + klen:-siglen]
            return body + adv_key.signature(body), None, None
        if kind == "strip_sig":
            return d[:-siglen], None, None
        if kind == "splice":
            others = [x for x in captured.get(typ, []) if x != d and analyse(x)[0]]
            if not others:
                return None
            o = rng.choice(others)
            okey = analyse(o)[1]
            osig = default_eccrypto.key_from_public_bin(okey).get_signature_length()
            return d[:25 + klen] + o[25 + len(okey):-osig] + d[-siglen:], None, None
        return None

    def deliver_mutant(kind: str, data: bytes, src, tr, pos) -> None:  # noqa: ANN001
        state["mid"] += 1
        mid = ("mut", state["mid"])
        auth, key = analyse(data)
        typ = (data[:22], data[22]) if len(data) > 22 else (data[:22], None)
        mutants[mid] = {"kind": kind, "auth": auth, "key": key, "type": typ, "node": tr.host.name, "pos": pos,
                        "len": len(data)}
        world.probe("kind:" + kind)
        ctx = world.node_context(tr.host.name, mid)

        def peer_state() -> dict:
            out = {}
            for nw in nets_of.get(tr.host.name, ()):
                for p in nw.verified_peers:
                    out[(id(nw), p.public_key.key_to_bin())] = tuple(sorted((k.__name__, tuple(v)) for k, v in p.addresses.items()))
            return out

        def hand() -> None:
            state["cur"] = mid
            if not auth and case.get("drop") and rng.random() < 0.5:
                # history: the churn has just dropped the verified peer at this address (Network.remove_peer is what RandomChurn
                # calls after its unanswered pings); the datagram without a valid signature arrives from that address right after
                for nw in nets_of.get(tr.host.name, ()):
                    for p in [p for p in list(nw.verified_peers) if tuple(src) in {tuple(a) for a in p.addresses.values()}]:
                        nw.remove_peer(p)
                        world.probe("verified_peer_dropped_before_mutant")
            before = None if auth else peer_state()
            try:
                tr.proto.datagram_received(data, src)
            except Exception as e:  # noqa: BLE001
                world.probe("mutant_raised_out_of_receive:" + type(e).__name__)   # C03's business
            finally:
                state["cur"] = None
            if before is not None:
                # the synchronous part of handling a datagram WITHOUT a valid signature must leave every verified-peer entry alone
                after = peer_state()
                for k2, addrs in before.items():
                    if k2 not in after:
                        c.violate("no_effect", "non_authentic_removed_verified_peer",
                                  f"non-authentic datagram ({kind} pos={pos} type={typ[1]}) from {src} made the node forget verified peer "
                                  f"..{k2[1].hex()[-16:]}")
                        break
                    if after[k2] != addrs:
                        c.violate("no_effect", "non_authentic_changed_verified_peer_address",
                                  f"non-authentic datagram ({kind} pos={pos} type={typ[1]}) from {src} changed the addresses of verified "
                                  f"peer ..{k2[1].hex()[-16:]} from {addrs} to {after[k2]}")
                        break
                for k2 in after:
                    if k2 not in before:
                        c.violate("no_effect", "non_authentic_added_verified_peer",
                                  f"non-authentic datagram ({kind} pos={pos} type={typ[1]}) from {src} put ..{k2[1].hex()[-16:]} into the "
                                  f"verified peers")
                        break
                world.probe("verified_peer_entries_compared")
        if auth:
            # authentic (replay, spoofed source, adversary's own message): legitimately state-changing, so it goes after
            # the genuine datagram instead of in front of it
            c.loop.call_soon(hand, context=ctx)
        else:
            ctx.run(hand)

    def on_deliver(pkt, tr) -> None:  # noqa: ANN001
        if pkt.injected or state["busy"] or len(pkt.data) < 23:
            return
        d = pkt.data
        typ = (d[:22], d[22])
        captured.setdefault(typ, [])
        if len(captured[typ]) < 6 and d not in captured[typ]:
            captured[typ].append(d)
        k = seen_count[typ] = seen_count.get(typ, 0) + 1
        state["busy"] = True
        try:
            if plan["mode"] == "sweep":
                auth, key = analyse(d)
                if auth and k - 1 == plan["occurrence"] and typ not in sweep_done:
                    sweep_done.add(typ)
                    for p in range(0, len(d), plan["stride"]):
                        for m in plan["masks"]:
                            b = bytearray(d)
                            b[p] ^= m
                            deliver_mutant("flip", bytes(b), pkt.wire_src, tr, p)
                    for n in range(0, len(d), max(1, plan["stride"] // 2)):
                        deliver_mutant("truncate", d[:n], pkt.wire_src, tr, n)
                    for kind in ("keysub", "foreign_sig", "resign_own", "strip_sig", "splice", "extend", "spoof_src",
                                 "msgid_swap", "replay"):
                        _one(kind, d, typ, pkt, tr)
            elif plan["mode"] == "sample" and rng.random() < plan["p"]:
                for _ in range(plan["per"]):
                    _one(rng.choice(KINDS), d, typ, pkt, tr)
        finally:
            state["busy"] = False

    def _one(kind, d, typ, pkt, tr) -> None:  # noqa: ANN001
        m = mutate(kind, d, typ, rng)
        if m is None:
            return
        data, spoof, pos = m
        src = pkt.wire_src
        if spoof:
            others = sorted({h.ip for h in net.hosts.values()} - {src[0], tr.host.ip})
            if not others:
                return
            src = (rng.choice(others), src[1])
        deliver_mutant(kind, data, src, tr, pos)

    # ---- run
    async def main() -> None:
        nonlocal adv_key
        orig_curve = case.get("curve", "curve25519")
        import simkit.node as nodemod
        orig_init = nodemod.SimNode.__init__

        def init(self, world, name, ip, port=8090, nat=None, ip6=None, curve="curve25519") -> None:  # noqa: ANN001
            orig_init(self, world, name, ip, port, nat, ip6, {"medium": "medium", "very-low": "very-low"}.get(orig_curve, curve))
        nodemod.SimNode.__init__ = init
        try:
            nodes = await scn.build(c)
            for nd in nodes:
                nets_of[nd.name] = [nd.network] + [o.network for o in getattr(nd, "overlays", []) if getattr(o, "network", None) is not None]
        finally:
            nodemod.SimNode.__init__ = orig_init
        adv_key = default_eccrypto.generate_key(orig_curve)
        net.on_deliver.append(on_deliver)
        for _attempt in range(4 if plan["mode"] == "none" else 1):
            await scn.script(c, nodes)
            # protocol-internal random choices (whom to introduce, which path) decide what one pass exercises
            if not _missing(scn.expect_handlers, {e["fn"] for e in entries}):
                break
        net.on_deliver.remove(on_deliver)
        await scn.teardown(nodes)

    try:
        world.run(main())
    finally:
        Network.add_verified_peer = orig_add

    # ---- oracles
    signed_types = {t for t, (a, n) in emitted.items() if n > 0 and a == n}
    names = {}
    for e in entries:
        names.setdefault(e["type"], e["fn"])
    for e in entries:
        if e["ov_prefix"] != e["type"][0]:
            # the signature covers the prefix: a datagram made for overlay A (replayed or simply offered to every listener) entering a
            # handler of overlay B attributes something to its signer that the signer never said to B
            c.violate("authentic_only", f"handler_entered_for_other_overlays_datagram:{e['ov']}.{e['fn']}",
                      f"{e['ov']}.{e['fn']} entered for a datagram carrying the prefix {e['type'][0].hex()[-12:]} of another overlay "
                      f"(own prefix ..{e['ov_prefix'].hex()[-12:]})")
            continue
        if e["type"] not in signed_types:
            continue
        tag = f"{e['ov']}.{e['fn']}"
        if e["dec"] in ("lazy_wrapper_unsigned", "lazy_wrapper_unsigned_wd"):
            c.violate("signed_only", f"signed_type_in_unsigned_handler:{tag}",
                      f"message type {e['type'][1]} is emitted signed but {tag} is entered through {e['dec']}")
            continue
        if not e["auth"]:
            m = mutants.get(e["mut"], {})
            c.violate("authentic_only", f"handler_entered_for_non_authentic:{tag}",
                      f"{tag} entered for a datagram without valid signature (mutation {m.get('kind')} pos={m.get('pos')} "
                      f"len={e['len']})")
        elif e["peer_key"] != e["key"]:
            c.violate("identity", f"handler_peer_is_not_datagram_key:{tag}",
                      f"{tag}: peer handed to handler has key ..{(e['peer_key'] or b'').hex()[-16:]} but datagram carries "
                      f"..{(e['key'] or b'').hex()[-16:]}")
        else:
            world.probe("authentic_handler_entries")
    caused_adds = {}
    for cause, key in peer_adds:
        if isinstance(cause, tuple):
            caused_adds.setdefault(cause, []).append(key)
    for mid, m in mutants.items():
        registered = m["type"] in emitted
        if m["type"] in signed_types and m["key"] is not None:
            world.probe("mutant_reached_verification")
            c.nontrivial(f"{case['scenario']}/{m['type'][1]}/{m['kind']}/{m['pos']}")
        if m["auth"]:
            # authentic mutants (replays, adversary's own fully signed message): any verified-peer entry they cause must be
            # for the key in the datagram
            for key in caused_adds.get(mid, []):
                if key != m["key"]:
                    c.violate("identity", "verified_peer_for_other_key",
                              f"authentic datagram of key {m['key'].hex()[:16]} caused verified peer {key.hex()[:16]}")
            continue
        if caused_adds.get(mid):
            c.violate("no_effect", "non_authentic_added_verified_peer",
                      f"non-authentic datagram ({m['kind']} pos={m['pos']} type={m['type'][1]}) added verified peer "
                      f"{caused_adds[mid][0].hex()[:16]}")
        if m["type"] in signed_types and sends_by_cause.get(mid):
            c.violate("no_effect", f"non_authentic_caused_send:{names.get(m['type'], m['type'][1])}",
                      f"non-authentic datagram ({m['kind']} pos={m['pos']}) of signed type {m['type'][1]} caused the node "
                      f"to send msg ids {sends_by_cause[mid][:4]}")
        del registered
    # non-vacuity (only in configurations without loss): honest traffic reaches its handlers
    if plan["mode"] == "none":
        entered = {e["fn"] for e in entries if e["auth"] or e["type"] not in signed_types}
        for fn in _missing(scn.expect_handlers, entered):
            if True:
                c.violate("non_vacuity", f"handler_never_entered:{case['scenario']}.{fn}",
                          f"the honest script never entered {fn} with a genuine datagram")
    world.trace.event("c01", None, (len(entries), len(mutants)))
    c.sample = {"scenario": case["scenario"], "plan": plan, "mutants": len(mutants),
                "signed_msg_ids": sorted(t[1] for t in signed_types),
                "example_mutants": [{"kind": m["kind"], "msg": m["type"][1], "pos": m["pos"], "authentic": m["auth"]}
                                    for m in list(mutants.values())[:6]]}
    return c.result(evaluations=max(1, len(mutants)))
