"""
C03 - no datagram can make the receive path fail or over-read.

A live node (several real overlays multiplexed on one real UDPEndpoint over SimNet, busy with real protocol traffic,
with real circuits/relays/exit entries) is fed enumerated malformed datagrams through the simulated transport at the
script's step boundaries.  Oracles: nothing escapes ``datagram_received``; witness listeners still get the datagram;
foreign-prefix datagrams enter no handler; every successful decode stays inside its buffer.
"""
from __future__ import annotations

import asyncio
import itertools
import random
import struct

from simkit import probes
from simkit.scenario import Case

from . import c03_codec
from .overlay_scenarios import SCENARIOS

PROPERTY = "C03"
LEVEL = "fault_enumeration"
BUDGET = {"quick": 35, "thorough": 420}
CHUNK = 1
CASE_WALL = {"quick": 120, "thorough": 900}
ENUMERATED = {"quick": False, "thorough": False}
SHRINK_FIELDS = ()
RULE = ("case = (scenario: 'multi' = Discovery+DHTDiscovery+HiddenTunnel+Attestation+Identity on one endpoint, or one "
        "overlay alone; victim node; seed; plan). Enumerated per case: every prefix d[:k] (stride 1 in thorough) of the "
        "first genuine datagram of every (prefix, msg id, cell label) seen by the victim; every msg id 0..255 with empty and "
        "foreign body for each overlay prefix; all lengths 0..64 of zero/0xff/seeded content with and without a valid "
        "prefix; length fields overwritten with 0xff/0xffff at every position; crafted cells for live circuit/relay/exit "
        "ids with bodies 0..12 bytes and all flag combinations; correctly ENCRYPTED cells (the sender holds the circuit's session keys) "
        "with empty, one-byte (message ids 0..23) and short random messages; every byte bumped by +1/+2/+9/-1 (parts that claim slightly more "
        "or less than they have); sampled random bytes up to 1500; load_snapshot on every "
        "truncation of a genuine snapshot; every Serializable class that was decoded during the run is handed every prefix, "
        "every single-byte bump / 0xff rewrite, extensions and random strings of its genuine encoding directly through "
        "unpack_serializable and unpack_serializable_list, at offset 0 and behind a pad; 'codec' cases do the same for generated genuine "
        "encodings of every Serializable class shipped (format_list walked over the real packers). Non-trivial = an injected datagram that reached an overlay handler or a cell "
        "branch (right prefix, registered msg id); distinct by (overlay, msg id, length, kind).")
COMPONENTS = {"real": ["UDPEndpoint.datagram_received", "Endpoint.notify_listeners", "Community.on_packet",
                       "PythonCryptoEndpoint.on_packet/process_cell", "TunnelCommunity.on_cell", "lazy_community wrappers",
                       "StatisticsEndpoint.on_packet (every second case)",
                       "Serializer and all registered Packers", "Network.load_snapshot"],
              "stub": ["UDP/IP (SimNet)", "wall clock", "OS RNG"]}
ASSUMPTIONS = ["the native ipv8_rust_tunnels.Endpoint is not covered (PythonCryptoEndpoint is what runs)"]
REACH = ["inj:prefix", "inj:msgid", "inj:short", "inj:lenrewrite", "inj:lenbump", "inj:cell", "inj:keyed_cell", "inj:quit", "inj:relay_half", "inj:late_from_dropped",
         "listener_removed_itself_during_delivery", "relay_half_expired", "inj:random", "reached_handler",
         "direct_decode", "direct_decode_accepted", "codec_classes", "statistics_endpoint_listening", "endpoint_wrapped_in_tunnel_endpoint",
         "cell_branch_circuit", "cell_branch_exit", "decode_exact_end", "snapshot_truncations"]

SINGLE = ["community", "discovery", "dhtdiscovery", "hidden", "attestation", "identity", "pex"]


def cases(tier: str, base_seed: int):  # noqa: ANN201
    stride = 3 if tier == "quick" else 1
    n = 0
    yield {"scenario": "codec", "seed": base_seed, "knobs": {}, "per_class": 3}
    for victim in (0, 1, 2, 3):
        n += 1
        yield {"scenario": "multi", "victim": victim, "seed": base_seed + n, "knobs": {}, "stride": stride,
               "ep_kind": "tunnel" if victim % 2 else "udp"}
    for scn in SINGLE:
        n += 1
        yield {"scenario": scn, "victim": 0, "seed": base_seed + n, "knobs": {}, "stride": stride}
    for i in itertools.count():
        seed = base_seed + 100 + i
        rng = random.Random(f"c03/{seed}")
        if i % 25 == 7:
            yield {"scenario": "codec", "seed": seed, "knobs": {}, "per_class": 4}
            continue
        scn = rng.choice(["multi", "multi", *SINGLE])
        yield {"scenario": scn, "victim": rng.randrange(2 if SCENARIOS[scn].n_nodes == 2 else 3), "seed": seed,
               "ep_kind": rng.choice(["udp", "udp", "tunnel"]),
               "knobs": {"lat_jit": rng.choice([0.0, 0.02]), "dup": rng.choice([0.0, 0.05])}, "stride": rng.choice([2, 3, 5])}


# ------------------------------------------------------------------------------------------------ decode monitor
_MON = {"cb": None}
_mon_installed = False


def _install_decode_monitor() -> None:
    global _mon_installed  # noqa: PLW0603
    if _mon_installed:
        return
    _mon_installed = True
    from ipv8.messaging import serialization as ser

    def all_subclasses(cls):  # noqa: ANN001, ANN202
        out = set()
        for s in cls.__subclasses__():
            out.add(s)
            out |= all_subclasses(s)
        return out

    import ipv8.dht.payload  # noqa: F401  (NodePacker)
    import ipv8.messaging.anonymization.payload  # noqa: F401  (Flags packer)
    for cls in all_subclasses(ser.Packer):
        if "unpack" not in cls.__dict__:
            continue
        orig = cls.__dict__["unpack"]

        def unpack(self, data, offset, unpack_list, *args, _orig=orig, _cls=cls):  # noqa: ANN001, ANN002, ANN202
            n0 = len(unpack_list)
            ret = _orig(self, data, offset, unpack_list, *args)
            cb = _MON["cb"]
            if cb is not None:
                cb("packer", _cls.__name__, self, data, offset, ret, unpack_list[n0:])
            return ret
        cls.unpack = unpack

    orig_us = ser.Serializer.unpack_serializable

    def unpack_serializable(self, serializable, data, offset=0):  # noqa: ANN001, ANN202
        ret = orig_us(self, serializable, data, offset)
        cb = _MON["cb"]
        if cb is not None:
            cb("serializable", serializable.__name__, self, data, offset, ret[1], serializable)
        return ret
    ser.Serializer.unpack_serializable = unpack_serializable


def _monitor(c, world, over_seen: set, capture=None):  # noqa: ANN001, ANN202
    from ipv8.messaging.serialization import NestedPayload, VarLen

    def mon(kind, name, obj, data, off_in, off_out, values) -> None:  # noqa: ANN001
        if not isinstance(off_out, int):
            return
        if capture is not None:
            capture(kind, name, obj, data, off_in, off_out, values)
        if kind == "packer" and isinstance(obj, NestedPayload) and off_out <= len(data):
            try:
                declared = struct.unpack_from(">H", data, off_in)[0]
            except struct.error:
                declared = None
            if declared is not None and off_out != off_in + 2 + declared:
                c.violate("declared_length", "nested_payload_end_differs_from_declared_length",
                          f"nested payload at offset {off_in} declares {declared} bytes, decoding continued at offset {off_out} "
                          f"instead of {off_in + 2 + declared} (buffer {len(data)})")
        if off_out > len(data):
            # report the innermost decoder only: enclosing packers / payloads return the same impossible offset
            tag = (len(data), off_out)
            if tag in over_seen:
                return
            over_seen.add(tag)
            c.violate("decode_in_bounds", f"decode_end_beyond_buffer:{kind}:{name}",
                      f"{name}.unpack returned offset {off_out} for a buffer of {len(data)} bytes (start {off_in})")
        elif off_out == len(data):
            world.probe("decode_exact_end")
        if kind == "packer" and isinstance(obj, VarLen) and values:
            try:
                declared = struct.unpack_from(obj.length_format, data, off_in)[0] * obj.base
            except struct.error:
                return
            v = values[0]
            got = len(v.encode()) if isinstance(v, str) else len(v)
            if got != declared:
                c.violate("declared_length", f"varlen_value_shorter_than_declared:{name}",
                          f"{name} declared {declared} bytes but produced a value of {got} bytes (buffer {len(data)}, "
                          f"offset {off_in})")
    return mon


def execute_codec(case: dict) -> dict:
    """Generated genuine encodings of every shipped Serializable class, corrupted and handed to the decoders directly."""
    _install_decode_monitor()
    c = Case(case, first_only=False)
    world = c.world
    rng = world.stream("codec")
    items, skipped = c03_codec.genuine_encodings(rng, per_class=case.get("per_class", 3))
    _MON["cb"] = _monitor(c, world, set())
    try:
        n = c03_codec.direct_decode(c, world, rng, items, _MON)
    finally:
        _MON["cb"] = None
    classes = sorted({cls.__name__ for cls, _s, _e in items})
    for name in classes:
        c.nontrivial(f"codec/{name}")
    world.probe("codec_classes", len(classes))
    world.trace.event("c03codec", None, (len(items), n))
    c.sample = {"scenario": "codec", "classes_with_generated_encodings": classes, "classes_without": skipped, "decodes": n}
    return c.result(evaluations=max(1, n))


def execute(case: dict) -> dict:  # noqa: C901, PLR0915
    if case.get("scenario") == "codec":
        return execute_codec(case)
    from ipv8.messaging.interfaces.endpoint import EndpointListener
    from ipv8.messaging.serialization import VarLen  # noqa: F401
    from ipv8.peerdiscovery.network import Network

    if case.get("ep_kind") == "tunnel" and case.get("scenario") == "multi" and "offer_all" not in case:
        # behind the TunnelEndpoint the overlays are also registered as plain listeners: every overlay is offered every datagram
        case = dict(case, offer_all=True)
    _install_decode_monitor()
    c = Case(case, net=True, first_only=False)
    world, net, loop = c.world, c.net, c.loop
    scn = SCENARIOS[case["scenario"]]
    rng = world.stream("injector")
    if case.get("ep_kind") == "tunnel" and case["scenario"] == "multi":
        world.probe("endpoint_wrapped_in_tunnel_endpoint")
    stride = case.get("stride", 3)
    captured: dict = {}           # (prefix, msgid, label) -> datagram, as delivered to the victim
    cur = {"inj": None}           # injected datagram now being delivered: dict
    injected: list = []
    foreign_prefix = b"\x00\x02" + b"\xfe" * 20

    over_seen: set = set()
    genuine: dict = {}            # Serializable class name -> [(class, serializer, genuine encoding)], from successful decodes
    direct = {"on": False}

    # ---- decode monitor
    def capture(kind, name, obj, data, off_in, off_out, values) -> None:  # noqa: ANN001
        if kind == "serializable" and not direct["on"] and cur["inj"] is None and 0 <= off_in < off_out <= len(data):
            lst = genuine.setdefault(name, [])
            enc = bytes(data[off_in:off_out])
            if len(lst) < (1 if stride > 1 else 2) and all(enc != e for _c, _s, e in lst):
                lst.append((values, obj, enc))
    mon = _monitor(c, world, over_seen, capture)
    _MON["cb"] = mon

    class Witness(EndpointListener):
        def __init__(self, endpoint) -> None:  # noqa: ANN001
            super().__init__(endpoint)
            self.seen = 0

        def on_packet(self, packet, warn_unknown=True) -> None:  # noqa: ANN001
            if cur["inj"] is not None and packet[1] == cur["inj"]["data"]:
                self.seen += 1

    async def main() -> None:  # noqa: C901, PLR0915
        nodes = await scn.build(c)
        victim = nodes[case["victim"] % len(nodes)]
        ovs = list(getattr(victim, "ovs", {"only": victim.ov}).values())
        ep = victim.raw_endpoint
        prefixes = [ov.get_prefix() for ov in ovs]
        if case.get("stats", case["seed"] % 2 == 0):
            # the node runs with message statistics on (ipv8_service.IPv8(enable_statistics=True)): the statistics endpoint listens on
            # the raw endpoint BEFORE the witnesses, tracking the overlays' prefixes
            from ipv8.messaging.interfaces.statistics_endpoint import StatisticsEndpoint
            stats_ep = victim.call(StatisticsEndpoint, ep)
            for pfx in [*prefixes, foreign_prefix]:
                stats_ep.enable_community_statistics(pfx, True)
            world.probe("statistics_endpoint_listening")
        quit_marker = foreign_prefix + b"\x01QUIT"

        class Quitter(EndpointListener):
            """A listener that deregisters itself from inside its own on_packet (what an overlay unloaded by a handler does)."""

            def on_packet(self, packet, warn_unknown=True) -> None:  # noqa: ANN001
                if packet[1] == quit_marker:
                    world.probe("listener_removed_itself_during_delivery")
                    ep.remove_listener(self)
        quitter = victim.call(Quitter, ep)
        ep.add_listener(quitter)
        w_general = victim.call(Witness, ep)
        w_foreign = victim.call(Witness, ep)
        ep.add_listener(w_general)
        ep.add_prefix_listener(w_foreign, foreign_prefix)

        # handler-entry probes (decode_map level: covers cells and handlers without lazy wrappers)
        def wrap_map(ov, attr) -> None:  # noqa: ANN001
            dm = getattr(ov, attr, None)
            if dm is None:
                return
            items = list(dm.items()) if isinstance(dm, dict) else list(enumerate(dm))
            for i, h in items:
                if h is None:
                    continue

                def wrapped(src, data, *a, _h=h, _ov=ov, _i=i, **k):  # noqa: ANN001, ANN002, ANN003, ANN202
                    if cur["inj"] is not None:
                        cur["inj"]["reached"] = True
                        raw = cur["inj"]["data"]
                        if attr == "decode_map" and raw[:22] != _ov.get_prefix():
                            c.violate("prefix_demux", f"foreign_prefix_reached_handler:{type(_ov).__name__}",
                                      f"datagram with prefix {raw[:22].hex()} entered handler {_i} of {type(_ov).__name__}")
                    return _h(src, data, *a, **k)
                dm[i] = wrapped
        for ov in ovs:
            wrap_map(ov, "decode_map")
            wrap_map(ov, "decode_map_private")

        def on_entry(ov, fn, dec, data, poa, args) -> None:  # noqa: ANN001
            if cur["inj"] is not None and ov in ovs:
                cur["inj"]["reached"] = True
        probes.on_handler_entry.append(on_entry)

        def on_deliver(pkt, tr) -> None:  # noqa: ANN001
            if tr.host.name != victim.name:
                return
            d = pkt.data
            if pkt.injected:
                return
            if len(d) > 22:
                key = (d[:22], d[22], pkt.label if d[22] == 0 else None)
                captured.setdefault(key, d)
        net.on_deliver.append(on_deliver)

        # every injected datagram is handed over inside this bracket so that oracles can attribute effects
        orig_recv = ep.datagram_received

        def datagram_received(data, addr) -> None:  # noqa: ANN001
            rec = _PENDING.get(data)
            if rec is None:
                return orig_recv(data, addr)
            cur["inj"] = rec
            g0, f0 = w_general.seen, w_foreign.seen
            nerr = len(net.receive_errors)
            try:
                return orig_recv(data, addr)
            finally:
                cur["inj"] = None
                rec["done"] = True
                raised = len(net.receive_errors) > nerr
                want_f = 1 if data[:22] == foreign_prefix else 0
                if not raised and (w_general.seen - g0 != 1 or w_foreign.seen - f0 != want_f):
                    c.violate("witness", "listener_starved_or_duplicated",
                              f"witness listeners saw the datagram {w_general.seen - g0}/{w_foreign.seen - f0} times "
                              f"(expected 1/{want_f}); kind={rec['kind']} len={len(data)}")
                if rec.get("reached"):
                    world.probe("reached_handler")
                    c.nontrivial(f"{case['scenario']}/{data[22] if len(data) > 22 else None}/{len(data)}/{rec['kind']}")
        _PENDING: dict = {}
        ep.datagram_received = datagram_received

        peers_addr = [n.address for n in nodes if n is not victim]

        def inject(kind: str, data: bytes, src=None) -> None:  # noqa: ANN001
            if src is None:
                src = rng.choice(peers_addr) if rng.random() < 0.7 else (f"7.7.{rng.randrange(256)}.{rng.randrange(1, 255)}",
                                                                         rng.randrange(1024, 65535))
            rec = {"kind": kind, "data": data}
            injected.append(rec)
            _PENDING[data] = rec
            world.probe("inj:" + kind)
            net.inject(src, victim.address, data, delay=0.0001 + rng.random() * 0.002, label="inj:" + kind)

        done_types: set = set()

        async def storm(i: int, what: str) -> None:  # noqa: C901
            # A. prefixes of every newly captured genuine datagram
            for key, d in list(captured.items()):
                if key in done_types:
                    continue
                done_types.add(key)
                for k in range(0, len(d), stride):
                    inject("prefix", d[:k])
                for k in (22, 23, 24, 25, 28, 29, 30, len(d) - 1):
                    if 0 <= k < len(d):
                        inject("prefix", d[:k])
                # D. length fields overwritten
                for p in range(23, len(d), max(1, stride)):
                    b = bytearray(d)
                    b[p] = 0xff
                    inject("lenrewrite", bytes(b))
                    if p + 1 < len(d):
                        b[p + 1] = 0xff
                        inject("lenrewrite", bytes(b))
                # G. length fields bumped slightly (a part claims a few bytes more / less than it has)
                for p in range(23, len(d), max(1, stride)):
                    for dlt in ((1, 9) if stride > 1 else (1, 2, 9, -1)):
                        b = bytearray(d)
                        b[p] = (b[p] + dlt) & 0xff
                        inject("lenbump", bytes(b))
                if d[22] == 0 and len(d) >= 29:
                    # F. cells for this live circuit id: all flag combinations, short bodies
                    cid = d[23:27]
                    for flags in (b"\x00\x00", b"\x01\x00", b"\x00\x01", b"\x01\x01", b"\x02\x07"):
                        for blen in range(13):
                            inject("cell", d[:22] + b"\x00" + cid + flags + rng.randbytes(blen))
                        inject("cell", d[:22] + b"\x00" + cid + flags + d[29:])
                    for cut in range(23, 30):
                        inject("cell", d[:cut])
            # H. cells from a peer that HOLDS the session keys of a live circuit (anybody can become one by sending a create):
            # correctly encrypted, with empty / one-byte / short / random messages
            for ov in ovs:
                ce = getattr(ov, "crypto_endpoint", None)
                if ce is None or not hasattr(ce, "encrypt_cell"):
                    continue
                from ipv8.messaging.anonymization.payload import CellPayload
                from ipv8.messaging.anonymization.tunnel import BACKWARD, FORWARD
                targets = [(cid, FORWARD, (es.hop,)) for cid, es in sorted(ov.exit_sockets.items())] + \
                          [(cid, BACKWARD, tuple(ci.hops)) for cid, ci in sorted(ov.circuits.items()) if ci.hops]
                for cid, direction, hops in targets:
                    if ("keyed", cid) in done_types or len([k for k in done_types if k[0] == "keyed"]) >= 4:
                        continue
                    done_types.add(("keyed", cid))
                    msgs = [b"", *[bytes([m]) for m in range(0, 24)], *[bytes([m]) + rng.randbytes(rng.choice([1, 3, 9])) for m in range(0, 24, 2)]]
                    for msg in msgs:
                        for early in (False, True):
                            cell = CellPayload(cid, msg, False, early)
                            try:
                                ce.encrypt_cell(cell, direction, *hops)
                            except Exception:  # noqa: BLE001, S112
                                continue
                            inject("keyed_cell", cell.to_bin(ce.prefix))
            if i == 0:
                bodies = [d[23:] for d in list(captured.values())[:3]] or [b"\x00" * 40]
                for pfx in [*prefixes, foreign_prefix]:
                    # B. every message id, empty and foreign body
                    for mid in range(256):
                        inject("msgid", pfx + bytes([mid]))
                        if mid % stride == 0:
                            inject("msgid", pfx + bytes([mid]) + rng.choice(bodies))
                    # C. short contents behind a valid prefix
                    for ln in range(0, 43, 1 if stride == 1 else 2):
                        for fill in (b"\x00", b"\xff", None):
                            body = rng.randbytes(ln) if fill is None else fill * ln
                            inject("short", pfx + body)
                for ln in range(65):
                    for fill in (b"\x00", b"\xff", None):
                        inject("short", rng.randbytes(ln) if fill is None else fill * ln)
            if what == "final":
                # I. a listener in front of the witnesses removes itself while the datagram is being delivered
                inject("quit", quit_marker)
                # K. late datagrams from the addresses of a peer that roamed and was then dropped: the peer was heard at OLD, then
                # (signed) at NEW, then the churn / a walker time-out dropped it; delayed datagrams from OLD and NEW still arrive
                from ipv8.peer import Peer
                from ipv8.messaging.interfaces.udp.endpoint import UDPv4Address
                for n_ov, ov in enumerate(ovs):
                    nw = getattr(ov, "network", None)
                    vps = sorted(nw.verified_peers, key=lambda p: p.public_key.key_to_bin()) if nw is not None else []
                    if not vps:
                        continue
                    p0 = vps[0]
                    old_a = p0.address
                    new_a = UDPv4Address(f"7.8.{n_ov}.{1 + rng.randrange(250)}", 1024 + rng.randrange(60000))
                    how = rng.choice(["remove_peer", "remove_by_address", "remove_peer_no_roam"])
                    victim.call(nw.get_verified_by_address, old_a)
                    if how != "remove_peer_no_roam":
                        victim.call(nw.add_verified_peer, Peer(p0.public_key.key_to_bin(), new_a))   # a signed message from NEW
                        victim.call(nw.get_verified_by_address, new_a)
                    if how == "remove_by_address":
                        victim.call(nw.remove_by_address, p0.address)
                    else:
                        victim.call(nw.remove_peer, p0)
                    world.probe("roamed_peer_dropped:" + how)
                    body = next((d for (pfx, _m, _l), d in captured.items() if pfx == ov.get_prefix()), ov.get_prefix() + b"\xf6" + b"\x00" * 30)
                    for a in (old_a, new_a):
                        inject("late_from_dropped", body[:23] + rng.randbytes(8) + body[31:], src=tuple(a))
                        inject("late_from_dropped", ov.get_prefix(), src=tuple(a))
                        inject("late_from_dropped", foreign_prefix + b"\x07late", src=tuple(a))
            if i >= 2 and "relay_half" not in done_types:
                # J. one half of a relay pair has expired on its own (the sweep removes each half by its own clock); cells for the
                # surviving half keep arriving
                for ov in ovs:
                    rel = getattr(ov, "relay_from_to", None)
                    if not rel:
                        continue
                    for cid in sorted(rel)[:2]:
                        other = rel[cid].circuit_id if cid in rel else None
                        if other is None or other not in rel:
                            continue
                        rel.pop(other)
                        done_types.add("relay_half")
                        world.probe("relay_half_expired")
                        for flags in (b"\x00\x00", b"\x00\x01", b"\x01\x00"):
                            inject("relay_half", ov.get_prefix() + b"\x00" + cid.to_bytes(4, "big") + flags + rng.randbytes(rng.choice([1, 40, 200])))
            # E. random
            for _ in range(40 if stride > 1 else 200):
                ln = rng.choice([rng.randrange(0, 64), rng.randrange(64, 1500)])
                data = rng.randbytes(ln)
                if rng.random() < 0.6:
                    pfx = rng.choice(prefixes)
                    data = pfx + bytes([rng.choice([0, 1, 2, 3, 4, 5, 6, 7, 8, 245, 246, 249, 250, rng.randrange(256)])]) \
                        + data[23:]
                inject("random", data)
            await asyncio.sleep(0.05)
            for ov in ovs:
                tc = getattr(ov, "circuits", None)
                if tc:
                    world.probe("cell_branch_circuit")
                if getattr(ov, "exit_sockets", None):
                    world.probe("cell_branch_exit")
                if getattr(ov, "relay_from_to", None):
                    world.probe("cell_branch_relay")

        await scn.script(c, nodes, storm)
        await storm(999, "final")
        await asyncio.sleep(1.0)
        # (5) bounded liveness after the storm: the victim still answers an introduction request
        asker = next(n for n in nodes if n is not victim)
        ov_a = getattr(asker, "ovs", {"only": asker.ov})
        ov_a = next(iter(ov_a.values()))
        got = {"n": 0}
        target_ov = next(o for o in ovs if o.get_prefix() == ov_a.get_prefix())

        def on_send(pkt, fate) -> None:  # noqa: ANN001
            if pkt.src_node == victim.name and len(pkt.data) > 22 and pkt.data[:22] == target_ov.get_prefix() \
                    and pkt.data[22] in (245, 233) and pkt.dst == asker.address:
                got["n"] += 1
        net.on_send.append(on_send)
        asker.call(ov_a.walk_to, victim.address)
        await asyncio.sleep(5.0)
        if not got["n"]:
            c.violate("liveness", "no_introduction_response_after_storm",
                      "victim did not answer an introduction request within 5 virtual seconds after the storm")
        # (7) every Serializable class decoded successfully during the run, handed corrupted encodings directly
        direct["on"] = True
        items = [it for name in sorted(genuine) for it in genuine[name]]
        c03_codec.direct_decode(c, world, rng, items, _MON)
        c.nontrivial(f"direct/{case['scenario']}/{len(genuine)}")
        direct["classes"] = sorted(genuine)
        direct["on"] = False
        # (6) snapshot loader
        snap = victim.network.snapshot()
        if not snap:
            snap = Network.snapshot(next(n for n in nodes).network)
        blobs = [snap[:k] for k in range(len(snap) + 1)] + [rng.randbytes(rng.randrange(0, 60)) for _ in range(60)] + \
                [snap + b"\xff", b"\xff" * 7, snap[:-1] + b"\x00" if snap else b"\x00"]
        for blob in blobs:
            world.probe("snapshot_truncations")
            try:
                Network().load_snapshot(blob)
            except Exception as e:  # noqa: BLE001
                c.violate("snapshot", f"load_snapshot_raised:{type(e).__name__}",
                          f"Network.load_snapshot raised {type(e).__name__}: {e} on {len(blob)} bytes ({blob[:16].hex()})")
        ep.datagram_received = orig_recv
        await scn.teardown(nodes)

    try:
        world.run(main())
    finally:
        _MON["cb"] = None
    # (1) nothing escapes datagram_received
    for e in net.receive_errors:
        where = e["where"][-1] if e["where"] else ("?", "?")
        site = f"{where[0].replace('/', '.').removesuffix('.py')}.{where[1]}"
        d = e["data"]
        c.violate("receive_returns_normally", f"receive_raised:{e['exc']}@{site}",
                  f"{e['exc']}({e['msg']}) escaped datagram_received at node {e['node']} via {e['where']} for a "
                  f"{len(d)}-byte datagram {d[:40].hex()}{'...' if len(d) > 40 else ''}")
    world.trace.event("c03", None, (len(injected), len(net.receive_errors)))
    c.sample = {"scenario": case["scenario"], "victim": case["victim"], "injected": len(injected),
                "captured_types": len(captured), "serializable_classes_decoded_directly": direct.get("classes", []),
                "examples": [{"kind": r["kind"], "len": len(r["data"]), "head": r["data"][:30].hex(),
                              "reached_handler": bool(r.get("reached"))} for r in injected[:: max(1, len(injected) // 6)][:6]]}
    return c.result(evaluations=max(1, len(injected)))
