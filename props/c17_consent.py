"""
C17 - identity attestations and token disclosure require the owner's consent.

Authority ``A``, subjects ``S1`` / ``S2`` and outsider ``T`` are four real ``IdentityCommunity`` overlays (real
``IdentityManager`` on a file-backed or in-memory SQLite database, real ``UDPEndpoint``) on SimNet under virtual time.
A case is an explicit list of operations: the *user* of a node registers consents (``add_known_hash``), self-advertises
attributes, asks for attestation (``request_attestation_advertisement``); dishonest users call lower-level methods of
their own real overlay with doctored arguments (disclosure for a hash registered for somebody else, wrong name, changed
/ extra metadata, tampered tokens / metadata / attestations, re-disclosure with a third-party attestation, forged
``AttestPayload``, ``RequestMissingPayload`` without permission or beyond the permitted index), an on-path adversary
re-injects captured disclosures, and the clock is moved to just below / above 300 s.

The oracle never looks at ``should_sign`` / ``known_attestation_hashes`` / ``permissions``.  It is a consent model
evaluated from the operation history and the wire:

(1) every ``AttestPayload`` leaving the real handler of a node is matched against that node's registration history
    (same padded attribute hash = content hash of the token the metadata points to, same subject key = authenticated
    key of the datagram that triggered the attestation, same name, exactly the fixed metadata if any, registered at
    most 300 s of virtual time earlier), over a chain the harness re-verifies itself from the datagrams delivered to
    that node (token signatures under the subject key up to the genesis hash, metadata signature, token pointer; no
    token / attestation of the triggering datagram fails verification), at most once per metadata;
(2) every row that appears in the ``Attestations`` table of any node (table diff after every delivery) carries a
    signature that verifies under its authority key, and - when it was caused by an ``AttestPayload`` - the authority
    key is the authenticated sender of that datagram;
(3) every ``MissingResponsePayload`` / ``DisclosePayload`` leaving the real code of a node towards P contains only
    tokens at chain positions below the index the node's user opened to P.

Findings on the pinned tree (both reproduce with the library's own MockIPv8 test bench):

* ``attested_twice``: the "already attested" test of ``should_sign`` never fires - it iterates over the *bytes* of
  ``IdentityDatabase.get_authority()`` and compares ints with the key - so every re-disclosure within 300 s (replay,
  duplicate, the next request of the same subject, an empty MissingResponse) is attested again:
  reg(A,S1,h); req(S1->A,h); replay.  (Dropping that test is therefore an equivalent mutant of the pinned tree.)
* ``attested_twice_after_foreign_attestation_disclosed`` (visible once the first one is repaired): ``Attestations`` has
  PRIMARY KEY (public_key, metadata_pointer) and rows are written with INSERT OR IGNORE, so when the subject discloses
  its credential together with a valid attestation of another authority, the authority's own row is silently dropped
  and the next disclosure is attested again: reg(T,S1,h); req(S1->T,h); reg(A,S1,h); disclose(S1->A,h,+T's
  attestation); poke.
"""
from __future__ import annotations

import asyncio
import copy
import hashlib
import itertools
import json
import os
import random
import shutil
import struct
import tempfile

from simkit.node import SimNode
from simkit.scenario import Case, net_knobs, sched_knobs

PROPERTY = "C17"
LEVEL = "exploration"
BUDGET = {"quick": 30, "thorough": 420}
CHUNK = 6
CASE_WALL = {"quick": 60, "thorough": 120}
ENUMERATED = {"quick": False, "thorough": False}
SHRINK_FIELDS = ("ops",)
RULE = ("case = (seed, network/scheduler knobs, database kind, explicit op list). The op list is the concatenation or "
        "seeded interleaving of 2-5 motifs (honest request; hash registered for S1 presented by S2 holding its own valid "
        "registration; wrong name; changed/extra/missing fixed metadata; free metadata; registration aged to 299 s / "
        "301 s, re-registration, second credential for an old hash; replayed and duplicate disclosures; tampered token "
        "/ metadata / attached attestation followed by pokes; third-party attestation inside a disclosure; forged, "
        "forwarded and unsolicited AttestPayloads; RequestMissing from unpermitted peers, beyond the index, after a "
        "wider permission to another peer; chains > 32 tokens; restart of the authority on its database file) plus "
        "random extra ops, over a 6-value attribute-hash space shared by all subjects so that registrations collide. "
        "The first cases are one fault-free instance of every motif (non-vacuity is demanded there). Non-trivial = the "
        "case produced at least one consent decision (attestation, refusal class or token hand-out decision); distinct "
        "by the sequence of decisions.")
COMPONENTS = {"real": ["IdentityCommunity (all four handlers, add_known_hash, should_sign, request_attestation_"
                       "advertisement, self_advertise)", "IdentityManager / PseudonymManager / IdentityDatabase on SQLite "
                       "files", "TokenTree, Token, Metadata, Attestation", "lazy_wrapper / ez_send / Serializer",
                       "UDPEndpoint on SimNet", "curve25519 signatures (also the oracle's primitive)"],
              "stub": ["UDP/IP (SimNet)", "wall clock (virtual)", "OS RNG", "the users (scripted op list)"]}
ASSUMPTIONS = ["Ed25519 verification in the key vault is trusted (it is also the oracle's primitive)",
               "a registration counts for 300 s from the add_known_hash call, boundary inclusive as in the code "
               "(time() > registered + 300 refuses); any registration in the history may justify an attestation "
               "(the code only remembers the latest per hash, which is stricter)",
               "the chain position opened to P is the chain length at the user's latest "
               "request_attestation_advertisement(P, ..) call; an empty MissingResponsePayload hands out nothing",
               "liveness is not part of the property: only the fault-free single-motif cases demand that the honest "
               "attestation happens",
               "RequestMissing datagrams beyond 16 per (sender, destination) between two user ops are lost by the network "
               "(the request/response ping-pong for a registered but undisclosed attribute never ends by itself)",
               "messages crafted by a dishonest user through its own overlay are not subject to oracles (1) and (3)"]
REACH = ["honest_attestation", "wrong_subject_refused", "wrong_subject_with_own_registration_refused",
         "wrong_name_refused", "wrong_metadata_refused", "extra_metadata_allowed_attested",
         "expired_registration_refused", "just_below_300s_attested", "replay_refused",
         "tampered_disclosure_refused", "third_party_attestation_refused", "valid_attestation_stored",
         "missing_request_unpermitted_refused", "missing_request_beyond_index_limited",
         "long_chain_missing_tokens_served", "authority_restarted", "two_pseudonyms_one_manager", "subject_sent_self_signed_attestation_first", "subject_never_sends_a_valid_signature_for_one_token"]

NODES = ("A", "S1", "S2", "T")
IPS = {"A": "1.0.0.1", "S1": "1.0.0.2", "S2": "1.0.0.3", "T": "1.0.0.4"}
NH = 6                      # attribute hash indices 0..5 (index 5 is an old-style 20 byte hash)
NAMES = ("n0", "n1", "n2")
MDS = (None, None, {}, {"a": "b"}, {"a": "c"}, {"a": "b", "x": "y"})
SIG = 64                    # curve25519 signature length
TOK = 64 + SIG
REQ_BUDGET = 16             # RequestMissing datagrams per (sender, destination) between two user ops (see storm_filter)
MUST_HAPPEN = ("honest_attestation", "long_chain_missing_tokens_served", "just_below_300s_attested",
               "extra_metadata_allowed_attested")


# ------------------------------------------------------------------------------------------------ op constructors
def _reg(auth, subj, h, name, md=None) -> dict:  # noqa: ANN001
    return {"op": "reg", "node": auth, "subj": subj, "h": h, "name": name, "md": md}


def _req(node, to, h, name, md=None, tamper=None, ti=0) -> dict:  # noqa: ANN001
    o = {"op": "req", "node": node, "to": to, "h": h, "name": name, "md": md}
    if tamper:
        o["tamper"] = tamper
        o["ti"] = ti
    return o


def _sleep(dt) -> dict:  # noqa: ANN001
    return {"op": "sleep", "dt": dt}


def _adv_many(node, n) -> dict:  # noqa: ANN001
    return {"op": "adv_many", "node": node, "n": n}


# ------------------------------------------------------------------------------------------------ motifs
def m_honest(r) -> list:  # noqa: ANN001
    s, h, name, md = r.choice(("S1", "S2")), r.randrange(NH), r.choice(NAMES), r.choice(MDS)
    return [_reg("A", s, h, name, md), _req(s, "A", h, name, md), _sleep(1.5)]


def m_free_metadata(r) -> list:  # noqa: ANN001
    s, h, name = r.choice(("S1", "S2")), r.randrange(NH), r.choice(NAMES)
    return [_reg("A", s, h, name, None), _req(s, "A", h, name, r.choice(({"x": "y"}, {"a": "b", "q": "r"}))), _sleep(1.5)]


def m_wrong_key(r) -> list:  # noqa: ANN001
    """A hash registered for S1 presented by S2 while S2 holds a different valid registration."""
    a, b = r.sample(("S1", "S2"), 2)
    h1, h2 = r.sample(range(NH), 2)
    n1, n2 = r.choice(NAMES), r.choice(NAMES)
    md1 = r.choice(MDS)
    own = [_reg("A", b, h2, n2, None), _req(b, "A", h2, n2, None), _sleep(1.0)]
    foreign = [_reg("A", a, h1, n1, md1), _req(b, "A", h1, n1, md1), _sleep(1.0)]
    if r.random() < 0.7:
        return own + foreign
    # foreign hash first (unsolicited at that moment), re-evaluated when the own disclosure arrives
    return [foreign[0], own[0], foreign[1], _sleep(0.5), own[1], _sleep(1.0)]


def m_wrong_name(r) -> list:  # noqa: ANN001
    s, h = r.choice(("S1", "S2")), r.randrange(NH)
    n1, n2 = r.sample(NAMES, 2)
    return [_reg("A", s, h, n1, r.choice(MDS)), _req(s, "A", h, n2, None), _sleep(1.0)]


def m_wrong_metadata(r) -> list:  # noqa: ANN001
    s, h, name = r.choice(("S1", "S2")), r.randrange(NH), r.choice(NAMES)
    fixed, sent = r.choice((({"a": "b"}, {"a": "c"}), ({"a": "b"}, {"a": "b", "x": "y"}), ({"a": "b"}, None),
                            ({}, {"x": "y"}), ({"a": "b", "x": "y"}, {"a": "b"})))
    return [_reg("A", s, h, name, fixed), _req(s, "A", h, name, sent), _sleep(1.0)]


def m_expiry(r) -> list:  # noqa: ANN001
    s, h, name = r.choice(("S1", "S2")), r.randrange(NH), r.choice(NAMES)
    dt = r.choice((299.0, 299.0, 301.0, 301.0, 299.9, 300.2, 150.0, 600.0))
    kind = r.randrange(4)
    if kind == 0:      # plain: register, wait, request
        return [_reg("A", s, h, name), _sleep(dt), _req(s, "A", h, name), _sleep(1.0)]
    if kind == 1:      # second credential for an old hash (as in test_advertise_twice) below / above the limit
        return [_reg("A", s, h, name), _req(s, "A", h, name), _sleep(dt), _req(s, "A", h, name), _sleep(1.0)]
    if kind == 2:      # expired, then re-registered and poked
        return [_reg("A", s, h, name), _sleep(301.0), _req(s, "A", h, name), _sleep(1.0), _reg("A", s, h, name),
                {"op": "poke", "node": s, "to": "A"}, _sleep(1.0)]
    # a (possibly empty) replay slot before the aged request
    return [_reg("A", s, h, name), _sleep(dt), {"op": "replay", "node": s, "to": "A", "k": 0},
            _req(s, "A", h, name), _sleep(1.0)]


def m_replay(r) -> list:  # noqa: ANN001
    s, h, name, md = r.choice(("S1", "S2")), r.randrange(NH), r.choice(NAMES), r.choice(MDS)
    ops = [_reg("A", s, h, name, md), _req(s, "A", h, name, md), _sleep(r.choice((0.0, 0.01, 1.0)))]
    for _ in range(r.randrange(1, 4)):
        ops += [{"op": "replay", "node": s, "to": "A", "k": r.randrange(3)}, _sleep(r.choice((0.0, 0.5, 1.0)))]
    if r.random() < 0.4:
        ops += [_sleep(r.choice((298.0, 301.0))), {"op": "replay", "node": s, "to": "A", "k": 0}, _sleep(1.0)]
    return ops


def m_tamper(r) -> list:  # noqa: ANN001
    s, h, name = r.choice(("S1", "S2")), r.randrange(NH), r.choice(NAMES)
    t = r.choice(("extra_bad_token", "extra_bad_token", "bad_attestation", "token_sig", "md_sig", "md_json"))
    ops = [_reg("A", s, h, name), _req(s, "A", h, name, None, t, r.randrange(8)), _sleep(1.0)]
    if r.random() < 0.5:
        ops += [{"op": r.choice(("poke", "replay")), "node": s, "to": "A", "k": 0}, _sleep(1.0)]
    return ops


def m_foreign_attestation(r) -> list:  # noqa: ANN001
    """T attests first; the subject then discloses the credential together with T's attestation to A."""
    s, h, name = r.choice(("S1", "S2")), r.randrange(NH), r.choice(NAMES)
    ops = [_reg("T", s, h, name), _req(s, "T", h, name), _sleep(1.0), _reg("A", s, h, name),
           {"op": "disclose", "node": s, "to": "A", "h": h, "atts": True}, _sleep(1.0)]
    for _ in range(r.randrange(0, 3)):
        ops += [{"op": r.choice(("replay", "disclose", "poke")), "node": s, "to": "A", "k": r.randrange(2), "h": h,
                 "atts": r.random() < 0.5}, _sleep(0.5)]
    return ops


def m_forged_attest(r) -> list:  # noqa: ANN001
    s, h, name = r.choice(("S1", "S2")), r.randrange(NH), r.choice(NAMES)
    ops = [_reg("A", s, h, name), _req(s, "A", h, name), _sleep(1.0)]
    for _ in range(r.randrange(1, 4)):
        ops.append({"op": "attest_forge", "node": r.choice(("T", "T", "S2", "S1")), "to": s,
                    "mode": r.choice(("forward", "garbage", "third_key", "own", "own_random", "self_md"))})
    return [*ops, _sleep(1.0)]


def m_missing_unpermitted(r) -> list:  # noqa: ANN001
    s = r.choice(("S1", "S2"))
    ops = [_adv_many(s, r.choice((1, 3, 12)))]
    if r.random() < 0.5:
        h, name = r.randrange(NH), r.choice(NAMES)
        ops += [_reg("A", s, h, name), _req(s, "A", h, name), _sleep(1.0)]
    for _ in range(r.randrange(1, 3)):
        ops.append({"op": "req_missing", "node": r.choice(("T", "T", "S1", "S2")), "to": s, "known": r.choice((0, 0, 1, 5))})
    return [*ops, _sleep(1.0)]


def m_long_chain(r) -> list:  # noqa: ANN001
    s, h, name = r.choice(("S1", "S2")), r.randrange(NH), r.choice(NAMES)
    return [_adv_many(s, r.choice((33, 36, 39, 45))), _reg("A", s, h, name), _req(s, "A", h, name), _sleep(3.0)]


def m_long_chain_bad(r) -> list:  # noqa: ANN001
    s, h, name = r.choice(("S1", "S2")), r.randrange(NH), r.choice(NAMES)
    return [_adv_many(s, r.choice((33, 36, 39, 45))), _reg("A", s, h, name),
            _req(s, "A", h, name, None, r.choice(("token_sig", "token_sig_persistent", "token_sig_persistent")), r.randrange(16)), _sleep(3.0)]


def m_beyond_index(r) -> list:  # noqa: ANN001
    s, (h1, h2), name = r.choice(("S1", "S2")), r.sample(range(NH), 2), r.choice(NAMES)
    k = r.choice((10, 12, 15))
    return [_adv_many(s, k), _reg("A", s, h1, name), _req(s, "A", h1, name), _sleep(2.0),
            _adv_many(s, r.choice((2, 3, 6))), _reg("T", s, h2, name), _req(s, "T", h2, name), _sleep(2.0),
            {"op": "req_missing", "node": "A", "to": s, "known": r.choice((0, k - 2, k, k + 1, k + 2))}, _sleep(1.0)]


def m_restart(r) -> list:  # noqa: ANN001
    s, h, name = r.choice(("S1", "S2")), r.randrange(NH), r.choice(NAMES)
    return [_reg("A", s, h, name), _req(s, "A", h, name), _sleep(1.0), {"op": "restart", "node": "A"},
            _reg("A", s, h, name), {"op": "replay", "node": s, "to": "A", "k": 0}, _sleep(1.0)]


# (name, generator, what must happen in the fault-free instance of the motif)
MOTIFS = (("honest", m_honest, ("honest_attestation",)),
          ("free_metadata", m_free_metadata, ("honest_attestation", "extra_metadata_allowed_attested")),
          ("wrong_key", m_wrong_key, ()),
          ("wrong_name", m_wrong_name, ()),
          ("wrong_metadata", m_wrong_metadata, ()),
          ("expiry", m_expiry, ()),
          ("replay", m_replay, ()),
          ("tamper", m_tamper, ()),
          ("foreign_attestation", m_foreign_attestation, ()),
          ("forged_attest", m_forged_attest, ()),
          ("missing_unpermitted", m_missing_unpermitted, ()),
          ("long_chain", m_long_chain, ("honest_attestation", "long_chain_missing_tokens_served")),
          ("long_chain_bad", m_long_chain_bad, ()),
          ("beyond_index", m_beyond_index, ()),
          ("restart", m_restart, ()))
WEIGHTS = (3, 2, 6, 2, 3, 5, 4, 4, 2, 3, 3, 1, 2, 2, 2)

FIXED = (
    ("just_below", [_reg("A", "S1", 0, "n0"), _sleep(299.0), _req("S1", "A", 0, "n0"), _sleep(1.0)],
     ("honest_attestation", "just_below_300s_attested")),
    ("just_above", [_reg("A", "S1", 0, "n0"), _sleep(301.0), _req("S1", "A", 0, "n0"), _sleep(1.0)], ()),
    ("twice_below", [_reg("A", "S1", 0, "n0"), _req("S1", "A", 0, "n0"), _sleep(299.0), _req("S1", "A", 0, "n0"),
                     _sleep(1.0)], ("honest_attestation", "just_below_300s_attested")),
    ("twice_above", [_reg("A", "S1", 0, "n0"), _req("S1", "A", 0, "n0"), _sleep(301.0), _req("S1", "A", 0, "n0"),
                     _sleep(1.0)], ("honest_attestation",)),
    ("wrong_key_own_valid", [_reg("A", "S2", 2, "n2"), _req("S2", "A", 2, "n2"), _sleep(1.0), _reg("A", "S1", 1, "n1"),
                             _req("S2", "A", 1, "n1"), _sleep(1.0)], ("honest_attestation",)),
    ("short_hash", [_reg("A", "S1", 5, "n0", {"a": "b"}), _req("S1", "A", 5, "n0", {"a": "b"}), _sleep(1.0)],
     ("honest_attestation",)),
    ("metadata_changed", [_reg("A", "S1", 0, "n0", {"a": "b"}), _req("S1", "A", 0, "n0", {"a": "c"}), _sleep(1.0)], ()),
    ("metadata_extra", [_reg("A", "S1", 0, "n0", {"a": "b"}), _req("S1", "A", 0, "n0", {"a": "b", "x": "y"}),
                        _sleep(1.0)], ()),
    ("duplicate", [_reg("A", "S1", 0, "n0"), _req("S1", "A", 0, "n0"), _sleep(1.0),
                   {"op": "replay", "node": "S1", "to": "A", "k": 0}, _sleep(1.0),
                   {"op": "replay", "node": "S1", "to": "A", "k": 0}, _sleep(1.0)], ("honest_attestation",)),
    ("bad_token_then_poke", [_reg("A", "S1", 0, "n0"), _req("S1", "A", 0, "n0", None, "extra_bad_token", 0), _sleep(1.0),
                             {"op": "poke", "node": "S1", "to": "A"}, _sleep(1.0)], ("honest_attestation",)),
    ("bad_attestation", [_reg("A", "S1", 0, "n0"), _req("S1", "A", 0, "n0", None, "bad_attestation", 0), _sleep(1.0)], ()),
    ("forward_attestation", [_reg("A", "S1", 0, "n0"), _req("S1", "A", 0, "n0"), _sleep(1.0),
                             {"op": "attest_forge", "node": "T", "to": "S2", "mode": "forward"},
                             {"op": "attest_forge", "node": "T", "to": "S1", "mode": "third_key"},
                             {"op": "attest_forge", "node": "T", "to": "S1", "mode": "garbage"},
                             {"op": "attest_forge", "node": "T", "to": "S1", "mode": "own_random"}, _sleep(1.0)],
     ("honest_attestation",)),
    ("unpermitted", [_adv_many("S1", 5), {"op": "req_missing", "node": "T", "to": "S1", "known": 0}, _sleep(1.0)], ()),
    ("unpermitted_after_other", [_adv_many("S1", 12), _reg("A", "S1", 0, "n0"), _req("S1", "A", 0, "n0"), _sleep(2.0),
                                 {"op": "req_missing", "node": "T", "to": "S1", "known": 0},
                                 {"op": "req_missing", "node": "S2", "to": "S1", "known": 3}, _sleep(1.0)],
     ("honest_attestation", "long_chain_missing_tokens_served")),
    ("beyond", [_adv_many("S1", 12), _reg("A", "S1", 0, "n0"), _req("S1", "A", 0, "n0"), _sleep(2.0), _adv_many("S1", 3),
                _reg("T", "S1", 1, "n1"), _req("S1", "T", 1, "n1"), _sleep(2.0),
                {"op": "req_missing", "node": "A", "to": "S1", "known": 10}, _sleep(1.0)],
     ("honest_attestation", "long_chain_missing_tokens_served")),
    ("long39", [_adv_many("S1", 39), _reg("A", "S1", 0, "n0"), _req("S1", "A", 0, "n0"), _sleep(3.0)],
     ("honest_attestation", "long_chain_missing_tokens_served")),
    ("restart", [_reg("A", "S1", 0, "n0"), _req("S1", "A", 0, "n0"), _sleep(1.0), {"op": "restart", "node": "A"},
                 _reg("A", "S1", 0, "n0"), {"op": "replay", "node": "S1", "to": "A", "k": 0}, _sleep(1.0)],
     ("honest_attestation",)),
    # S1 and S2 are two pseudonyms of ONE user (one IdentityManager, as the CommunicationManager sets them up): what the user
    # opened to A on pseudonym S1 says nothing about pseudonym S2
    # a long chain: the disclosure carries only the newest tokens, the attester asks for the rest.  A token with a broken signature in
    # the first message arrives before its parents.
    *[(f"long_chain_bad_token_first_{ti}", [_adv_many("S1", 36), _reg("A", "S1", 0, "n0"),
                                            _req("S1", "A", 0, "n0", None, "token_sig_persistent", ti), _sleep(3.0)], ()) for ti in range(14)],
    ("self_attestation_first", [{"op": "adv", "node": "S1", "h": 0, "name": "n0"}, _reg("A", "S1", 0, "n0"),
                                {"op": "attest_forge", "node": "S1", "to": "A", "mode": "self_md"}, _sleep(0.5),
                                {"op": "disclose", "node": "S1", "to": "A", "h": 0}, _sleep(1.0),
                                {"op": "replay", "node": "S1", "to": "A", "k": 0}, _sleep(1.0),
                                {"op": "replay", "node": "S1", "to": "A", "k": 0}, _sleep(1.0)],
     ("honest_attestation", "subject_sent_self_signed_attestation_first")),
    ("shared_cross_pseudonym", [_adv_many("S1", 12), _adv_many("S2", 7), _reg("A", "S1", 0, "n0"), _req("S1", "A", 0, "n0"),
                                _sleep(2.0), {"op": "req_missing", "node": "A", "to": "S2", "known": 0}, _sleep(1.0),
                                {"op": "req_missing", "node": "A", "to": "S1", "known": 3}, _sleep(1.0)],
     ("honest_attestation", "long_chain_missing_tokens_served", "two_pseudonyms_one_manager")),
)


def _random_op(r) -> dict:  # noqa: ANN001
    s = r.choice(("S1", "S2"))
    k = r.randrange(11)
    if k == 0:
        return _reg(r.choice(("A", "A", "T")), r.choice(("S1", "S2", "T")), r.randrange(NH), r.choice(NAMES), r.choice(MDS))
    if k == 1:
        return _req(r.choice(("S1", "S2", "T")), r.choice(("A", "A", "T")), r.randrange(NH), r.choice(NAMES), r.choice(MDS))
    if k == 2:
        return _sleep(r.choice((0.0, 0.02, 0.5, 2.0, 100.0, 299.0, 301.0)))
    if k == 3:
        return {"op": "replay", "node": s, "to": r.choice(("A", "T")), "k": r.randrange(4)}
    if k == 4:
        return {"op": "poke", "node": r.choice(("S1", "S2", "T")), "to": "A"}
    if k == 5:
        return {"op": "adv", "node": s, "h": r.randrange(NH), "name": r.choice(NAMES), "md": r.choice(MDS)}
    if k == 6:
        return {"op": "req_missing", "node": r.choice(NODES), "to": s, "known": r.choice((0, 1, 2, 8, 40))}
    if k == 7:
        return {"op": "attest_forge", "node": r.choice(("T", "S1", "S2")), "to": r.choice(NODES),
                "mode": r.choice(("forward", "garbage", "third_key", "own", "own_random", "self_md"))}
    if k == 8:
        return {"op": "disclose", "node": s, "to": r.choice(("A", "T")), "h": r.randrange(NH), "atts": r.random() < 0.6}
    if k == 9:
        return _req(s, "A", r.randrange(NH), r.choice(NAMES), r.choice(MDS),
                    r.choice(("extra_bad_token", "bad_attestation", "token_sig", "md_sig", "md_json")), r.randrange(8))
    return {"op": "restart", "node": "A"}


def _merge(r, a: list, b: list) -> list:  # noqa: ANN001
    out, i, j = [], 0, 0
    while i < len(a) or j < len(b):
        if j >= len(b) or (i < len(a) and r.random() < len(a) / (len(a) + len(b))):
            out.append(a[i])
            i += 1
        else:
            out.append(b[j])
            j += 1
    return out


def _sweep_stale_scratch() -> None:
    """Per-case directories are removed by the case itself; a killed worker may leave one behind."""
    from simkit.boot import REAL_TIME
    base = _scratch_base() or tempfile.gettempdir()
    try:
        for name in os.listdir(base):
            path = os.path.join(base, name)
            if name.startswith("c17_") and os.path.isdir(path) and REAL_TIME() - os.stat(path).st_mtime > 900:
                shutil.rmtree(path, ignore_errors=True)
    except OSError:
        pass


def cases(tier: str, base_seed: int):  # noqa: ANN201
    _sweep_stale_scratch()
    n = 0
    # one fault-free instance of every situation: non-vacuity is demanded here
    for name, ops, expect in FIXED:
        for db in ("file", "memory"):
            n += 1
            if name == "restart" and db == "memory":
                continue
            yield {"scenario": "fixed:" + name, "seed": base_seed + n, "knobs": {}, "db": db, "ops": copy.deepcopy(ops),
                   "expect": list(expect), "shared_im": name.startswith("shared_")}
    for rep in range(2):
        for name, fn, expect in MOTIFS:
            n += 1
            r = random.Random(f"c17/motif/{base_seed + n}")
            yield {"scenario": "motif:" + name, "seed": base_seed + n, "knobs": {},
                   "db": "file" if rep == 0 or name == "restart" else "memory", "ops": fn(r), "expect": list(expect)}
    for i in itertools.count():
        seed = base_seed + 1000 + i
        r = random.Random(f"c17/{seed}")
        parts = [r.choices(MOTIFS, WEIGHTS)[0][1](r)
                 for _ in range(r.choice((1, 2, 2, 3, 3, 4, 5) if tier == "quick" else (2, 3, 4, 5, 6, 8)))]
        ops: list = []
        for p in parts:
            ops = _merge(r, ops, p) if (ops and r.random() < 0.35) else ops + p
        for _ in range(r.choice((0, 0, 1, 2, 4))):
            ops.insert(r.randrange(len(ops) + 1), _random_op(r))
        if r.random() < 0.25:
            # races: drop most of the waiting
            ops = [o for o in ops if o["op"] != "sleep" or o["dt"] > 100 or r.random() < 0.4]
        knobs: dict = {}
        if r.random() > 0.35:
            knobs.update(net_knobs(r))
            knobs.update(sched_knobs(r))
        db = "file" if r.random() < 0.7 else "memory"
        if db == "memory":
            ops = [o for o in ops if o["op"] != "restart"]
        yield {"scenario": "random", "seed": seed, "knobs": knobs, "db": db, "ops": ops, "expect": [],
               "shared_im": r.random() < 0.3}


def simplify(case: dict):  # noqa: ANN201
    """After ddmin over the ops: try the fault-free network and scheduler."""
    if case.get("knobs"):
        yield dict(case, knobs={})


# ------------------------------------------------------------------------------------------------ helpers
def _scratch_base() -> str | None:
    """tmpfs if there is one (opening four SQLite files per case costs several fsyncs; file semantics are the same)."""
    shm = "/dev/shm"  # noqa: S108
    if os.environ.get("C17_TMP"):
        return os.environ["C17_TMP"]
    return shm if os.path.isdir(shm) and os.access(shm, os.W_OK | os.X_OK) else None


def attr_hash(i: int) -> bytes:
    h = hashlib.sha3_256(b"c17-attribute-%d" % i).digest()
    return h[:20] if i == 5 else h


def pad_hash(h: bytes) -> bytes:
    """The harness' own reading of the old-style hash rule (20 byte SHA-1 -> 32 byte space)."""
    return b"SHA-1\x00\x00\x00\x00\x00\x00\x00" + h if len(h) == 20 else h


def sha3(b: bytes) -> bytes:
    return hashlib.sha3_256(b).digest()


class Model:
    """Everything the harness knows from the op history and the wire; no library decision is consulted."""

    def __init__(self) -> None:
        self.regs: dict = {n: [] for n in NODES}          # node -> [{"h","key","name","md","t"}]
        self.chain: dict = {n: [] for n in NODES}         # node -> token hashes by chain position (own chain)
        self.chain_md: dict = {n: [] for n in NODES}      # node -> metadata hashes by chain position
        self.perms: dict = {n: {} for n in NODES}         # node -> {peer key: opened index}
        self.tokens: dict = {}                            # (node, key) -> {token hash: (previous hash, content hash)}
        self.mds: dict = {}                               # (node, key) -> {metadata hash: (token pointer, json, valid)}
        self.attested: dict = {n: {} for n in NODES}      # node -> {metadata hash: times}
        self.foreign: set = set()                         # (node, metadata hash): valid third-party attestation seen
        self.foreign_first: set = set()                   # ... and seen before the node's own first attestation
        self.verdicts: dict = {}                          # (node, key, metadata hash) -> latest verdict, own_reg flag


def execute(case: dict) -> dict:  # noqa: C901, PLR0915
    from ipv8.attestation.identity.attestation import Attestation
    from ipv8.attestation.identity.community import IdentityCommunity, IdentitySettings
    from ipv8.attestation.identity.manager import IdentityManager
    from ipv8.attestation.identity.payload import (AttestPayload, DisclosePayload, MissingResponsePayload,
                                                   RequestMissingPayload)
    from ipv8.keyvault.crypto import default_eccrypto
    from ipv8.peer import Peer

    c = Case(case, net=True, first_only=False)
    world, net = c.world, c.net
    m = Model()
    tmpdir = tempfile.mkdtemp(prefix="c17_", dir=_scratch_base()) if case.get("db", "file") == "file" else None
    nodes: dict = {}
    key_of: dict = {}        # node name -> public key bin
    name_of: dict = {}       # public key bin -> node name
    addr_key: dict = {}      # address -> public key bin
    pk_cache: dict = {}
    delivered: dict = {}     # pkt id -> record
    replays: set = set()
    captured_disc: dict = {}
    captured_att: list = []
    db_rows: dict = {n: set() for n in NODES}
    st = {"crafting": False, "pending": None, "deferred": [], "prefix": None, "pad": 0, "budget": {}}
    decisions: list = []
    payload_of = {1: DisclosePayload, 2: AttestPayload, 3: RequestMissingPayload, 4: MissingResponsePayload}

    def pk(key: bytes):  # noqa: ANN202
        k = pk_cache.get(key)
        if k is None:
            try:
                k = default_eccrypto.key_from_public_bin(key)
            except Exception:  # noqa: BLE001
                k = False
            pk_cache[key] = k
        return k

    def sig_ok(key: bytes, body: bytes, sig: bytes) -> bool:
        k = pk(key)
        if not k:
            return False
        try:
            return bool(default_eccrypto.is_valid_signature(k, body, sig))
        except Exception:  # noqa: BLE001
            return False

    # ------------------------------------------------------------------ wire analysis (harness' own parser)
    def parse(data: bytes) -> dict | None:
        if len(data) < 25 + SIG or data[:22] != st["prefix"] or data[22] not in payload_of:
            return None
        (klen,) = struct.unpack_from(">H", data, 23)
        key = data[25:25 + klen]
        k = pk(key) if len(key) == klen and klen else False
        if not k:
            return None
        sl = k.get_signature_length()
        valid = sig_ok(key, data[:-sl], data[-sl:])
        body = data[25 + klen:-sl]
        try:
            payload = nodes["A"].ov.serializer.unpack_serializable_list([payload_of[data[22]]], body)[0]
        except Exception:  # noqa: BLE001
            return None
        return {"msg": data[22], "key": key, "valid": valid, "payload": payload}

    def split_tokens(raw: bytes, key: bytes) -> tuple:
        good, bad = [], 0
        for i in range(0, len(raw), TOK):
            ch = raw[i:i + TOK]
            if len(ch) < TOK or not sig_ok(key, ch[:64], ch[64:]):
                bad += 1
                continue
            good.append((sha3(ch), ch[:32], ch[32:64]))
        return good, bad

    def split_metadata(raw: bytes, key: bytes) -> list:
        out, off = [], 0
        while off + 4 <= len(raw):
            (ln,) = struct.unpack_from(">I", raw, off)
            ser = raw[off + 4:off + 4 + ln]
            off += 4 + ln
            if len(ser) < 32 + SIG:
                continue
            out.append((sha3(ser), ser[:32], ser[32:-SIG], sig_ok(key, ser[:-SIG], ser[-SIG:])))
        return out

    def split_attestations(atts: bytes, auths: bytes) -> tuple:
        good, bad, aoff, off = [], 0, 0, 0
        while off + 2 <= len(auths):
            (ln,) = struct.unpack_from(">H", auths, off)
            akey = auths[off + 2:off + 2 + ln]
            off += 2 + ln
            k = pk(akey)
            if not k:
                bad += 1
                break
            sl = k.get_signature_length()
            ch = atts[aoff:aoff + 32 + sl]
            aoff += 32 + sl
            if len(ch) == 32 + sl and sig_ok(akey, ch[:32], ch[32:]):
                good.append((akey, ch[:32]))
            else:
                bad += 1
        return good, bad

    # ------------------------------------------------------------------ the consent model
    def classify(node: str, key: bytes, mdh: bytes, now: float) -> tuple:
        """Verdict of the consent model for an attestation by ``node`` over metadata ``mdh`` of subject ``key``."""
        md = m.mds.get((node, key), {}).get(mdh)
        if md is None:
            return "no_metadata", None
        ptr, js, valid = md
        if not valid:
            return "bad_metadata_signature", None
        toks = m.tokens.get((node, key), {})
        if ptr not in toks:
            return "no_token", None
        genesis, cur, steps = sha3(key), ptr, 0
        while True:
            prev = toks[cur][0]
            if prev == genesis:
                break
            if prev not in toks or steps > 2000:
                return "broken_chain", None
            cur, steps = prev, steps + 1
        try:
            tx = json.loads(js)
            name = tx.get("name")
            extra = {k: v for k, v in tx.items() if k not in ("name", "date", "schema")}
        except Exception:  # noqa: BLE001
            return "bad_metadata_json", None
        cand = [r for r in m.regs[node] if r["h"] == toks[ptr][1]]
        if not cand:
            return "no_registration", None
        cand = [r for r in cand if r["key"] == key]
        if not cand:
            return "other_subject_key", None
        cand = [r for r in cand if r["name"] == name]
        if not cand:
            return "wrong_name", None
        cand = [r for r in cand if r["md"] is None or r["md"] == extra]
        if not cand:
            return "wrong_metadata", None
        live = [r for r in cand if not now > r["t"] + 300]
        if not live:
            return "expired", None
        return "ok", {"age": min(now - r["t"] for r in live), "free_extra": bool(extra) and any(r["md"] is None for r in live)}

    KEY_OF_VERDICT = {"no_metadata": "attested_unverifiable_chain", "bad_metadata_signature": "attested_unverifiable_chain",
                      "no_token": "attested_unverifiable_chain", "broken_chain": "attested_unverifiable_chain",
                      "bad_metadata_json": "attested_unverifiable_chain",
                      "no_registration": "attested_without_registration",
                      "other_subject_key": "attested_for_other_subject_key", "wrong_name": "attested_wrong_name",
                      "wrong_metadata": "attested_wrong_metadata", "expired": "attested_expired_registration"}

    def ops_text() -> str:
        return f"scenario={case.get('scenario')} seed={case.get('seed')} ops={json.dumps(case['ops'])[:700]}"

    # ------------------------------------------------------------------ observers
    def on_deliver(pkt, tr) -> None:  # noqa: ANN001
        node = tr.host.name
        rec = parse(pkt.data)
        if rec is None:
            return
        rec.update(node=node, t=world.wall_time(), replay=pkt.id in replays, bad=0, atts=[], sent=[])
        delivered[pkt.id] = rec
        st["pending"] = (pkt.id, node)
        if not rec["valid"]:
            return
        key, p = rec["key"], rec["payload"]
        if rec["msg"] in (1, 4):
            good, bad = split_tokens(p.tokens, key)
            rec["bad"] += bad
            store = m.tokens.setdefault((node, key), {})
            for th, prev, content in good:
                store[th] = (prev, content)
        if rec["msg"] == 1:
            mstore = m.mds.setdefault((node, key), {})
            for mdh, ptr, js, valid in split_metadata(p.metadata, key):
                if valid or mdh not in mstore:
                    mstore[mdh] = (ptr, js, valid)
            good, bad = split_attestations(p.attestations, p.authorities)
            rec["bad"] += bad
            rec["atts"] = good
            for akey, mptr in good:
                if akey != key_of[node]:
                    m.foreign.add((node, mptr))
        if rec["msg"] in (1, 4):
            # what the model says about every not yet attested metadata of this subject, now (for the reach probes)
            own_reg = any(r["key"] == key and not rec["t"] > r["t"] + 300 for r in m.regs[node])
            for mdh in m.mds.get((node, key), {}):
                if mdh not in m.attested[node]:
                    v = classify(node, key, mdh, rec["t"])[0]
                    if rec["bad"] and v == "ok":
                        v = "tampered"
                    m.verdicts[(node, key, mdh)] = (v, own_reg)

    def check_attest(node: str, pkt, rec: dict) -> None:  # noqa: ANN001
        now = world.wall_time()
        att = rec["payload"].attestation
        mdh = att[:32]
        cause = delivered.get(pkt.cause)
        key = cause["key"] if cause is not None and cause["valid"] else addr_key.get(tuple(pkt.dst))
        if key is None:
            c.violate("consent", "attested_without_registration",
                      f"{node} sent an AttestPayload for metadata {mdh.hex()[:16]} to {pkt.dst} which is no known subject; "
                      + ops_text())
            return
        who = name_of.get(key, key.hex()[-12:])
        verdict, info = classify(node, key, mdh, now)
        times = m.attested[node].get(mdh, 0)
        if times == 0 and (node, mdh) in m.foreign:
            m.foreign_first.add((node, mdh))
        m.attested[node][mdh] = times + 1
        decisions.append(f"att:{verdict}")
        if verdict != "ok":
            if verdict == "no_metadata" and any(mdh in d for (n2, _k), d in m.mds.items() if n2 == node):
                verdict = "other_subject_key_metadata"
            regs = [(name_of.get(r["key"]), r["name"], r["md"], round(now - r["t"], 3)) for r in m.regs[node]]
            c.violate("consent", KEY_OF_VERDICT.get(verdict, "attested_unverifiable_chain"),
                      f"{node} attested metadata {mdh.hex()[:16]} for subject {who}: consent model says '{verdict}' "
                      f"(registrations of {node} as (subject, name, fixed metadata, age): {regs}); " + ops_text())
            return
        if cause is not None and cause["bad"]:
            c.violate("consent", "attested_unverifiable_chain",
                      f"{node} attested metadata {mdh.hex()[:16]} for {who} in reaction to a datagram (msg {cause['msg']}) "
                      f"in which {cause['bad']} token(s)/attestation(s) do not verify; " + ops_text())
            return
        if times:
            fk = (node, mdh) in m.foreign_first
            c.violate("consent", "attested_twice_after_foreign_attestation_disclosed" if fk else "attested_twice",
                      f"{node} sent AttestPayload number {times + 1} for the same metadata {mdh.hex()[:16]} of {who}"
                      + (" (a valid attestation of another authority over it was disclosed before the first one)" if fk else "")
                      + "; " + ops_text())
            return
        c.probe("honest_attestation")
        if info["age"] >= 290:
            c.probe("just_below_300s_attested")
        if info["free_extra"]:
            c.probe("extra_metadata_allowed_attested")
        if cause is not None and cause["replay"]:
            c.probe("replayed_disclosure_attested_first_time")

    def check_tokens_out(node: str, pkt, rec: dict) -> None:  # noqa: ANN001
        raw = rec["payload"].tokens
        cause = delivered.get(pkt.cause)
        if rec["msg"] == 4 and cause is not None and cause["msg"] == 3 and cause["valid"]:
            peer_key = cause["key"]
        else:
            peer_key = addr_key.get(tuple(pkt.dst))
        who = name_of.get(peer_key, "?")
        good, _ = split_tokens(raw, key_of[node])
        pos = [m.chain[node].index(th) for th, _p, _c in good if th in m.chain[node]]
        perm = m.perms[node].get(peer_key)
        n_chain = len(m.chain[node])
        what = "MissingResponsePayload" if rec["msg"] == 4 else "DisclosePayload"
        if pos and perm is None:
            decisions.append("tok:unpermitted")
            c.violate("permission", "tokens_sent_to_unpermitted_peer",
                      f"{node} sent a {what} with own tokens at positions {pos[:12]} to {who}, to whom its user never "
                      f"opened anything; " + ops_text())
            return
        if pos and max(pos) >= perm:
            decisions.append("tok:beyond")
            c.violate("permission", "tokens_sent_beyond_permitted_index",
                      f"{node} sent a {what} with own tokens at positions {pos[:12]} to {who}; its user opened only "
                      f"positions below {perm} (chain length {n_chain}); " + ops_text())
            return
        if rec["msg"] != 4:
            return
        known = cause["payload"].known if cause is not None and cause["msg"] == 3 else None
        if perm is None:
            if n_chain and cause is not None:
                decisions.append("tok:refused")
                c.probe("missing_request_unpermitted_refused")
            return
        if pos:
            decisions.append(f"tok:{min(pos)}-{max(pos)}/{perm}/{n_chain}")
            c.probe("long_chain_missing_tokens_served")
        if perm < n_chain and known is not None and (not pos or max(pos) == perm - 1) and known + 10 > perm:
            # an unrestricted answer would have continued past the permitted index
            c.probe("missing_request_beyond_index_limited")

    def on_send(pkt, fate) -> None:  # noqa: ANN001
        node = pkt.src_node
        if node is None or pkt.injected or pkt.dup or fate == "dup":
            return          # a copy made by the network is not something the node produced
        rec = parse(pkt.data)
        if rec is None or rec["key"] != key_of.get(node):
            return
        if pkt.cause in delivered:
            delivered[pkt.cause]["sent"].append(rec["msg"])
        if rec["msg"] == 1:
            captured_disc.setdefault((node, name_of.get(addr_key.get(tuple(pkt.dst)))), []).append(pkt.data)
        if st["crafting"]:
            return
        if rec["msg"] == 2:
            captured_att.append(rec["payload"].attestation)
            check_attest(node, pkt, rec)
        elif rec["msg"] == 4:
            check_tokens_out(node, pkt, rec)
        elif rec["msg"] == 1:
            st["deferred"].append((node, pkt, rec))      # evaluated when the op that sends it has updated the chain

    store_of: dict = {}

    def read_rows(node: str) -> set:
        db = nodes[node].im.database
        con = getattr(db, "_connection", None)
        if con is None:
            return db_rows[store_of.get(node, node)]
        return {tuple(bytes(x) for x in row) for row in
                con.execute("SELECT public_key, authority_key, metadata_pointer, signature FROM Attestations").fetchall()}

    def diff_rows(node: str, rec: dict | None) -> None:
        rows = read_rows(node)
        new = rows - db_rows[store_of.get(node, node)]
        db_rows[store_of.get(node, node)] = rows
        for pub, auth, mptr, sig in sorted(new):
            ok = sig_ok(auth, mptr, sig)
            if rec is not None and rec["msg"] == 2:
                if auth != rec["key"] or not ok or not rec["valid"]:
                    c.violate("storage", "stored_attestation_not_signed_by_sender",
                              f"{node} stored an attestation row (authority {name_of.get(auth, auth.hex()[-12:])}, metadata "
                              f"{mptr.hex()[:16]}, signature valid under that authority: {ok}) on delivery of an "
                              f"AttestPayload sent by {name_of.get(rec['key'], '?')}; " + ops_text())
                else:
                    c.probe("valid_attestation_stored")
                    decisions.append("row:sender")
            elif not ok:
                c.violate("storage", "stored_attestation_invalid_signature",
                          f"{node} stored an attestation row (authority {name_of.get(auth, auth.hex()[-12:])}, subject "
                          f"{name_of.get(pub, '?')}, metadata {mptr.hex()[:16]}) whose signature does not verify under the "
                          f"authority key (cause: msg {rec['msg'] if rec else None}); " + ops_text())
        if rec is not None and rec["msg"] == 2 and rec["valid"] and not new:
            att = rec["payload"].attestation
            if not sig_ok(rec["key"], att[:32], att[32:]):
                c.probe("third_party_attestation_refused")
                decisions.append("row:refused")

    def storm_filter(pkt):  # noqa: ANN001, ANN202
        """
        The network loses RequestMissing datagrams beyond REQ_BUDGET per (sender, destination) between two user ops.
        An authority answers every MissingResponse with one RequestMissing per registered-but-still-unknown attribute
        and the subject answers every request (even with nothing): an endless ping-pong, doubling per round trip when
        two attributes are missing.  Losing datagrams is legal network behaviour, so no oracle is affected.
        """
        if pkt.src_node is None or len(pkt.data) < 23 or pkt.data[22] != 3 or pkt.data[:22] != st["prefix"]:
            return None
        k = (pkt.src_node, tuple(pkt.dst))
        n = st["budget"][k] = st["budget"].get(k, 0) + 1
        if n > REQ_BUDGET:
            c.probe("request_missing_storm_cut")
            return "drop"
        return None

    def on_step(h) -> None:  # noqa: ANN001
        pend = st["pending"]
        if pend is None:
            return
        st["pending"] = None
        pid, node = pend
        diff_rows(node, delivered.get(pid))

    # ------------------------------------------------------------------ nodes
    def db_path(name: str) -> str:
        return os.path.join(tmpdir, f"{name}.db") if tmpdir else ":memory:"

    async def build() -> None:
        for name in NODES:
            node = SimNode(world, name, IPS[name])
            await node.open("udp")
            if case.get("shared_im") and name == "S2":
                node.im = nodes["S1"].im          # two pseudonyms of one user share the manager (and its database)
                store_of["S2"] = "S1"
                c.probe("two_pseudonyms_one_manager")
            else:
                node.im = node.call(IdentityManager, db_path(name))
            node.ov = node.add(IdentityCommunity, IdentitySettings(identity_manager=node.im))
            nodes[name] = node
            kb = node.my_peer.public_key.key_to_bin()
            key_of[name] = kb
            name_of[kb] = name
            addr_key[node.address] = kb
        st["prefix"] = nodes["A"].ov.get_prefix()

    def peer_for(to: str):  # noqa: ANN202
        return Peer(key_of[to], nodes[to].address)

    def crafted(node, fn, *a, **k):  # noqa: ANN001, ANN002, ANN003, ANN202
        st["crafting"] = True
        try:
            return node.call(fn, *a, **k)
        finally:
            st["crafting"] = False

    def note_chain(node) -> None:  # noqa: ANN001
        """Record the token / metadata the node's user just appended to the node's own chain."""
        tok = node.ov.token_chain[-1]
        prev = m.chain[node.name][-1] if m.chain[node.name] else sha3(key_of[node.name])
        if tok.previous_token_hash != prev:
            msg = f"own chain of {node.name} is not linear"
            raise RuntimeError(msg)
        m.chain[node.name].append(tok.get_hash())
        m.chain_md[node.name].append(node.ov.metadata_chain[-1].get_hash())

    def flush_deferred() -> None:
        for node, pkt, rec in st["deferred"]:
            check_tokens_out(node, pkt, rec)
        st["deferred"].clear()

    poison: set = set()

    def tamper_fit(node, kind: str, ti: int):  # noqa: ANN001, ANN202
        orig = node.ov._fit_disclosure  # noqa: SLF001
        rng = world.stream("tamper")

        def fit(disclosure):  # noqa: ANN001, ANN202
            md, toks, atts, auths = orig(disclosure)
            n = len(toks) // TOK
            if kind == "token_sig" and n:
                i = (ti % n) * TOK + 64 + 5
                toks = toks[:i] + bytes([toks[i] ^ 0x10]) + toks[i + 1:]
            elif kind == "token_sig_persistent" and n:
                # a DISHONEST subject: one token of its chain never carries a valid signature, in whatever message it travels
                j = (ti % n) * TOK
                poison.add(toks[j:j + 64])
                c.probe("subject_never_sends_a_valid_signature_for_one_token")
                if not getattr(node.ov, "_c17_poisoned", False):
                    node.ov._c17_poisoned = True  # noqa: SLF001
                    inner_send = node.ov.ez_send

                    def poisoned_send(peer, *payloads, **kw):  # noqa: ANN001, ANN002, ANN003, ANN202
                        for pl in payloads:
                            tk = getattr(pl, "tokens", None)
                            if isinstance(tk, (bytes, bytearray)) and tk:
                                b = bytearray(tk)
                                for q in range(0, len(b) - TOK + 1, TOK):
                                    if bytes(b[q:q + 64]) in poison:
                                        b[q + 64 + 5] ^= 0x10
                                pl.tokens = bytes(b)
                        return inner_send(peer, *payloads, **kw)
                    node.ov.ez_send = poisoned_send
                for q in range(0, len(toks) - TOK + 1, TOK):
                    if toks[q:q + 64] in poison:
                        toks = toks[:q + 69] + bytes([toks[q + 69] ^ 0x10]) + toks[q + 70:]
            elif kind == "extra_bad_token":
                toks = toks + rng.randbytes(TOK)
            elif kind == "md_sig":
                md = md[:-3] + bytes([md[-3] ^ 0x01]) + md[-2:]
            elif kind == "md_json":
                md = md.replace(b'"n0"', b'"nX"').replace(b'"n1"', b'"n0"').replace(b'"n2"', b'"n1"').replace(b'"nX"', b'"n2"')
            elif kind == "bad_attestation":
                (ln,) = struct.unpack_from(">I", md, 0)
                atts = sha3(md[4:4 + ln]) + rng.randbytes(SIG)
                auths = struct.pack(">H", len(key_of["T"])) + key_of["T"]
            return md, toks, atts, auths
        return fit

    # ------------------------------------------------------------------ ops
    async def run_op(op: dict) -> None:  # noqa: C901, PLR0912, PLR0915
        kind = op["op"]
        if kind == "sleep":
            await asyncio.sleep(float(op["dt"]))
            return
        node = nodes[op["node"]]
        if kind == "reg":
            h = attr_hash(op["h"])
            md = op.get("md")
            node.call(node.ov.add_known_hash, h, op["name"], key_of[op["subj"]], None if md is None else dict(md))
            m.regs[node.name].append({"h": pad_hash(h), "key": key_of[op["subj"]], "name": op["name"],
                                      "md": None if md is None else dict(md), "t": world.wall_time()})
        elif kind == "adv":
            cred = node.call(node.ov.self_advertise, attr_hash(op["h"]), op["name"], "id_metadata", op.get("md"))
            if cred is not None:
                note_chain(node)
        elif kind == "adv_many":
            for _ in range(int(op["n"])):
                st["pad"] += 1
                cred = node.call(node.ov.self_advertise, sha3(b"c17-pad-%d" % st["pad"]), f"p{st['pad']}")
                if cred is not None:
                    note_chain(node)
        elif kind == "req":
            to = op["to"]
            if to == node.name:
                return
            before = len(node.ov.token_chain)
            # the user's intent: open the whole chain including the new credential to this peer
            old = m.perms[node.name].get(key_of[to])
            m.perms[node.name][key_of[to]] = len(m.chain[node.name]) + 1
            args = (peer_for(to), attr_hash(op["h"]), op["name"], "id_metadata", op.get("md"))
            if op.get("tamper"):
                node.ov._fit_disclosure = tamper_fit(node, op["tamper"], int(op.get("ti", 0)))  # noqa: SLF001
                try:
                    crafted(node, node.ov.request_attestation_advertisement, *args)
                finally:
                    del node.ov._fit_disclosure  # noqa: SLF001
            else:
                node.call(node.ov.request_attestation_advertisement, *args)
            if len(node.ov.token_chain) > before:
                note_chain(node)
            elif old is None:
                del m.perms[node.name][key_of[to]]
            else:
                m.perms[node.name][key_of[to]] = old
            flush_deferred()
        elif kind == "disclose":
            to = op["to"]
            if to == node.name:
                return
            md = node.call(node.ov.get_attestation_by_hash, attr_hash(op["h"]))
            if md is None:
                return
            pm = node.ov.pseudonym_manager
            sel = {a.get_hash() for a in pm.database.get_attestations_over(md)} if op.get("atts") else set()
            disc = node.call(pm.create_disclosure, {md}, sel)
            crafted(node, node.ov.ez_send, peer_for(to), DisclosePayload(*node.ov._fit_disclosure(disc)))  # noqa: SLF001
        elif kind == "replay":
            lst = captured_disc.get((node.name, op["to"]))
            if not lst:
                return
            pkt = net.inject(node.address, nodes[op["to"]].address, lst[int(op.get("k", 0)) % len(lst)], label="replay")
            replays.add(pkt.id)
        elif kind == "poke":
            if op["to"] != node.name:
                crafted(node, node.ov.ez_send, peer_for(op["to"]), MissingResponsePayload(b""))
        elif kind == "req_missing":
            if op["to"] != node.name:
                crafted(node, node.ov.ez_send, peer_for(op["to"]), RequestMissingPayload(int(op["known"])))
        elif kind == "attest_forge":
            to = op["to"]
            if to == node.name:
                return
            mode = op["mode"]
            target = m.chain_md[to][-1] if m.chain_md[to] else sha3(b"c17-nothing")
            if mode == "forward" and captured_att:
                raw = captured_att[-1]
            elif mode == "self_md":
                # the sender attests its OWN newest metadata and hands that to the peer (which stores any attestation validly signed
                # by its sender)
                own_md = m.chain_md[node.name][-1] if m.chain_md[node.name] else sha3(b"c17-nothing")
                raw = Attestation(own_md, private_key=node.my_peer.key).get_plaintext_signed()
                c.probe("subject_sent_self_signed_attestation_first")
            elif mode == "own":
                raw = Attestation(target, private_key=node.my_peer.key).get_plaintext_signed()
            elif mode == "own_random":
                raw = Attestation(world.stream("forge").randbytes(32), private_key=node.my_peer.key).get_plaintext_signed()
            elif mode == "third_key":
                k3 = node.call(default_eccrypto.generate_key, "curve25519")
                raw = Attestation(target, private_key=k3).get_plaintext_signed()
            else:
                raw = target + world.stream("forge").randbytes(SIG)
            crafted(node, node.ov.ez_send, peer_for(to), AttestPayload(raw))
        elif kind == "restart":
            if tmpdir is None or node.name != "A":
                return
            await node.acall(node.ov.unload)
            node.overlays.remove(node.ov)
            node.im.database.close()
            node.im = node.call(IdentityManager, db_path(node.name))
            node.ov = node.add(IdentityCommunity, IdentitySettings(identity_manager=node.im))
            c.probe("authority_restarted")
        else:
            msg = f"unknown op {kind}"
            raise ValueError(msg)

    async def main() -> None:
        await build()
        net.on_deliver.append(on_deliver)
        net.on_send.append(on_send)
        net.filters.append(storm_filter)
        c.loop.on_step = on_step
        for i, op in enumerate(case["ops"]):
            world.trace.event("op", op.get("node"), op["op"], i)
            st["budget"] = {}
            await run_op(op)
        await asyncio.sleep(float(case.get("drain", 4.0)))
        c.loop.on_step = None
        for name in NODES:
            diff_rows(name, None)
        for node in nodes.values():
            await node.stop()

    try:
        world.run(main())
    finally:
        for node in nodes.values():
            try:
                if getattr(node.im.database, "_connection", None) is not None:
                    node.im.database.close()
            except Exception:  # noqa: BLE001, S110
                pass
        if tmpdir:
            shutil.rmtree(tmpdir, ignore_errors=True)

    # ------------------------------------------------------------------ reach probes from the model's verdicts
    probe_of = {"other_subject_key": "wrong_subject_refused", "wrong_name": "wrong_name_refused",
                "wrong_metadata": "wrong_metadata_refused", "expired": "expired_registration_refused",
                "no_registration": "unregistered_refused", "tampered": "tampered_disclosure_refused",
                "bad_metadata_signature": "tampered_disclosure_refused", "broken_chain": "incomplete_chain_not_attested",
                "no_token": "incomplete_chain_not_attested", "ok": "consented_but_not_attested"}
    for (node, _key, mdh), (v, own_reg) in sorted(m.verdicts.items()):
        if mdh in m.attested[node]:
            continue
        p = probe_of.get(v)
        if p:
            c.probe(p)
            decisions.append("ref:" + v)
            if v == "other_subject_key" and own_reg:
                c.probe("wrong_subject_with_own_registration_refused")
    for rec in delivered.values():
        if rec["replay"] and rec["valid"] and rec["msg"] == 1 and 2 not in rec["sent"]:
            mdhs = [x[0] for x in split_metadata(rec["payload"].metadata, rec["key"])]
            if any(h in m.attested[rec["node"]] for h in mdhs):
                c.probe("replay_refused")
                decisions.append("replay:refused")

    # ------------------------------------------------------------------ non-vacuity (fault-free fixed cases only)
    if not case.get("knobs"):
        for p in case.get("expect") or ():
            if p in MUST_HAPPEN and not world.probes.get(p):
                c.violate("non_vacuity", "honest_attestation_did_not_happen",
                          f"fault-free case {case.get('scenario')}: expected '{p}' did not happen; " + ops_text())
    if decisions:
        c.nontrivial("|".join(sorted(set(decisions))) + f"#{len(decisions)}")
    world.trace.event("c17", None, len(decisions), ",".join(decisions[:20]))
    c.sample = {"scenario": case.get("scenario"), "db": case.get("db"), "knobs": case.get("knobs"),
                "ops": case["ops"][:12], "decisions": decisions[:16],
                "registrations": {n: len(v) for n, v in m.regs.items() if v},
                "attested": {n: len(v) for n, v in m.attested.items() if v}}
    return c.result()
