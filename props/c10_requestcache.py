"""
C10 - each outstanding request is resolved exactly once.

A real ``RequestCache`` (and ``TaskManager`` under it) runs on the virtual-time loop.  The workload is a list of
operations with explicit virtual issue times, many of them placed within microseconds of a time-out deadline; the
scheduler's timer lateness / callback cost decide which of the racing events is first.  A reference model is kept
in lock-step (it only needs the order in which things *happened*, which the instrumented caches report).
"""
from __future__ import annotations

import asyncio
import itertools
import random

from simkit.scenario import Case

PROPERTY = "C10"
LEVEL = "exploration"
BUDGET = {"quick": 25, "thorough": 420}
CHUNK = 40
ENUMERATED = {"quick": False, "thorough": False}
RULE = ("case = explicit op list (add/pop/has/passthrough-add/wait_for/clear/shutdown/retrieve_cache handler, with issue "
        "times, many within +-200us of a time-out deadline, plus re-entrant pops/adds from on_timeout) + scheduler knobs; "
        "quick also contains the enumerated grid of 1..3 caches x {no pop, pop before/at-/at+/after deadline, pop from "
        "another cache's on_timeout} x {none, clear, shutdown at a deadline}. Non-trivial = at least one race window hit "
        "(an operation executed within 1 ms of a deadline of an outstanding cache) or a re-entrant operation ran; "
        "distinct = distinct sequence of (operation, outcome) pairs.")
COMPONENTS = {"real": ["ipv8.requestcache.RequestCache/NumberCache/RandomNumberCache", "ipv8.taskmanager.TaskManager",
                       "ipv8.lazy_community.retrieve_cache", "asyncio Task/Future machinery"],
              "stub": ["event loop clock and scheduler (simkit.SimLoop)"]}
ASSUMPTIONS = ["single-threaded use of RequestCache (its locks are exercised without contention)",
               "asyncio call_soon FIFO and Task cancellation semantics are trusted"]
REACH = ["race_pop_vs_expiry", "reentrant_pop", "reentrant_add", "shutdown_with_outstanding", "dup_add_refused",
         "pop_after_timeout_keyerror", "readd_same_object", "timeout_fired", "future_completed_on_timeout", "timeout_with_user_completed_future", "same_object_reissued_in_same_tick", "handler_raised_on_claimed_response", "handler_reused_identity", "handler_hit", "handler_miss"]

DELAYS = [0.5, 1.0, 1.0, 2.0, 10.0]
IDS = [("a", 1), ("a", 2), ("b", 1), ("b", 2), ("retrievable", 7)]


# --------------------------------------------------------------------------- case generation
def _random_case(seed: int) -> dict:
    rng = random.Random(f"c10/{seed}")
    n_ops = rng.choice([3, 5, 8, 12, 20, 40])
    horizon = rng.choice([3.0, 6.0, 12.0])
    ops = []
    deadlines = []
    for _ in range(n_ops):
        kind = rng.choices(["add", "pop", "has", "ptadd", "wait_for", "clear", "shutdown", "handler", "register_dup", "readd_same",
                            "add_shared_future", "partial", "pop_readd"],
                           [30, 25, 8, 6, 5, 3, 3, 12, 4, 4, 3, 6, 6])[0]
        if deadlines and rng.random() < 0.6:
            t = rng.choice(deadlines) + rng.choice([-2e-4, -2e-5, -1e-6, 0.0, 0.0, 1e-6, 2e-5, 2e-4, 1e-3])
        else:
            t = rng.random() * horizon
        t = max(0.0, t)
        ident = rng.choice(IDS)
        op = {"t": round(t, 7), "op": kind, "id": list(ident)}
        if kind == "handler":
            op["hv"] = rng.choice([None, None, "raise", "follow"])
        if kind in ("add", "ptadd"):
            op["delay"] = rng.choice(DELAYS) if kind == "add" else rng.choice([0.0, 0.1, 1.0])
            op["fut"] = rng.choice([None, None, "value", "exc", "two"])
            op["react"] = rng.choice([None, None, None, "pop_other", "add_same", "add_other", "pop_self"])
            if op["react"] in ("pop_other", "add_other"):
                op["other"] = list(rng.choice(IDS))
            eff = op["delay"] if kind == "add" else op["delay"]
            deadlines.append(t + eff)
        if kind == "wait_for":
            op["timeout"] = rng.choice([None, 0.5, 2.0])
        ops.append(op)
    if rng.random() < 0.1:
        t0 = rng.choice([0.5, 595.0, 890.0, 1495.0])
        ops.append({"t": t0, "op": "add", "id": list(rng.choice(IDS)), "delay": rng.choice([10.0, 650.0, 1000.0]), "fut": rng.choice([None, "value", "two"]),
                    "react": None})
        if rng.random() < 0.6:
            ops.append({"t": t0 + rng.choice([0.5, 3.0]), "op": "wall_jump", "id": list(IDS[0]), "delta": rng.choice([-3600.0, 650.0, 3600.0])})
    ops.sort(key=lambda o: o["t"])
    knobs = {"timer_jitter": rng.choice([0.0, 0.0, 1e-5, 1e-3, 0.05])}
    return {"scenario": "random", "seed": seed, "knobs": knobs, "ops": ops, "horizon": horizon + 12.0}


def _grid_cases():  # noqa: ANN202
    """Enumerated grid: timing fully explicit (no jitter, no callback cost)."""
    knobs = {"timer_jitter": 0.0, "exec_cost": (0.0, 0.0)}
    pops = [None, -0.1, -1e-6, 0.0, 1e-6, 0.1, "from_other"]
    glob = [None, ("clear", -1e-6), ("clear", 1e-6), ("shutdown", -1e-6), ("shutdown", 0.0), ("shutdown", 1e-6)]
    n = 0
    for ncaches in (1, 2, 3):
        for delays in itertools.product([1.0, 2.0], repeat=ncaches):
            for popsel in itertools.product(pops, repeat=ncaches):
                for g in glob:
                    ops = []
                    for i in range(ncaches):
                        op = {"t": 0.0, "op": "add", "id": ["g", i], "delay": delays[i], "fut": "value", "react": None}
                        if "from_other" in popsel:
                            j = popsel.index("from_other")
                            if i != j and i == (j + 1) % ncaches:
                                op["react"] = "pop_other"
                                op["other"] = ["g", j]
                        ops.append(op)
                    for i, p in enumerate(popsel):
                        if p is not None and p != "from_other":
                            ops.append({"t": round(delays[i] + p, 7), "op": "pop", "id": ["g", i]})
                    if g is not None:
                        ops.append({"t": round(delays[0] + g[1], 7), "op": g[0], "id": ["g", 0]})
                    ops.sort(key=lambda o: o["t"])
                    n += 1
                    yield {"scenario": "grid", "seed": n, "knobs": knobs, "ops": ops, "horizon": 4.0}


def _long_cases():  # noqa: ANN202
    """Requests that stay outstanding for a long time (the TaskManager's periodic task-age check runs at 900 s, 1500 s, ...) and
    wall-clock steps while requests are outstanding."""
    knobs = {"timer_jitter": 0.0, "exec_cost": (0.0, 0.0)}
    n = 0
    for delay in (700.0, 1000.0, 1600.0):
        for fut in ("value", "two", None):
            n += 1
            yield {"scenario": "long", "seed": 9000 + n, "knobs": knobs, "horizon": delay + 20.0,
                   "ops": [{"t": 1.0, "op": "add", "id": ["g", 0], "delay": delay, "fut": fut, "react": None},
                           {"t": 2.0, "op": "add", "id": ["g", 1], "delay": 2.0, "fut": "value", "react": None}]}
    for delta in (3600.0, -3600.0, 700.0):
        for t_add in (880.0, 897.0, 1490.0):
            n += 1
            yield {"scenario": "long", "seed": 9000 + n, "knobs": knobs, "horizon": t_add + 40.0,
                   "ops": [{"t": t_add, "op": "add", "id": ["g", 0], "delay": 10.0, "fut": "value", "react": None},
                           {"t": t_add + 1.0, "op": "wall_jump", "id": ["g", 0], "delta": delta},
                           {"t": t_add + 2.0, "op": "add", "id": ["g", 1], "delay": 10.0, "fut": "two", "react": None}]}


def cases(tier: str, base_seed: int):  # noqa: ANN201
    yield from _long_cases()
    if tier == "thorough":
        yield from _grid_cases()
    else:
        yield from itertools.islice(_grid_cases(), 0, None, 7)
    for i in itertools.count():
        yield _random_case(base_seed + i)


# --------------------------------------------------------------------------- execution
def execute(case: dict) -> dict:  # noqa: C901, PLR0915
    from ipv8.lazy_community import retrieve_cache
    from ipv8.requestcache import NumberCache, RequestCache

    c = Case(case)
    loop = c.loop
    rc = RequestCache()
    log: list = []       # (what, id, outcome)
    st = {"shutdown": False, "shutdown_requested": False}
    model: dict = {}     # identity -> Tracked (outstanding)
    all_caches: list = []

    class Tracked(NumberCache):
        name = "retrievable"

        def __init__(self, ident, delay, fut_kind, react, other) -> None:  # noqa: ANN001
            super().__init__(rc, ident[0], ident[1])
            self.ident = tuple(ident)
            self._delay = delay
            self.react = react
            self.other = tuple(other) if other else None
            self.fired = 0
            self.added_at = None
            self.eff_delay = delay
            self.resolved = None      # None | "popped" | "timeout" | "cleared" | "shutdown"
            self.fut = None
            self.fut_kind = fut_kind
            self.fut2 = None          # a second managed future (fut_kind "two"), completed with an exception on time-out
            self.user_value = None    # set when the user completed the first future itself (partial answer, cache kept)
            if fut_kind == "two":
                self.fut2 = loop.create_future()
            if fut_kind:
                self.fut = loop.create_future()
                self.exc = RuntimeError("timeout-exc")
                self.register_future(self.fut, self.exc if fut_kind == "exc" else ("TV", ident[1]))
                if self.fut2 is not None:
                    self.register_future(self.fut2, self.exc)

        @property
        def timeout_delay(self) -> float:
            return self._delay

        def on_timeout(self) -> None:
            now = loop.time()
            self.fired += 1
            c.probe("timeout_fired")
            log.append(("timeout", self.ident, self.fired))
            if self.fired > 1:
                c.violate("timeout_once", "on_timeout_twice", f"on_timeout of {self.ident} ran {self.fired} times")
            if self.resolved is not None:
                c.violate("resolved_once", f"timeout_after_{self.resolved}",
                          f"on_timeout of {self.ident} ran at {now:.6f} after it was {self.resolved}")
            if st["shutdown"]:
                c.violate("shutdown_silent", "timeout_after_shutdown", f"on_timeout of {self.ident} ran after shutdown()")
            if now < self.added_at + self.eff_delay - 1e-9:
                c.violate("not_early", "timeout_early",
                          f"{self.ident} timed out at {now:.6f}, before {self.added_at}+{self.eff_delay}")
            if model.get(self.ident) is self:
                del model[self.ident]
            if self.resolved is None:
                self.resolved = "timeout"
            if rc.has(*self.ident) and rc.get(*self.ident) is self:
                c.violate("resolved_once", "still_registered_in_on_timeout",
                          f"{self.ident} still claimable from inside its own on_timeout")
            # re-entrant behaviour
            if self.react == "pop_other":
                c.probe("reentrant_pop")
                do_pop(self.other, "re-pop")
            elif self.react == "pop_self":
                c.probe("reentrant_pop")
                do_pop(self.ident, "re-pop-self")
            elif self.react in ("add_same", "add_other"):
                c.probe("reentrant_add")
                do_add(self.ident if self.react == "add_same" else self.other, 1.0, None, None, None, "re-add")
            if self.fut is not None:
                loop.call_soon(self.check_future)

        def check_future(self) -> None:
            f = self.fut
            if self.fut2 is not None:
                f2 = self.fut2
                if not f2.done():
                    c.violate("future_on_timeout", "future_not_completed_on_timeout",
                              f"second managed future of {self.ident} not done after its time-out "
                              f"(first future {'was completed by the user before' if self.user_value else 'pending'})")
                    return
                if f2.cancelled():
                    if not st["shutdown_requested"]:
                        c.violate("future_on_timeout", "future_cancelled_on_timeout", f"second managed future of {self.ident} cancelled")
                elif f2.exception() is not self.exc:
                    c.violate("future_on_timeout", "future_wrong_exception", f"{self.ident} second future: {f2.exception()!r}")
            if self.user_value is not None:
                c.probe("timeout_with_user_completed_future")
                if f.cancelled() or f.exception() is not None or f.result() != self.user_value:
                    c.violate("future_on_timeout", "user_completed_future_overwritten", f"{self.ident}: {f!r}")
                return
            if not f.done():
                c.violate("future_on_timeout", "future_not_completed_on_timeout",
                          f"managed future of {self.ident} not done after its time-out")
                return
            c.probe("future_completed_on_timeout")
            if f.cancelled():
                if not st["shutdown_requested"]:
                    c.violate("future_on_timeout", "future_cancelled_on_timeout", f"managed future of {self.ident} cancelled")
                return
            if self.fut_kind == "exc":
                if f.exception() is not self.exc:
                    c.violate("future_on_timeout", "future_wrong_exception", f"{self.ident}: {f.exception()!r}")
            elif f.exception() is not None or f.result() != ("TV", self.ident[1]):
                c.violate("future_on_timeout", "future_wrong_value", f"{self.ident}: {f!r}")

    class Host:
        """Minimal overlay stand-in for the retrieve_cache decorator."""

        request_cache = rc
        logger = __import__("logging").getLogger("c10")
        hits: list = []

        @retrieve_cache(Tracked)
        def on_response(self, peer, payload, cache) -> None:  # noqa: ANN001
            self.hits.append(cache)

        @retrieve_cache(Tracked)
        def on_response_raises(self, peer, payload, cache) -> None:  # noqa: ANN001
            # a handler that fails on the (claimed) response
            self.hits.append(cache)
            msg = "handler failed"
            raise ValueError(msg)

        @retrieve_cache(Tracked)
        def on_response_follow_up(self, peer, payload, cache) -> None:  # noqa: ANN001
            # a handler that immediately issues the follow-up request under the identity it has just been answered on
            self.hits.append(cache)
            self.follow = do_add(cache.ident, 1.0, None, None, None, "follow-up")

    host = Host()

    class P:
        def __init__(self, i) -> None:  # noqa: ANN001
            self.identifier = i

    def near_deadline() -> bool:
        now = loop.time()
        return any(abs(t.added_at + t.eff_delay - now) < 1e-3 for t in model.values())

    def do_add(ident, delay, fut_kind, react, other, tag, pt=None) -> None:  # noqa: ANN001
        ident = tuple(ident)
        try:
            cache = Tracked(ident, delay, fut_kind, react, other)
        except RuntimeError:
            # NumberCache.__init__ refuses an identity that is in use
            if ident not in model:
                c.violate("dup_guard", "ctor_refused_free_identity", f"NumberCache({ident}) raised although identity is free")
            else:
                c.probe("dup_add_refused")
            log.append((tag, ident, "ctor-refused"))
            return
        if ident in model:
            c.violate("dup_guard", "ctor_accepted_used_identity", f"NumberCache({ident}) constructed while outstanding")
        _finish_add(cache, tag, pt)

    def _finish_add(cache, tag, pt) -> None:  # noqa: ANN001
        ident = cache.ident
        all_caches.append(cache)
        cache.added_at = loop.time()
        if pt is not None:
            cache.eff_delay = pt
            with rc.passthrough(timeout=pt):
                r = rc.add(cache)
        else:
            r = rc.add(cache)
        if st["shutdown_requested"]:
            if r is not None:
                c.violate("shutdown_gate", "add_after_shutdown", f"add({ident}) accepted after shutdown")
            if cache.fut is not None and not cache.fut.cancelled():
                c.violate("shutdown_gate", "future_not_cancelled_on_refused_add", f"{ident}")
            cache.resolved = "refused"
            log.append((tag, ident, "refused-shutdown"))
            return
        if ident in model:
            if r is not None:
                c.violate("dup_guard", "duplicate_add_accepted", f"add({ident}) accepted while outstanding")
            c.probe("dup_add_refused")
            cache.resolved = "refused"
            log.append((tag, ident, "refused-dup"))
            if rc.get(*ident) is not model[ident]:
                c.violate("dup_guard", "first_replaced_by_duplicate", f"{ident}")
            return
        if r is not cache:
            c.violate("add", "add_refused_free_identity", f"add({ident}) returned {r!r}")
            cache.resolved = "refused"
            return
        model[ident] = cache
        log.append((tag, ident, "added"))

    def do_pop(ident, tag) -> None:  # noqa: ANN001
        ident = tuple(ident)
        exp = model.get(ident)
        if exp is not None and abs(exp.added_at + exp.eff_delay - loop.time()) < 1e-3:
            c.probe("race_pop_vs_expiry")
            c.nontrivial_flag = True
        try:
            got = rc.pop(*ident)
        except KeyError:
            if exp is not None:
                c.violate("claim", "pop_keyerror_while_outstanding", f"pop({ident}) raised KeyError but request is outstanding")
            else:
                c.probe("pop_after_timeout_keyerror")
            log.append((tag, ident, "KeyError"))
            return
        if exp is None:
            c.violate("claim", "pop_succeeded_not_outstanding",
                      f"pop({ident}) returned {got!r} (resolved={getattr(got, 'resolved', '?')}) but nothing is outstanding")
        elif got is not exp:
            c.violate("claim", "pop_wrong_object", f"pop({ident})")
        if getattr(got, "resolved", None) is None:
            got.resolved = "popped"
        model.pop(ident, None)
        log.append((tag, ident, "popped"))

    def do_op(op: dict) -> None:  # noqa: C901
        kind = op["op"]
        ident = tuple(op["id"])
        if near_deadline():
            c.nontrivial_flag = True
        if kind == "add":
            do_add(ident, op["delay"], op.get("fut"), op.get("react"), op.get("other"), "add")
        elif kind == "ptadd":
            do_add(ident, 5.0, op.get("fut"), op.get("react"), op.get("other"), "ptadd", pt=op["delay"])
        elif kind == "register_dup":
            # a cache object built while the identity was free, added after someone else took it
            if ident not in model and not st["shutdown_requested"]:
                late = Tracked(ident, 1.0, "value", None, None)
                do_add(ident, 2.0, None, None, None, "add")
                _finish_add(late, "late-add", None)
        elif kind == "readd_same":
            # the caller adds the very object that is already outstanding (an idempotent retry): refused, first intact
            cur = model.get(ident)
            if cur is not None:
                c.probe("readd_same_object")
                r = rc.add(cur)
                if st["shutdown_requested"]:
                    return
                if r is not None:
                    c.violate("dup_guard", "duplicate_add_accepted", f"re-add of the outstanding object {ident} accepted")
                if rc.get(*ident) is not cur:
                    c.violate("dup_guard", "first_replaced_by_duplicate", f"{ident}")
                if cur.fut is not None and cur.fut.cancelled():
                    c.violate("dup_guard", "refused_add_damaged_outstanding_request",
                              f"the refused re-add of {ident} cancelled the future of the request that is still outstanding")
                log.append(("readd", ident, "refused"))
        elif kind == "pop_readd":
            # the response claims the request and the caller re-issues it at once with the SAME cache object (a retry object that is
            # reused), before the loop runs again: a new request in its own right - the old timer must not touch it
            cur = model.get(ident)
            if cur is not None and not st["shutdown_requested"] and cur.fut is None:
                do_pop(ident, "pop-for-readd")
                if ident not in model:
                    cur.resolved = None
                    cur.fired = 0
                    c.probe("same_object_reissued_in_same_tick")
                    _finish_add(cur, "re-issue", None)
        elif kind == "partial":
            # the user handles a partial answer: completes the first managed future itself, the request stays outstanding
            cur = model.get(ident)
            if cur is not None and cur.fut is not None and not cur.fut.done():
                cur.user_value = ("USER", len(log))
                cur.fut.set_result(cur.user_value)
                log.append(("partial", ident, None))
        elif kind == "add_shared_future":
            # a second cache object for the same identity that shares the caller's future with the outstanding one
            cur = model.get(ident)
            if cur is not None and cur.fut is not None and not st["shutdown_requested"]:
                c.probe("add_shared_future")
                twin = object.__new__(Tracked)
                NumberCache.__init__.__wrapped__(twin, rc, *ident) if hasattr(NumberCache.__init__, "__wrapped__") else None
                twin.__dict__.update({k: v for k, v in cur.__dict__.items()})
                twin._managed_futures = list(cur._managed_futures)  # noqa: SLF001
                r = rc.add(twin)
                if r is not None:
                    c.violate("dup_guard", "duplicate_add_accepted", f"add of a twin of {ident} accepted")
                if cur.fut.cancelled():
                    c.violate("dup_guard", "refused_add_damaged_outstanding_request",
                              f"the refused add of a second object for {ident} cancelled the outstanding request's future")
                log.append(("twin", ident, "refused"))
        elif kind == "pop":
            do_pop(ident, "pop")
        elif kind == "has":
            h, g = rc.has(*ident), rc.get(*ident)
            if h != (ident in model) or g is not model.get(ident):
                c.violate("lookup", "has_get_disagree_with_model", f"has({ident})={h} get={g!r} model={model.get(ident)!r}")
            log.append(("has", ident, h))
        elif kind == "handler":
            before = len(host.hits)
            exp = model.get(("retrievable", ident[1]))
            hv = op.get("hv")
            if exp is not None:
                # (the model claims the request before the handler body runs: a follow-up add inside the handler finds the identity free)
                exp.resolved = "popped"
                model.pop(("retrievable", ident[1]), None)
            try:
                (host.on_response_raises if hv == "raise" else host.on_response_follow_up if hv == "follow" else host.on_response)(
                    None, P(ident[1]))
            except ValueError:
                c.probe("handler_raised_on_claimed_response")
            if hv == "follow" and exp is not None:
                c.probe("handler_reused_identity")
            hit = len(host.hits) > before
            if hit != (exp is not None) or (hit and host.hits[-1] is not exp):
                c.violate("claim", "retrieve_cache_mismatch", f"handler for {ident[1]} hit={hit} outstanding={exp is not None}")
            if hit:
                c.probe("handler_hit")
            else:
                c.probe("handler_miss")
            log.append(("handler", ident[1], hit))
        elif kind == "wait_for":
            f = rc.wait_for(ident[0], ident[1], op.get("timeout"))
            if ident in model and not (f.done() and f.result() is model[ident]):
                c.violate("lookup", "wait_for_outstanding_not_immediate", f"{ident}")
            log.append(("wait_for", ident, f.done()))
        elif kind == "wall_jump":
            # the wall clock steps (NTP correction, resume from suspend); timers run on the loop's monotonic clock
            c.world.set_skew(None, c.world.skew.get(None, 0.0) + float(op["delta"]))
            c.world.fault("clock_jump")
            log.append(("wall_jump", None, op["delta"]))
        elif kind == "clear":
            rc.clear()
            for t in list(model.values()):
                t.resolved = "cleared"
            model.clear()
            if rc._identifiers:  # noqa: SLF001
                c.violate("clear", "clear_left_identifiers", str(list(rc._identifiers)))  # noqa: SLF001
            log.append(("clear", None, None))
        elif kind == "shutdown":
            async def sd() -> None:
                # first step of this task: the synchronous part of RequestCache.shutdown() runs in the same step
                if model:
                    c.probe("shutdown_with_outstanding")
                outstanding = list(model.values())
                st["shutdown_requested"] = True
                for t in outstanding:
                    t.resolved = "shutdown"
                model.clear()
                log.append(("shutdown", None, None))
                await rc.shutdown()
                st["shutdown"] = True
                for t in outstanding:
                    if t.fut is not None and not t.fut.done():
                        c.violate("shutdown_gate", "future_not_cancelled_by_shutdown", f"{t.ident}")
            all_caches.append(asyncio.ensure_future(sd()))

    c.nontrivial_flag = False

    async def main() -> None:
        for op in case["ops"]:
            loop.call_at(op["t"], do_op, op)
        # every operation is issued, and every time-out armed by it can fire, before the final inspection
        horizon = max([case["horizon"]] + [op["t"] + max(10.0, op.get("delay") or 0.0) + 1.0 for op in case["ops"]])
        await asyncio.sleep(horizon)
        # liveness: whatever is still outstanding must not be past its deadline (+ lateness bound)
        now = loop.time()
        slack = case["knobs"].get("timer_jitter", 0.0) * 3 + 0.01
        for t in all_caches:
            if not isinstance(t, Tracked):
                continue
            if t.resolved is None and t.added_at is not None and t.added_at + t.eff_delay + slack < now:
                c.violate("timeout_fires", "timeout_never_fired",
                          f"{t.ident} added at {t.added_at} delay {t.eff_delay} still unresolved at {now:.3f}")
            if t.resolved == "timeout" and t.fired != 1:
                c.violate("timeout_once", "timeout_count", f"{t.ident} fired {t.fired}")
        for ident, t in model.items():
            if rc.get(*ident) is not t:
                c.violate("lookup", "final_model_mismatch", f"{ident}")
        if set(rc._identifiers) != {f"{p}:{n}" for p, n in model}:  # noqa: SLF001
            c.violate("lookup", "final_identifier_set_mismatch", f"{sorted(rc._identifiers)} vs {sorted(model)}")  # noqa: SLF001
        if not st["shutdown_requested"]:
            await rc.shutdown()

    c.world.run(main())
    if c.nontrivial_flag or c.world.probes.get("reentrant_pop") or c.world.probes.get("reentrant_add"):
        c.nontrivial(repr([(a, b, str(o)) for a, b, o in log]))
    c.world.trace.event("log", None, repr(log))
    c.sample = {"scenario": case["scenario"], "ops": case["ops"][:12], "outcomes": [list(map(str, x)) for x in log[:16]]}
    return c.result()
