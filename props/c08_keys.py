"""
C08 - circuit hops are only keyed with the peer the originator chose.

Real circuits of 1..3 hops with retries (short next_hop_timeout) on a lossy / duplicating / reordering SimNet; a
misbehaving responder or relay (a real node whose outgoing created/extended answers are doctored) or an on-path attacker
(rewriting plaintext `created` cells in flight) manipulates the handshake according to an explicit fault list.  Every time
the originator appends a hop, the route is traced through the relays' tables to the entry held by the selected peer and
the session keys are compared byte by byte.
"""
from __future__ import annotations

import asyncio
import itertools
import random
import re
import struct

from simkit.boot import CAUSE, NODE
from simkit.scenario import Case

from .tunnel_lib import TunnelWorld, cell_parts

PROPERTY = "C08"
LEVEL = "exploration"
BUDGET = {"quick": 35, "thorough": 480}
CHUNK = 4
CASE_WALL = {"quick": 120, "thorough": 600}
ENUMERATED = {"quick": False, "thorough": False}
SHRINK_FIELDS = ("faults",)
RULE = ("case = (hop count 1..3, 4..6 nodes, number of circuits, next_hop_timeout 1..10 s so that retries happen, network knobs "
        "loss/dup/reorder/long delays, position of the misbehaving party: responder / middle relay / on-path attacker, explicit "
        "fault list on the k-th answer: bit flip in key / auth / identifier / circuit id / candidates, identifier or circuit-id "
        "swap between pending handshakes, replay of an earlier answer, duplicate answer, own ephemeral key with a correct "
        "HMAC; optionally every circuit ends in a required exit the relays have never met, so that the relay's extend handler waits "
        "0.05-4 s in a simulated DHT peer lookup; optionally the nodes' join policy (should_join_circuit) suspends for 10-300 ms). Non-trivial = a handshake in which an answer was lost, duplicated, late (after a retry) or manipulated; "
        "distinct by (hops, position, fault kind, hop index, outcome).")
COMPONENTS = {"real": ["TunnelCommunity create/created/extend/extended handlers and retry caches", "TunnelCrypto (X25519, HMAC, "
                       "HKDF via ipv8_rust_tunnels)", "PythonCryptoEndpoint", "RequestCache time-outs under virtual time",
                       "the misbehaving party runs the real code and only its outgoing answers are doctored"],
              "stub": ["UDP/IP (SimNet)", "wall clock", "OS RNG"]}
ASSUMPTIONS = ["X25519, HMAC and HKDF in ipv8_rust_tunnels are trusted",
               "an adversary substituting its own ephemeral key with a correct HMAC makes the originator accept a hop nobody can "
               "use; that is a broken circuit, not a key compromise, and is not flagged (the statement only forbids giving "
               "anyone else accepted keys)"]
REACH = ["hop_appended_honest", "keys_equal_checked", "retry_happened", "answer_ignored_by_originator", "dup_answer", "fault:flip_key",
         "fault:flip_auth", "fault:flip_ident", "fault:flip_cid", "fault:flip_cand", "fault:swap_ident", "fault:swap_cid", "fault:swap_cid_exit",
         "fault:replay_old", "fault:subst_key", "fault:subst_key_nocand", "crafted_answer_rejected", "subst_accepted_but_underivable", "hops:3",
         "extend_waits_for_peer_lookup", "join_policy_suspended", "fault:swap_answer", "answer_relabelled_for_circuit_built_in_same_round", "fault:bad_cand_key",
         "required_exit_known_under_stale_address", "application_cancelled_circuit_ready"]

KINDS = ["flip_key", "flip_auth", "flip_ident", "flip_cid", "flip_cand", "swap_ident", "swap_cid", "swap_cid_exit", "replay_old",
         "subst_key", "subst_key_nocand", "dup_answer", "swap_answer", "bad_cand_key"]


def cases(tier: str, base_seed: int):  # noqa: ANN201
    n = 0
    for hops in (1, 2, 3):
        n += 1
        yield {"seed": base_seed + n, "knobs": {}, "hops": hops, "nodes": 5, "circuits": 2, "nht": 10, "who": None, "faults": []}
    # extends to a required exit the relay has never met: the relay's on_extend suspends in a (simulated, slow) DHT peer lookup
    # while duplicated / retried extend datagrams arrive
    for hops in (2, 3):
        for dup, delay, nht in ((0.5, 0.15, 10), (0.3, 1.5, 1), (0.0, 0.4, 10)):
            n += 1
            yield {"seed": base_seed + n, "knobs": {"dup": dup, "lat_jit": 0.02}, "hops": hops, "nodes": 5, "circuits": 3, "nht": nht,
                   "who": None, "faults": [], "blind": delay}
    # nodes whose join policy (should_join_circuit is an overridable coroutine) takes a while, under duplicated creates
    for hops in (1, 2):
        for dup, delay in ((0.6, 0.05), (0.3, 0.3)):
            n += 1
            yield {"seed": base_seed + n, "knobs": {"dup": dup, "lat_jit": 0.01}, "hops": hops, "nodes": 5, "circuits": 3, "nht": 10,
                   "who": None, "faults": [], "join_delay": delay}
    # duplicated extends while the relay waits in a slow peer lookup, with the next hop's answers re-labelled for one another
    for hops, blind, dup in ((2, 0.3, 0.5), (3, 0.05, 0.3), (3, 0.3, 0.5), (2, 0.05, 0.3)):
        n += 1
        yield {"seed": base_seed + n, "knobs": {"lat_jit": 0.2, "dup": dup}, "hops": hops, "nodes": 4, "circuits": 2, "nht": 5, "who": "wire",
               "blind": blind, "faults": [{"kind": "swap_answer", "nth": k, "bit": 6 + k} for k in range(0, 6)]}
    # the application stops waiting for the circuit (asyncio.wait_for(circuit.ready, t) cancels the future) while it is being built
    for hops in (1, 2, 3):
        for t in (0.01, 0.2):
            n += 1
            yield {"seed": base_seed + n, "knobs": {"lat_jit": 0.0}, "hops": hops, "nodes": 5, "circuits": 2, "nht": 3, "who": None, "faults": [],
                   "cancel_ready": t}
    for hops in (2, 3):
        n += 1
        yield {"seed": base_seed + n, "knobs": {}, "hops": hops, "nodes": 6, "circuits": 2, "nht": 10, "who": None, "faults": [],
               "stale_exit": True}
    for hops in (1, 2):
        for ncirc in (3, 6):
            n += 1
            yield {"seed": base_seed + n, "knobs": {}, "hops": hops, "nodes": 4 if hops == 1 else 5, "circuits": ncirc, "nht": 3, "who": "wire",
                   "rounds": True, "faults": [{"kind": "swap_answer", "nth": k, "bit": (3 * k + 1) % 256} for k in range(0, 5)]}
    for who in ("node", "wire"):
        for kind in KINDS:
            for hops in (1, 2, 3):
                n += 1
                yield {"seed": base_seed + n, "knobs": {}, "hops": hops, "nodes": 5, "circuits": 3, "nht": 3, "who": who,
                       "faults": [{"kind": kind, "nth": k, "bit": (7 * k + 3) % 256} for k in range(0, 6)]}
                if hops > 1:
                    # the same manipulation applied only to later answers, when other circuits are already established
                    n += 1
                    yield {"seed": base_seed + n, "knobs": {}, "hops": hops, "nodes": 5, "circuits": 6, "nht": 3, "who": who,
                           "stagger": 1.5,
                           "faults": [{"kind": kind, "nth": k, "bit": (5 * k + 1) % 256} for k in range(3, 14)]}
    for i in itertools.count():
        seed = base_seed + 1000 + i
        rng = random.Random(f"c08/{seed}")
        mode = rng.choice(["net", "net", "craft", "craft", "both"])
        knobs = {"lat_jit": rng.choice([0.0, 0.02, 0.2]), "timer_jitter": rng.choice([0.0, 0.001])}
        if mode in ("net", "both"):
            knobs.update(loss=rng.choice([0.0, 0.05, 0.15]), dup=rng.choice([0.0, 0.05, 0.2]), tail_p=rng.choice([0.0, 0.1]),
                         tail_max=rng.choice([2.0, 8.0]))
        faults = []
        if mode in ("craft", "both"):
            for _ in range(rng.choice([1, 2, 5])):
                faults.append({"kind": rng.choice(KINDS), "nth": rng.randrange(0, 8), "bit": rng.randrange(256)})
        case = {"seed": seed, "knobs": knobs, "hops": rng.choice([1, 2, 2, 3, 3]), "nodes": rng.choice([4, 5, 6]),
                "circuits": rng.choice([1, 2, 4]), "nht": rng.choice([1, 2, 5, 10]),
                "who": rng.choice(["node", "wire"]) if faults else None, "faults": faults}
        if case["hops"] > 1 and rng.random() < 0.3:
            case["blind"] = rng.choice([0.05, 0.15, 0.5, 1.5, 4.0])
        if rng.random() < 0.3:
            case["join_delay"] = rng.choice([0.01, 0.05, 0.3])
        if rng.random() < 0.1:
            case["cancel_ready"] = rng.choice([0.01, 0.1, 0.5, 2.5])
        if rng.random() < 0.3:
            # a tuning knob: how long a node remembers that it joined a circuit whose owner may still extend it (default 60 s)
            case["unstable"] = rng.choice([2, 5, 10])
        if rng.random() < 0.15 and not case.get("blind") and case["hops"] > 1 and not knobs.get("loss"):
            case["stale_exit"] = True
        elif rng.random() < 0.25 and not case.get("blind"):
            case["rounds"] = True
            case["circuits"] = rng.choice([2, 3, 6])
        yield case


def _old_terminating_ids(rcv, not_this: int, world) -> list:  # noqa: ANN001
    """Ids of hops that END at ``rcv`` and were established a while ago (not the half-built hop of the handshake in progress)."""
    now = world.wall_time()
    out = [cid for cid, es in rcv.ov.exit_sockets.items() if cid != not_this and now - es.creation_time > 1.0]
    out += [cid for cid, ci in rcv.ov.circuits.items() if cid != not_this and now - ci.creation_time > 1.0]
    return sorted(out)


def kbytes(k) -> tuple:  # noqa: ANN001
    return (k.key_forward, k.key_backward, k.salt_forward, k.salt_backward) if k is not None else None


def execute(case: dict) -> dict:  # noqa: C901, PLR0915
    from ipv8.keyvault.crypto import default_eccrypto
    from ipv8.messaging.anonymization.crypto import TunnelCrypto
    from ipv8.messaging.anonymization.payload import CreatedPayload, CreatePayload, ExtendedPayload, ExtendPayload
    from ipv8.messaging.anonymization.tunnel import Circuit
    from ipv8_rust_tunnels import crypto_auth

    from simkit import seams

    c = Case(case, net=True, first_only=False)
    world, net = c.world, c.net
    rng = world.stream("c08")
    hops = case["hops"]
    nn = max(case["nodes"], hops + 2)
    tw = TunnelWorld(c, n=nn, exits=tuple(range(nn - 2, nn)), settings={"next_hop_timeout": case["nht"], **({"max_circuits": int(case["circuits"])} if case.get("rounds") else {}),
                                 **({"unstable_timeout": int(case["unstable"])} if case.get("unstable") else {})})
    faults = list(case.get("faults", []))
    who = case.get("who")
    crafted: dict = {}          # pkt id -> kind
    crafted_data: dict = {}     # datagram bytes -> kind
    craft_now: list = [None]
    selections: dict = {}       # (originator node, circuit id) -> last selected public key
    appended: list = []         # events
    verified_routes: list = []  # (originator, circuit, hop index) whose routed entry held the originator's keys at append time
    snapshots: dict = {}        # id(circuit) -> list of (peer key, key bytes) of hops so far
    answers_sent = {"n": 0}
    broken_circuits: set = set()   # circuits that accepted a hop keyed with material nobody holds (documented assumption)
    adv_secrets: list = []      # (ephemeral private key, originator dh public part) known to the adversary
    seen_dh: dict = {}          # circuit id (on that link) -> dh_first_part travelling in clear / known to the relay
    old_answers: dict = {}
    stats = {"answers": 0}

    def on_send(pkt, fate) -> None:  # noqa: ANN001
        if craft_now[0] is not None:
            crafted[pkt.id] = craft_now[0]
            crafted_data[pkt.data] = craft_now[0]
    net.on_send.append(on_send)

    def chain_kinds(cause, onode) -> list:  # noqa: ANN001
        """Manipulations on the way of THIS answer: walk back only to the originator's own request that it answers."""
        out = []
        seen = 0
        while isinstance(cause, int) and cause in tw.by_id and seen < 8:
            p = tw.by_id[cause]
            if p.src_node == onode:
                break
            if p.id in crafted:
                out.append(crafted[p.id])
            elif p.data in crafted_data:        # a network-level duplicate of a manipulated datagram
                out.append(crafted_data[p.data])
            cause = p.cause
            seen += 1
        return out

    # ---------------------------------------------------------------- oracle at append time
    orig_add_hop = Circuit.add_hop

    def trace(circ, upto: int):  # noqa: ANN001, ANN202
        cid = circ.circuit_id
        for j in range(upto + 1):
            node = tw.node_of_key(circ.hops[j].public_key_bin)
            if node is None:
                return None, None, "selected peer is no known node"
            if j == upto:
                # mirror the data path: the crypto endpoint consults relay routes before exit sockets
                if upto == len(circ.hops) - 1:
                    if cid in node.ov.relay_from_to:
                        return node, None, f"id {cid} is relayed onwards at {node.name} (a relay route shadows the hop's entry)"
                    e = node.ov.exit_sockets.get(cid)
                else:
                    # an intermediate hop normally holds a relay route; after a corrupted candidate list the originator may have
                    # "extended" by contacting another first hop directly, then this hop still holds its exit socket
                    e = node.ov.relay_from_to.get(cid) or node.ov.exit_sockets.get(cid)
                return node, e, None if e is not None else f"no entry for id {cid} at {node.name}"
            rel = node.ov.relay_from_to.get(cid)
            if rel is None:
                return node, None, f"no relay entry for id {cid} at {node.name}"
            cid = rel.circuit_id
        return None, None, "?"

    def add_hop(self, hop) -> None:  # noqa: ANN001
        onode = NODE.get()
        kinds = chain_kinds(CAUSE.get(), onode)
        import os
        if os.environ.get("C08_DEBUG"):
            cz = CAUSE.get(); out = []
            while isinstance(cz, int) and cz in tw.by_id and len(out) < 8:
                p = tw.by_id[cz]; out.append((p.id, p.src_node, p.label, p.id in crafted, p.data in crafted_data, p.orig is not None)); cz = p.cause
            print("APPEND", onode, self.circuit_id, len(self.hops), "cause", CAUSE.get(), out, "crafted ids", list(crafted))
        snap = snapshots.setdefault(id(self), [])
        # (2) established hops never change
        for i, (pk, kb) in enumerate(snap):
            if i < len(self.hops) and (self.hops[i].public_key_bin != pk or kbytes(self.hops[i].keys) != kb):
                c.violate("established_hops_immutable", "established_hop_changed", f"hop {i + 1} of circuit {self.circuit_id} changed")
        try:
            orig_add_hop(self, hop)
        finally:
            if len(self.hops) > self.goal_hops:
                c.violate("hop_is_selected_peer", "hop_appended_beyond_goal",
                          f"circuit {self.circuit_id} was asked for {self.goal_hops} hop(s) and now has {len(self.hops)}: "
                          f"{[h.public_key_bin.hex()[-8:] for h in self.hops]}")
        idx = len(self.hops) - 1
        snap.append((hop.public_key_bin, kbytes(hop.keys)))
        sel = selections.get((onode, self.circuit_id))
        ev = {"o": onode, "cid": self.circuit_id, "idx": idx, "kinds": kinds, "t": world.loop.time()}
        appended.append(ev)
        if sel is not None and sel != hop.public_key_bin:
            c.violate("hop_is_selected_peer", "appended_hop_is_not_the_selected_peer",
                      f"circuit {self.circuit_id} hop {idx + 1}: appended {hop.public_key_bin.hex()[-12:]}, selected {sel.hex()[-12:]}")
        node, entry, why = trace(self, idx)
        adv = tw.nodes[1]
        if "subst_key" in kinds or "subst_key_nocand" in kinds:
            # (3) accepted keys must not be derivable by the adversary, unless the adversary is the selected peer
            if node is not None and node.name == adv.name and who == "node":
                return
            if idx < self.goal_hops - 1:
                # a NON-final hop also has to prove that it holds the session keys (the candidate list it sends is encrypted with
                # them): an answer with a substituted ephemeral key cannot, so it must have been rejected
                holder = tw.node_of_key(hop.public_key_bin)
                entries = [] if holder is None else list(holder.ov.exit_sockets.values()) + list(holder.ov.relay_from_to.values())
                if not any(kbytes(e.hop.keys) == kbytes(hop.keys) for e in entries):
                    c.violate("manipulated_answer", "accepted_hop_keys_not_held_by_selected_peer:subst_key",
                              f"hop {idx + 1} of {self.goal_hops} of circuit {self.circuit_id} accepted from an answer with a substituted "
                              f"ephemeral key: the selected peer {holder.name if holder else None} holds no entry with these session keys")
            mine = kbytes(hop.keys)
            for eph, opub in adv_secrets:
                try:
                    s1 = eph.diffie_hellman(opub)
                    # what the adversary can compute: its ephemeral share, plus (misbehaving node only) its own static share
                    cands = [s1 + s1, s1]
                    if who == "node":
                        cands.append(s1 + adv.key.diffie_hellman(opub))
                except Exception:  # noqa: BLE001
                    continue
                for sh in cands:
                    try:
                        if kbytes(TunnelCrypto.generate_session_keys(sh)) == mine:
                            c.violate("no_keys_for_third_party", "adversary_derivable_keys_accepted",
                                      f"hop {idx + 1} of circuit {self.circuit_id} was keyed with material the adversary can compute")
                    except Exception:  # noqa: BLE001, S110
                        pass
            broken_circuits.add(id(self))      # nobody holds these keys: the circuit is dead weight and its relays will sweep it
            world.probe("subst_accepted_but_underivable")
            c.nontrivial(f"subst_accepted/{hops}/{idx}/{who}")
            return
        if kinds or faults:
            # (4) manipulated answers - and anything that happens later in a run with manipulated answers (e.g. a retry through
            # another first hop after a corrupted candidate list): rejected, or the selected peer holds identical keys
            holder = tw.node_of_key(hop.public_key_bin)
            entries = [] if holder is None else list(holder.ov.exit_sockets.values()) + list(holder.ov.relay_from_to.values())
            if not any(kbytes(e.hop.keys) == kbytes(hop.keys) for e in entries):
                c.violate("manipulated_answer", f"accepted_hop_keys_not_held_by_selected_peer:{(kinds or ['later'])[0]}",
                          f"hop {idx + 1} of circuit {self.circuit_id} accepted (manipulations on this answer: {kinds}) but the "
                          f"selected peer {holder.name if holder else None} holds no entry with these session keys")
            elif entry is not None and kbytes(entry.hop.keys) == kbytes(hop.keys):
                verified_routes.append((onode, self, idx))     # a properly routed hop: it must stay that way
            elif idx >= 1 and entry is None and not case["knobs"].get("loss") and not case["knobs"].get("tail_p"):
                # a hop BEHIND the first one is only a hop of this circuit if the previous hops relay to it
                c.violate("manipulated_answer", "appended_hop_not_reachable_through_previous_hops",
                          f"hop {idx + 1} of circuit {self.circuit_id} ({holder.name if holder else None}) was accepted (manipulations on this "
                          f"answer: {kinds}), but the circuit's route does not lead to it: {why}")
            elif "swap_answer" in kinds:
                # the answer was made for ANOTHER circuit of this originator at the same hop and merely re-labelled: the peer does
                # hold these keys, but under the other circuit's id - this circuit's route leads to an entry with other keys
                c.violate("manipulated_answer", "accepted_answer_made_for_another_circuit",
                          f"hop {idx + 1} of circuit {self.circuit_id} accepted from an answer that {holder.name if holder else None} gave "
                          f"to another create of the same originator (circuit id and identifier re-labelled on the wire); the entry this "
                          f"circuit's route leads to {'does not exist: ' + str(why) if entry is None else 'holds other session keys'}")
            return
        # (1) honest exchange
        world.probe("hop_appended_honest")
        if len(self.hops) == 3:
            world.probe("hops:3")
        if entry is None:
            c.violate("both_ends_same_keys", "selected_peer_holds_no_entry_for_circuit",
                      f"circuit {self.circuit_id} hop {idx + 1}: {why}")
        elif kbytes(entry.hop.keys) != kbytes(hop.keys):
            c.violate("both_ends_same_keys", "hop_keys_differ_from_selected_peer_entry",
                      f"circuit {self.circuit_id} hop {idx + 1}: originator's session keys differ from the keys in the entry that the "
                      f"route leads to at {node.name} (exit_sockets/relay id traced through the relays)")
        else:
            verified_routes.append((onode, self, idx))
            world.probe("keys_equal_checked")
            c.nontrivial(f"ok/{hops}/{idx}/{case['nht']}/{case['knobs'].get('loss')}/{case['knobs'].get('dup')}/"
                         f"{case['knobs'].get('tail_p')}/{case['knobs'].get('lat_jit')}/{len(appended)}")
    Circuit.add_hop = add_hop
    seams.ON_RESET.append(lambda: setattr(Circuit, "add_hop", orig_add_hop))

    # ---------------------------------------------------------------- misbehaving node: doctored answers
    def doctor(node) -> None:  # noqa: ANN001
        inner = node.ov.send_cell

        def send_cell(target_addr, payload):  # noqa: ANN001, ANN202
            if isinstance(payload, (CreatePayload, ExtendPayload)):
                seen_dh[payload.circuit_id] = payload.key
            if not isinstance(payload, (CreatedPayload, ExtendedPayload)):
                return inner(target_addr, payload)
            k = answers_sent["n"]
            answers_sent["n"] += 1
            todo = [f for f in faults if f["nth"] == k and f["kind"] != "swap_cid_exit"]
            rcv0 = tw.node_of_ip(target_addr[0])
            if isinstance(payload, CreatedPayload) and rcv0 is not None and rcv0 is not tw.nodes[0]:
                kr = answers_sent["relay"] = answers_sent.get("relay", -1) + 1
                todo = [f for f in faults if f["kind"] == "swap_cid_exit" and f["nth"] == kr] or todo
            key = (type(payload).__name__, payload.circuit_id)
            prev = old_answers.get(key)
            old_answers[key] = (payload.identifier, payload.key, payload.auth, payload.candidates_enc)
            if not todo:
                return inner(target_addr, payload)
            f = todo[0]
            kind, bit = f["kind"], f["bit"]
            world.probe("fault:" + kind)
            c.nontrivial(f"{kind}/{hops}/node/{type(payload).__name__}")

            def flip(b: bytes) -> bytes:
                if not b:
                    return b
                x = bytearray(b)
                x[(bit // 8) % len(x)] ^= 1 << (bit % 8)
                return bytes(x)
            if kind == "dup_answer":
                world.probe("dup_answer")
                inner(target_addr, payload)
                return inner(target_addr, payload)
            craft_now[0] = kind
            try:
                if kind == "flip_key":
                    payload.key = flip(payload.key)
                elif kind == "flip_auth":
                    payload.auth = flip(payload.auth)
                elif kind == "flip_cand":
                    payload.candidates_enc = flip(payload.candidates_enc)
                elif kind == "flip_ident":
                    payload.identifier ^= 1 << (bit % 16)
                elif kind == "swap_ident":
                    others = [v[0] for kk, v in old_answers.items() if kk != key and v[0] != payload.identifier]
                    payload.identifier = others[bit % len(others)] if others else (payload.identifier + 1) % 65536
                elif kind == "flip_cid":
                    payload.circuit_id ^= 1 << (bit % 32)
                elif kind == "swap_cid_exit":
                    ids = _old_terminating_ids(rcv0, payload.circuit_id, world)
                    if not ids:
                        craft_now[0] = None
                        return inner(target_addr, payload)
                    payload.circuit_id = ids[bit % len(ids)]
                elif kind == "swap_cid":
                    # the id of another hop that is live at the RECEIVING node (readable in clear text on its links)
                    rcv = tw.node_of_ip(target_addr[0])
                    # (ids of hops that END at the receiver are the interesting ones: a plaintext cell under a relayed id is dropped)
                    others = _old_terminating_ids(rcv, payload.circuit_id, world) if rcv is not None else []
                    if not others and rcv is not None:
                        others = sorted(set(rcv.ov.relay_from_to) - {payload.circuit_id})
                    if not others:
                        others = sorted(set(list(node.ov.exit_sockets) + list(node.ov.relay_from_to)) - {payload.circuit_id})
                    if others:
                        payload.circuit_id = others[bit % len(others)]
                    else:
                        payload.circuit_id ^= 0x10
                elif kind == "bad_cand_key":
                    # the hop (it holds the session keys) sends an otherwise genuine answer whose candidate list - correctly encrypted -
                    # starts with a key that does not parse
                    es = node.ov.exit_sockets.get(payload.circuit_id)
                    if es is None or not isinstance(payload, CreatedPayload):
                        craft_now[0] = None
                        return inner(target_addr, payload)
                    real = [p2.public_key.key_to_bin() for p2 in node.ov.get_candidates(1) if p2.public_key.key_to_bin() != node.ov.my_peer.public_key.key_to_bin()]
                    bad = (b"LibNaCLPK:" + bytes(10 + bit % 40), b"garbage-that-is-no-key", b"LibNaCLPK:")[bit % 3]
                    # (relay candidates, then one entry twice in a row as separator, then exit candidates: the bad key leads both)
                    lst = [bad, *real[:2], real[0], real[0], bad, *real[:3]] if real else [bad]
                    payload.candidates_enc = es.hop.keys.encrypt_str(node.ov.serializer.pack("varlenH-list", lst), 0)
                elif kind == "swap_answer":
                    others = sorted((kk, v[0]) for kk, v in old_answers.items() if kk != key and kk[0] == key[0])
                    if not others:
                        craft_now[0] = None
                        return inner(target_addr, payload)
                    (_n2, payload.circuit_id), payload.identifier = others[bit % len(others)]
                elif kind == "replay_old":
                    if prev is None:
                        craft_now[0] = None
                        return inner(target_addr, payload)
                    payload.identifier, payload.key, payload.auth, payload.candidates_enc = prev
                elif kind in ("subst_key", "subst_key_nocand"):
                    opub = seen_dh.get(payload.circuit_id)
                    if opub is None:
                        # relay role: the originator's ephemeral public value travelled in the extend we handled
                        rel = node.ov.relay_from_to.get(payload.circuit_id)
                        opub = seen_dh.get(rel.circuit_id) if rel is not None else None
                    if opub is None:
                        opub = next(iter(seen_dh.values()), None)
                    if opub is None:
                        craft_now[0] = None
                        return inner(target_addr, payload)
                    eph = default_eccrypto.generate_key("curve25519")
                    s1 = eph.diffie_hellman(opub)
                    payload.key = eph.get_crypt_pk()
                    payload.auth = crypto_auth(s1[:32], payload.key)
                    adv_secrets.append((eph, opub))
                    if kind == "subst_key_nocand":
                        payload.candidates_enc = b""
                return inner(target_addr, payload)
            finally:
                craft_now[0] = None
        node.ov.send_cell = send_cell

    # ---------------------------------------------------------------- on-path attacker on plaintext created cells
    wire_n = {"n": 0}
    wire_dh: dict = {}
    wire_create: dict = {}      # circuit id -> (identifier, sender, receiver) of the latest plaintext create seen on the wire
    wire_old: dict = {}

    def wire_filter(pkt):  # noqa: ANN001, ANN202, C901
        parts = cell_parts(pkt.data)
        if parts is None or not parts[1] or pkt.injected:
            return None
        cid, _pt, _re, msg = parts
        if msg[:1] == b"\x02":        # create: identifier H, node_public_key varlenH, key varlenH
            try:
                off = 1 + 2
                (l1,) = struct.unpack_from(">H", msg, off)
                off += 2 + l1
                (l2,) = struct.unpack_from(">H", msg, off)
                wire_dh[cid] = msg[off + 2:off + 2 + l2]
                wire_create[cid] = (struct.unpack_from(">H", msg, 1)[0], tuple(pkt.src), tuple(pkt.dst))
            except struct.error:
                pass
            return None
        if msg[:1] != b"\x03":
            return None
        k = wire_n["n"]
        wire_n["n"] += 1
        todo = [f for f in faults if f["nth"] == k and f["kind"] != "swap_cid_exit"]
        rcv0 = tw.node_of_ip(pkt.dst[0])
        if rcv0 is not None and rcv0 is not tw.nodes[0]:
            kr = wire_n["relay"] = wire_n.get("relay", -1) + 1
            todo = [f for f in faults if f["kind"] == "swap_cid_exit" and f["nth"] == kr] or todo
        try:
            (ident,) = struct.unpack_from(">H", msg, 1)
            (kl,) = struct.unpack_from(">H", msg, 3)
            key = msg[5:5 + kl]
            auth = msg[5 + kl:5 + kl + 32]
            cand = msg[5 + kl + 32:]
        except struct.error:
            return None
        prev = wire_old.get(cid)
        wire_old[cid] = (ident, key, auth, cand)
        if not todo:
            return None
        f = todo[0]
        kind, bit = f["kind"], f["bit"]
        world.probe("fault:" + kind)
        c.nontrivial(f"{kind}/{hops}/wire")

        def flip(b: bytes) -> bytes:
            if not b:
                return b
            x = bytearray(b)
            x[(bit // 8) % len(x)] ^= 1 << (bit % 8)
            return bytes(x)
        ncid = cid
        if kind == "dup_answer":
            world.probe("dup_answer")
            net.inject(pkt.src, pkt.dst, pkt.data, delay=0.01)
            return None
        if kind == "flip_key":
            key = flip(key)
        elif kind == "flip_auth":
            auth = flip(auth)
        elif kind == "flip_cand":
            cand = flip(cand)
        elif kind == "flip_ident":
            ident ^= 1 << (bit % 16)
        elif kind == "swap_ident":
            others = [v[0] for kk, v in wire_old.items() if kk != cid and v[0] != ident]
            ident = others[bit % len(others)] if others else (ident + 1) % 65536
        elif kind == "flip_cid":
            ncid = cid ^ (1 << (bit % 32))
        elif kind == "swap_cid_exit":
            ids = _old_terminating_ids(rcv0, cid, world)
            if not ids:
                return None
            ncid = ids[bit % len(ids)]
        elif kind == "swap_cid":
            rcv = tw.node_of_ip(pkt.dst[0])
            others = _old_terminating_ids(rcv, cid, world) if rcv else []
            if not others and rcv:
                others = sorted(set(rcv.ov.relay_from_to) - {cid})
            if not others:
                others = sorted(set(wire_old) - {cid})
            ncid = others[bit % len(others)] if others else cid ^ 0x10
            import os
            if os.environ.get("C08_DEBUG"):
                print("SWAP wire", pkt.src_node, "->", rcv.name if rcv else None, "cid", cid, "->", ncid, "cands", others,
                      "exit@rcv", sorted(rcv.ov.exit_sockets) if rcv else None, "t=%.2f" % world.loop.time())
        elif kind == "bad_cand_key":
            return None          # (needs the hop's session keys: only the misbehaving node can do it)
        elif kind == "swap_answer":
            # the answer is re-labelled (circuit id AND identifier, both in the clear) as the answer to another create that the same
            # originator has outstanding at the same hop - e.g. a circuit built in the same round
            pend = sorted(k2 for k2, (_i2, s2, d2) in wire_create.items()
                          if k2 != cid and k2 not in wire_old and s2 == tuple(pkt.dst) and d2 == tuple(pkt.src))
            if not pend:
                return None
            ncid = pend[bit % len(pend)]
            ident = wire_create[ncid][0]
            world.probe("answer_relabelled_for_circuit_built_in_same_round")
        elif kind == "replay_old":
            if prev is None:
                return None
            ident, key, auth, cand = prev
        elif kind in ("subst_key", "subst_key_nocand"):
            opub = wire_dh.get(cid)
            if opub is None:
                return None
            with world.as_node("attacker"):
                eph = default_eccrypto.generate_key("curve25519")
            s1 = eph.diffie_hellman(opub)
            key = eph.get_crypt_pk()
            auth = crypto_auth(s1[:32], key)
            adv_secrets.append((eph, opub))
            if kind == "subst_key_nocand":
                cand = b""
        crafted[pkt.id] = kind
        body = b"\x03" + struct.pack(">H", ident) + struct.pack(">H", len(key)) + key + auth + cand
        out = pkt.data[:23] + struct.pack("!I", ncid) + pkt.data[27:29] + body
        crafted_data[out] = kind
        return out

    swept: set = set()       # (node, circuit id) of relay / exit entries their node removed for "no activity"

    async def main() -> None:
        await tw.build()
        await tw.introduce()
        for node in tw.nodes:
            for meth in ("remove_relay", "remove_exit_socket"):
                inner_rm = getattr(node.ov, meth)

                def rm(cid, additional_info="", *a, _inner=inner_rm, _node=node, **k):  # noqa: ANN001, ANN002, ANN003, ANN202
                    if str(additional_info) == "no activity":
                        swept.add((_node.name, cid))
                    return _inner(cid, additional_info, *a, **k)
                setattr(node.ov, meth, rm)
        # originators record whom they select
        for node in tw.nodes:
            inner = node.ov.send_cell

            def rec(target_addr, payload, _inner=inner, _node=node):  # noqa: ANN001, ANN202
                if isinstance(payload, CreatePayload):
                    circ = _node.ov.circuits.get(payload.circuit_id)
                    if circ is not None and circ.unverified_hop is not None:
                        selections[(_node.name, payload.circuit_id)] = circ.unverified_hop.public_key_bin
                elif isinstance(payload, ExtendPayload):
                    selections[(_node.name, payload.circuit_id)] = payload.node_public_key
                    world.probe("extend_sent")
                return _inner(target_addr, payload)
            node.ov.send_cell = rec
        if who == "node":
            doctor(tw.nodes[1])
        elif who == "wire":
            net.filters.append(wire_filter)
        if case.get("join_delay"):
            for node in tw.nodes[1:]:
                inner_sj = node.ov.should_join_circuit

                async def slow_join(payload, addr, _inner=inner_sj):  # noqa: ANN001, ANN202
                    world.probe("join_policy_suspended")
                    await asyncio.sleep(case["join_delay"])
                    return await _inner(payload, addr)
                node.ov.should_join_circuit = slow_join
        o = tw.nodes[0]
        circs = []
        blind = case.get("blind") if hops > 1 else None
        required = None
        if blind:
            from ipv8.peer import Peer
            x = tw.nodes[-1]

            class SlowDHT:
                async def peer_lookup(self, mid, peer=None) -> None:  # noqa: ANN001
                    world.probe("extend_waits_for_peer_lookup")
                    await asyncio.sleep(blind)
            for node in tw.nodes[1:-1]:
                node.ov.dht_provider = SlowDHT()
                xp = node.ov.network.get_verified_by_public_key_bin(x.ov.my_peer.public_key.key_to_bin())
                if xp is not None:
                    node.ov.network.remove_peer(xp)
                    node.ov.candidates.pop(xp, None)
            required = Peer(x.ov.my_peer.public_key.key_to_bin(), x.address)
        if case.get("rounds"):
            # the application asks for circuits the way Tribler does: build_tunnels() builds max_circuits of them in one round (and
            # the periodic do_circuits task replaces those that fail)
            o.call(o.ov.build_tunnels, hops)
            circs.extend(o.ov.circuits.values())
        if case.get("stale_exit") and hops > 1 and required is None:
            # history: the required exit X moved; the originator still has its OLD address, where another tunnel node Z lives now; the
            # relays know X's present address
            from ipv8.peer import Peer
            xs, zs = tw.nodes[-1], tw.nodes[-2]
            xkey = xs.ov.my_peer.public_key.key_to_bin()
            # (a relay that does not know X at all legitimately falls back to the address the owner names: the history needs every
            #  possible relay to know X's present address)
            if all(nd.ov.network.get_verified_by_public_key_bin(xkey) is not None for nd in tw.nodes[1:-1]):
                required = Peer(xkey, zs.address)
                world.probe("required_exit_known_under_stale_address")
        for _ in range(0 if case.get("rounds") else case["circuits"]):
            circs.append(o.call(o.ov.create_circuit, hops, required_exit=required) if required is not None
                         else o.call(o.ov.create_circuit, hops))
            if case.get("cancel_ready") is not None and circs[-1] is not None:
                # the application waits for the circuit with a time-out (asyncio.wait_for(circuit.ready, t)): when it expires,
                # wait_for CANCELS the future it was given; the circuit itself goes on being built
                def give_up_waiting(ci=circs[-1]) -> None:  # noqa: ANN001
                    if not ci.ready.done():
                        ci.ready.cancel()
                        world.probe("application_cancelled_circuit_ready")
                world.loop.call_later(float(case["cancel_ready"]), give_up_waiting)
            await asyncio.sleep(case.get("stagger") or rng.choice([0.0, 0.05, 1.0]))
        # let handshakes, retries and give-ups play out (circuit_timeout is 60 s)
        for _ in range(14):
            await asyncio.sleep(5.0)
            if all(ci is None or ci.state != "EXTENDING" for ci in circs):
                break
        await asyncio.sleep(2.0)
        retries = sum(1 for p in tw.wire if p.label in ("CreatePayload", "ExtendPayload") and p.src_node == o.name)
        if retries > sum(1 for ci in circs if ci is not None) * hops:
            world.probe("retry_happened")
        answers_at_o = sum(1 for p in tw.wire if p.label in ("CreatedPayload", "ExtendedPayload") and p.dst == o.address
                           and p.fate == "ok")
        if answers_at_o > len(appended):
            world.probe("answer_ignored_by_originator", answers_at_o - len(appended))
        st["ready"] = sum(1 for ci in circs if ci is not None and ci.state == "READY")
        # established hops stay established: every hop whose routed entry matched at append time still matches, as long as the
        # circuit is READY at its originator and every node on its path is alive.  Not judged under datagram loss: a relay that
        # misses a few keep-alive pings in a row legitimately sweeps its entry, and the destroy it sends may be lost as well.
        for onode_name, circ, idx in ([] if case["knobs"].get("loss") else verified_routes):
            onode_obj = next(x for x in tw.nodes if x.name == onode_name)
            if circ.circuit_id not in onode_obj.ov.circuits or circ.state != "READY" or idx >= len(circ.hops) or id(circ) in broken_circuits:
                continue
            node, entry, why = trace(circ, idx)
            import os
            if os.environ.get("C08_DEBUG"):
                print("RETRACE", circ.circuit_id, idx, circ.state, node.name if node else None, type(entry).__name__, why)
            if entry is None:
                mm = re.search(r"id (\d+) at (\w+)", str(why))
                if mm and (mm.group(2), int(mm.group(1))) in swept:
                    # the entry did not change hands: its node swept it for inactivity (duplicated relay_early cells use up the
                    # relay's allowance early, later flagged cells are dropped and the path falls silent) - reclamation, C09's business
                    world.probe("route_entry_swept_for_inactivity_not_judged")
                    continue
            if entry is None or kbytes(entry.hop.keys) != kbytes(circ.hops[idx].keys):
                c.violate("established_hops_immutable", "established_circuit_route_changed",
                          f"hop {idx + 1} of circuit {circ.circuit_id}: its routed entry matched the originator's keys when it was "
                          f"appended, now {'no entry is reachable (' + str(why) + ')' if entry is None else 'the entry holds other keys'}")
        # final immutability check
        for ci in circs:
            if ci is None:
                continue
            for i, (pk, kb) in enumerate(snapshots.get(id(ci), [])):
                if i >= len(ci.hops) or ci.hops[i].public_key_bin != pk or kbytes(ci.hops[i].keys) != kb:
                    c.violate("established_hops_immutable", "established_hop_changed", f"hop {i + 1} of circuit {ci.circuit_id}")
        import os
        if os.environ.get("C08_WIRE"):
            for p3 in tw.wire:
                if os.environ.get("C08_WIRE") == "all" or (p3.label in ("CreatePayload", "CreatedPayload", "ExtendPayload", "ExtendedPayload", 0) and len(p3.data) < 400):
                    parts3 = cell_parts(p3.data)
                    print("WIRE %.3f" % p3.t, p3.id, p3.src_node, "->", p3.dst, p3.label, "cid", parts3[0] if parts3 else None, p3.fate, "dup" if p3.dup else "",
                          "cause", p3.cause)
        n_crafted_rejected = len(crafted) - sum(1 for ev in appended if ev["kinds"])
        if n_crafted_rejected > 0:
            world.probe("crafted_answer_rejected", n_crafted_rejected)

    st: dict = {}
    try:
        world.run(main())
    finally:
        Circuit.add_hop = orig_add_hop

        async def down() -> None:
            await tw.teardown()
        try:
            world.run(down())
        except Exception:  # noqa: BLE001
            tw.uninstall_probes()
    # honest fault-free non-vacuity
    if not faults and not case["knobs"].get("loss") and not case["knobs"].get("dup") and not case["knobs"].get("tail_p") \
            and st.get("ready", 0) == 0 and not (case.get("blind") and case["blind"] + 0.5 >= case["nht"]):
        c.violate("non_vacuity", "no_circuit_ready_in_fault_free_run", f"{case['circuits']} circuits of {hops} hops, none READY")
    world.trace.event("c08", None, (len(appended), len(crafted), st.get("ready")))
    c.sample = {"hops": hops, "who": who, "faults": faults[:4], "appended": [(e["idx"], e["kinds"]) for e in appended[:8]],
                "ready": st.get("ready"), "knobs": case["knobs"]}
    return c.result(evaluations=max(1, len(appended) + len(crafted)))


