"""
C12, in-situ family: the Network objects of live multi-node runs, mutated by the real handlers, RandomWalk, RandomChurn and
PingChurn under loss and crashes, are inspected at every simulated second: every lookup must agree with what the
authoritative containers (verified peers, their addresses, services per peer, known addresses) imply, and asking twice must
give the same answer.  Small LRU cache sizes are forced so that the caches overflow.
"""
from __future__ import annotations

import asyncio
import random

from simkit.scenario import Case

from .overlay_scenarios import SCENARIOS


def insitu_case(seed: int) -> dict:
    rng = random.Random(f"c12i/{seed}")
    return {"scenario": "insitu", "seed": seed, "overlay": rng.choice(["discovery", "discovery", "multi", "dhtdiscovery", "community"]),
            "cache": rng.choice([1, 2, 3, 500]), "crash": rng.choice([None, None, 1, 2]), "minutes": rng.choice([1, 2, 4]),
            "knobs": {"lat_jit": rng.choice([0.0, 0.05]), "loss": rng.choice([0.0, 0.1, 0.3]), "dup": rng.choice([0.0, 0.05]),
                      "timer_jitter": rng.choice([0.0, 0.001])}}


def check_network(c: Case, netw, where: str) -> None:  # noqa: ANN001, C901
    """Lookups vs membership for one Network object (read-only besides the LRU caches that the queries themselves touch)."""
    verified = list(netw.verified_peers)
    by_key = dict(netw.verified_by_public_key_bin)
    keys = {p.public_key.key_to_bin() for p in verified}
    if set(by_key) != keys:
        extra, missing = set(by_key) - keys, keys - set(by_key)
        c.violate("by_key", "insitu_key_index_differs_from_verified_set" + ("_stale" if extra else "_missing"),
                  f"{where}: by-key index has {len(extra)} keys that are not verified and lacks {len(missing)} verified ones")
    owned: dict = {}
    for p in verified:
        for a in p.addresses.values():
            owned.setdefault(tuple(a), []).append(p)
        if netw.get_verified_by_public_key_bin(p.public_key.key_to_bin()) is not p:
            c.violate("by_key", "insitu_by_key_returns_other_object", f"{where}: lookup by key of a verified peer returns another object")
    for a, owners in list(owned.items())[:40]:
        got = netw.get_verified_by_address(a)
        got2 = netw.get_verified_by_address(a)
        if got is None or not any(got is o for o in owners):
            c.violate("by_address", "insitu_by_address_missing_or_non_owner",
                      f"{where}: address {a} is owned by {len(owners)} verified peer(s) but the lookup returned "
                      f"{'nothing' if got is None else 'a peer that does not own it' if got in verified else 'a removed peer'}")
        if got is not got2:
            c.violate("idempotent", "insitu_asking_twice_differs:by_address", f"{where}: {a}")
    for a in [x for x in list(netw._all_addresses)[:60] if tuple(x) not in owned]:  # noqa: SLF001
        got = netw.get_verified_by_address(a)
        if got is not None:
            c.violate("by_address", "insitu_by_address_returns_peer_for_unowned_address",
                      f"{where}: nobody verified owns {a} but the lookup returned a peer "
                      f"({'verified' if got in verified else 'removed'})")
    services: dict = {}
    for p in verified:
        for s in netw.services_per_peer.get(p.public_key.key_to_bin(), ()):
            services.setdefault(s, set()).add(p.public_key.key_to_bin())
    for s in list(services)[:8] + [b"\x00" * 20]:
        got = netw.get_peers_for_service(s)
        want = services.get(s, set())
        have = {p.public_key.key_to_bin() for p in got}
        if have != want:
            c.violate("per_service", "insitu_peers_for_service_differs" + ("_stale" if have - want else "_missing"),
                      f"{where}: service {s.hex()[:8]}: lookup has {len(have - want)} extra and lacks {len(want - have)} peers")
        elif any(not any(p is v for v in verified) for p in got):
            c.violate("per_service", "insitu_peers_for_service_returns_unverified_object", f"{where}: service {s.hex()[:8]}")
        if {p.public_key.key_to_bin() for p in netw.get_peers_for_service(s)} != have:
            c.violate("idempotent", "insitu_asking_twice_differs:per_service", f"{where}")
    walk = netw.get_walkable_addresses()
    if any(tuple(a) in owned for a in walk):
        c.violate("walkable", "insitu_walkable_contains_verified_address", f"{where}")
    if set(map(tuple, walk)) != {tuple(a) for a in netw._all_addresses} - set(owned):  # noqa: SLF001
        c.violate("walkable", "insitu_walkable_differs_from_known_minus_owned", f"{where}")
    # addresses of peers that were removed: nobody may be returned for them unless a verified peer owns them again
    for a in list(getattr(netw, "_c12_removed_addrs", ()))[-40:]:
        if tuple(a) in owned:
            continue
        got = netw.get_verified_by_address(a)
        if got is not None:
            c.violate("by_address", "insitu_by_address_returns_removed_peer",
                      f"{where}: {a} belonged to a peer that was removed, the lookup still returns a peer")
        c.probe("insitu_removed_address_checked")
    for kb in list(getattr(netw, "_c12_removed_keys", ()))[-40:]:
        if kb not in keys and netw.get_verified_by_public_key_bin(kb) is not None:
            c.violate("by_key", "insitu_by_key_returns_removed_peer", f"{where}: a removed peer is still found by key")
    for mid in netw.blacklist_mids:
        if any(p.mid == mid for p in verified):
            c.violate("blacklist", "insitu_blacklisted_mid_verified", f"{where}")
    for a in netw.blacklist:
        if tuple(a) in owned:
            c.violate("blacklist", "insitu_blacklisted_address_verified", f"{where}: {a}")
    c.probe("insitu_network_checks")


def _track_removals(netw) -> None:  # noqa: ANN001
    netw._c12_removed_addrs = []  # noqa: SLF001
    netw._c12_removed_keys = []  # noqa: SLF001
    orig_rp, orig_ra = netw.remove_peer, netw.remove_by_address

    def remove_peer(peer):  # noqa: ANN001, ANN202
        if peer in netw.verified_peers:
            netw._c12_removed_addrs.extend(tuple(a) for a in peer.addresses.values())  # noqa: SLF001
            netw._c12_removed_keys.append(peer.public_key.key_to_bin())  # noqa: SLF001
        return orig_rp(peer)

    def remove_by_address(address):  # noqa: ANN001, ANN202
        for p in netw.verified_peers:
            if address in p.addresses.values():
                netw._c12_removed_addrs.extend(tuple(a) for a in p.addresses.values())  # noqa: SLF001
                netw._c12_removed_keys.append(p.public_key.key_to_bin())  # noqa: SLF001
        return orig_ra(address)
    netw.remove_peer, netw.remove_by_address = remove_peer, remove_by_address


def execute_insitu(case: dict) -> dict:
    from ipv8.peerdiscovery.churn import RandomChurn
    from ipv8.peerdiscovery.discovery import RandomWalk

    c = Case(case, net=True, first_only=False)
    world = c.world
    scn = SCENARIOS[case["overlay"]]
    rng = world.stream("c12i")

    async def main() -> None:
        nodes = await scn.build(c, max(scn.n_nodes, 5) if case["overlay"] != "multi" else None)
        nets = []
        for n in nodes:
            ovs = list(getattr(n, "ovs", {"only": n.ov}).values())
            for ov in ovs:
                netw = ov.network
                if not any(netw is x for _n, x in nets):
                    _track_removals(netw)
                    netw.reverse_ip_cache_size = netw.reverse_intro_cache_size = netw.reverse_service_cache_size = case["cache"]
                    nets.append((n, netw))
                n.start_strategy(RandomWalk(ov, timeout=3.0), 0.5, 20)
                if hasattr(ov, "send_ping"):
                    n.start_strategy(RandomChurn(ov, ping_interval=2.0, inactive_time=5.0, drop_time=9.0), 0.5, -1)
                    c.probe("insitu_random_churn")
        script = asyncio.ensure_future(scn.script(c, nodes))
        crash_at = None if case["crash"] is None else rng.randrange(5, 40)
        for sec in range(int(case["minutes"] * 60)):
            await asyncio.sleep(1.0)
            if crash_at is not None and sec == crash_at:
                for victim in nodes[-case["crash"]:]:
                    victim.crash()
                c.probe("insitu_nodes_crashed")
            for n, netw in nets:
                if n.name not in world.loop.dead:
                    check_network(c, netw, f"{n.name}@{sec}s")
            if c.violations:
                break
        if max((len(x.verified_peers) for _n, x in nets), default=0) >= 3:
            c.nontrivial(f"insitu/{case['overlay']}/{case['cache']}/{case['crash']}/{case['knobs'].get('loss')}")
        if not script.done():
            script.cancel()
        for n in nodes:
            for h in n.strategies:
                h.cancel()
        await scn.teardown(nodes)

    world.run(main())
    world.trace.event("c12i", None, (case["overlay"], len(c.violations)))
    c.sample = {"scenario": "insitu", "overlay": case["overlay"], "cache_size": case["cache"], "crash": case["crash"],
                "minutes": case["minutes"], "knobs": case["knobs"]}
    return c.result()
