"""
C12 - the peer graph's lookups always agree with its membership.   (part (a) of the design: *direct* mode)

A real ``ipv8.peerdiscovery.network.Network`` and a tiny reference model (verified peers with their addresses and
advertised services, known addresses with introducer / service, blacklists) execute the same operation list in
lock-step.  The universe is 3 peers (deterministic keys) x 3 addresses (two ``UDPv4Address`` and one plain tuple, so
that a peer can own two addresses at once) x 2 services; the three LRU caches of the graph get sizes from
{1, 2, 3, 500}.

After EVERY operation the whole query surface is observed three times (``Run.full_check``): once with every lookup
starting from the cache state the case left behind ("what would I be told if this were the first thing I ask now"),
compared with the model; then twice in a row, each lookup seeing the caches the previous ones left, and every answer
must stay what it was ("asking never changes the answer").  The caches that the queries mutate are saved before and
put back after these observations, so the oracle itself never warms a cache: only the query operations *of the case*
do (otherwise "query -> remove -> query" and "no query -> remove -> query" would be the same history).  A query
operation of the case is executed twice (same answer required) and followed by the full check (no other answer may
have changed).  Returned peers are compared by public key and by the addresses the returned Peer object carries.

Every distinct kind of disagreement has its own violation key: which lookup, in which direction ("returns a peer
the model removed" / "misses a peer the model has" / ...), and for stale peers which removal path the model took.
The model is unreliable after the first disagreement, so only the first one of a model lifetime is kept.

Scenarios
  seq    explicit list of operations (random generator, replays, shrunk cases); a "reset" operation starts a new
         graph + model (used to put several independent failing sequences into one shrinkable case)
  enum   all sequences of a given depth over a reduced alphabet that start with a given prefix (one batch = one case,
         ``evaluations`` = number of sequences executed); ``to_explicit`` turns a failing batch into a "seq" case.
"""
from __future__ import annotations

import hashlib
import itertools
import random

from simkit.scenario import Case

PROPERTY = "C12"
LEVEL = "exploration"
BUDGET = {"quick": 25, "thorough": 420}
CHUNK = 40
ENUMERATED = {"quick": False, "thorough": False}   # the enumerated batches are followed by an endless random stream
SHRINK_FIELDS = ("ops",)
RULE = ("case = explicit op list over 3 peers x 3 addresses (2 UDPv4Address + 1 plain tuple) x 2 services, LRU cache "
        "sizes (ip, intro, service) drawn from {1,2,3,500}; ops = add_verified_peer (fresh or re-used Peer object), "
        "discover_address, discover_services, remove_peer (verified object or another object with the same key), "
        "remove_by_address, Peer.add_address on the verified object, blacklist / blacklist_mids additions, "
        "snapshot -> fresh Network -> load_snapshot restart, load_snapshot of truncated / bit-flipped / garbage bytes, "
        "and every get_* query; 35% of the random ops come from query -> remove -> query -> re-add -> query templates. "
        "quick: <= 60 ops per case, thorough: <= 200. Before the random stream: every sequence of depth 5 (quick) / "
        "6 (thorough) over two 8-op alphabets x cache sizes {500, 1, 2}, in batches of 8^3 continuations of a prefix "
        "(a batch counts one evaluation per executed sequence; extensions of a violating prefix are pruned). "
        "Non-trivial = the sequence contains a removal after a query; distinct = distinct sequence of op kinds.")
COMPONENTS = {"real": ["in-situ family: Network objects inside live runs of real overlays with RandomWalk / RandomChurn on SimNet",
                       "ipv8.peerdiscovery.network.Network (all mutators, all get_* queries, snapshot/load_snapshot)",
                       "ipv8.peer.Peer (addresses / add_address / equality / hash)",
                       "ipv8.messaging.serialization address packer (snapshot codec)",
                       "curve25519 keys (deterministic bytes through the simkit key seam)"],
              "stub": ["no overlay, endpoint or walker: operations are issued directly (in-situ histories are part (b))"]}
ASSUMPTIONS = ["single-threaded use of Network (graph_lock is taken without contention)",
               "the oracle saves / restores reverse_ip_lookup, reverse_intro_lookup and reverse_service_lookup around "
               "its own observations so that observing does not warm caches; cache sizes are set through the "
               "reverse_*_cache_size attributes",
               "mutator semantics the statement leaves open are modelled three-valued: addresses a verified peer "
               "brought itself (never introduced by someone) may or may not be walkable once nobody owns them; the "
               "per-service walkable query is only held to: subset of known addresses, no address of a verified peer "
               "serving that service, must contain free addresses introduced through that service or by a verified "
               "peer advertising it",
               "removal forgets the peer's advertised services and the addresses of the Peer object passed to "
               "remove_peer (behaviour fixed by Network's docstrings and its unit tests)",
               "returned peers are compared by public key and by the addresses the returned Peer object carries, not by "
               "object identity; when several verified peers share an address, get_verified_by_address may return "
               "any of them (also a different one when asked again)",
               "get_introductions_from is executed and must not change other answers, but its own answer (a lazily "
               "maintained cache by design) is not compared unless STRICT_INTRODUCTIONS is set"]
REACH = ["insitu_network_checks", "insitu_removed_address_checked", "lru_overflow", "query_then_remove_then_query", "readd_after_remove", "snapshot_roundtrip",
         "blacklist_refusal", "address_change", "shared_address", "promote_walkable_to_verified", "garbage_snapshot",
         "enum_sequences", "remove_other_object", "peer_removed_from_inside_on_peer_added"]

ADDR_SPEC = [("v4", "10.0.0.1", 1001), ("v4", "10.0.0.2", 1002), ("tuple", "10.0.0.3", 1003)]
N_PEERS = 3
N_ADDRS = 3
N_SERVICES = 2
SIZES = [1, 2, 3, 500]
CACHES = ("reverse_ip_lookup", "reverse_intro_lookup", "reverse_service_lookup")
QUERY_OPS = ("q_key", "q_addr", "q_svc", "q_svcs_of", "q_walk", "q_intros", "q_all")
REMOVE_OPS = ("rm_peer", "rm_addr")
# The statement is about the lookups that say who is verified / walkable.  get_introductions_from is executed (twice in
# a row it must answer the same, and it must not change any other answer) but its own answer is served from a
# deliberately lazy cache (reverse_intro_lookup keeps addresses that were removed meanwhile, and gets duplicates when an
# orphaned address is re-adopted); with True, a change of its answer caused by other queries is a violation as well.
STRICT_INTRODUCTIONS = False
# when several lookups changed their answer, name the most basic one
PRIORITY = ["verified_set", "by_key", "services_for_peer", "by_address", "peers_for_service", "walkable",
            "introductions_from"]


# --------------------------------------------------------------------------- op descriptions
def describe(op: dict) -> str:  # noqa: C901, PLR0911, PLR0912
    o = op["op"]
    if o == "add":
        return f"add(k{op['k']},A{op['a']}{',reuse' if op.get('reuse') else ''}{',capped' if op.get('cap') else ''})"
    if o == "disc_addr":
        s = "" if op.get("s") is None else f",s{op['s']}"
        return f"disc_addr(k{op['k']}@A{op['a']}->A{op['t']}{s}{',new' if op.get('ns') else ''})"
    if o == "disc_svc":
        return f"disc_svc(k{op['k']}@A{op['a']},[{','.join('s%d' % s for s in op['ss'])}])"
    if o == "rm_peer":
        return f"rm_peer(k{op['k']}" + (f",other@A{op['a']})" if op.get("fresh") else ")")
    if o == "rm_addr":
        return f"rm_addr(A{op['a']})"
    if o == "set_addr":
        return f"set_addr(k{op['k']},A{op['a']})"
    if o == "bl_addr":
        return f"bl_addr(A{op['a']})"
    if o == "bl_mid":
        return f"bl_mid(k{op['k']})"
    if o == "garbage":
        return f"garbage({op.get('mode')},{op.get('n', '')})"
    if o == "q_key":
        return f"q_key(k{op['k']})"
    if o == "q_addr":
        return f"q_addr(A{op['a']})"
    if o == "q_svc":
        return f"q_svc(s{op['s']})"
    if o == "q_svcs_of":
        return f"q_svcs_of(k{op['k']})"
    if o == "q_walk":
        return "q_walk(" + ("" if op.get("s") is None else f"s{op['s']}") + (",old" if op.get("old") else "") + ")"
    if o == "q_intros":
        return f"q_intros(k{op['k']})"
    return o + "()"


def nt_key(ops: list) -> str | None:
    """Hash of the op-kind sequence when it contains a removal after a query, else None."""
    seen_q = False
    hit = False
    for op in ops:
        o = op["op"]
        if o in QUERY_OPS:
            seen_q = True
        elif o in REMOVE_OPS and seen_q:
            hit = True
            break
    if not hit:
        return None
    return hashlib.sha1("/".join(op["op"] for op in ops).encode()).hexdigest()[:12]  # noqa: S324


# --------------------------------------------------------------------------- case generation
def _rand_query(rng, k=None, a=None, s=None) -> dict:  # noqa: ANN001
    k = rng.randrange(N_PEERS) if k is None else k
    a = rng.randrange(N_ADDRS) if a is None else a
    s = rng.randrange(N_SERVICES) if s is None else s
    kind = rng.choices(QUERY_OPS, [18, 22, 18, 6, 14, 6, 16])[0]
    if kind == "q_key":
        return {"op": kind, "k": k}
    if kind == "q_addr":
        return {"op": kind, "a": a}
    if kind == "q_svc":
        return {"op": kind, "s": s}
    if kind == "q_svcs_of":
        return {"op": kind, "k": k}
    if kind == "q_walk":
        return {"op": kind, "s": rng.choice([None, None, s]), "old": rng.random() < 0.15}
    if kind == "q_intros":
        return {"op": kind, "k": k}
    return {"op": "q_all"}


def _rand_add(rng, k=None, a=None) -> dict:  # noqa: ANN001
    k = rng.randrange(N_PEERS) if k is None else k
    a = rng.randrange(N_ADDRS) if a is None else a
    r = rng.random()
    if r < 0.6:
        return {"op": "add", "k": k, "a": a, "reuse": rng.random() < 0.25}
    if r < 0.85:
        return {"op": "disc_addr", "k": k, "a": a, "t": rng.randrange(N_ADDRS),
                "s": rng.choice([None, 0, 1]), "ns": rng.random() < 0.2}
    return {"op": "add", "k": k, "a": rng.randrange(N_ADDRS), "reuse": False}


def _rand_remove(rng, k=None, a=None) -> dict:  # noqa: ANN001
    k = rng.randrange(N_PEERS) if k is None else k
    a = rng.randrange(N_ADDRS) if a is None else a
    r = rng.random()
    if r < 0.5:
        return {"op": "rm_peer", "k": k}
    if r < 0.6:
        return {"op": "rm_peer", "k": k, "fresh": True, "a": rng.randrange(N_ADDRS)}
    return {"op": "rm_addr", "a": a}


def _rand_single(rng) -> dict:  # noqa: ANN001, PLR0911
    kind = rng.choices(["add", "disc_addr", "disc_svc", "rm", "set_addr", "bl_addr", "bl_mid", "restart", "garbage",
                        "query"],
                       [16, 12, 12, 12, 8, 2, 1, 2, 2, 33])[0]
    k, a = rng.randrange(N_PEERS), rng.randrange(N_ADDRS)
    if kind == "add":
        return {"op": "add", "k": k, "a": a, "reuse": rng.random() < 0.2, "cap": rng.random() < 0.12}
    if kind == "disc_addr":
        return {"op": "disc_addr", "k": k, "a": a, "t": rng.randrange(N_ADDRS), "s": rng.choice([None, 0, 1]),
                "ns": rng.random() < 0.2}
    if kind == "disc_svc":
        ss = rng.choice([[0], [1], [0, 1], [1, 0], []])
        return {"op": "disc_svc", "k": k, "a": a, "ss": ss}
    if kind == "rm":
        return _rand_remove(rng)
    if kind == "set_addr":
        return {"op": "set_addr", "k": k, "a": a}
    if kind == "bl_addr":
        return {"op": "bl_addr", "a": a}
    if kind == "bl_mid":
        return {"op": "bl_mid", "k": k}
    if kind == "restart":
        return {"op": "restart"}
    if kind == "garbage":
        mode = rng.choice(["truncate", "cut_head", "flip", "hex"])
        op = {"op": "garbage", "mode": mode, "n": rng.randrange(0, 24)}
        if mode == "hex":
            op["hex"] = rng.randbytes(rng.choice([1, 2, 6, 7, 8, 19, 30])).hex()
            if rng.random() < 0.5:   # a plausible type byte in front
                op["hex"] = rng.choice(["01", "02", "03"]) + op["hex"]
        return op
    return _rand_query(rng)


def _template(rng) -> list:  # noqa: ANN001
    """query -> remove -> query -> re-add -> query around one peer / address / service."""
    k, a, s = rng.randrange(N_PEERS), rng.randrange(N_ADDRS), rng.randrange(N_SERVICES)
    out = []
    if rng.random() < 0.8:
        out.append({"op": "add", "k": k, "a": a, "reuse": False})
    if rng.random() < 0.6:
        out.append({"op": "disc_svc", "k": k, "a": a, "ss": [s]})
    if rng.random() < 0.3:
        out.append({"op": "disc_addr", "k": k, "a": a, "t": rng.randrange(N_ADDRS), "s": s, "ns": False})
    for _ in range(rng.choice([1, 1, 2])):
        out.append(_rand_query(rng, k, a, s))
    out.append(_rand_remove(rng, k, a))
    if rng.random() < 0.7:
        out.append(_rand_query(rng, k, a, s))
    if rng.random() < 0.85:
        if rng.random() < 0.3:
            out.append({"op": "disc_svc", "k": k, "a": a, "ss": [s]})
        out.append(_rand_add(rng, k, a if rng.random() < 0.7 else None))
        if rng.random() < 0.5:
            out.append({"op": "disc_svc", "k": k, "a": a, "ss": [s]})
        out.append(_rand_query(rng, k, a, s))
    return out


def _random_case(seed: int, max_ops: int) -> dict:
    rng = random.Random(f"c12/{seed}")
    lengths = [4, 8, 12, 20, 30, 45, 60] if max_ops <= 60 else [8, 20, 40, 60, 100, 150, 200]
    n = min(max_ops, rng.choice(lengths))
    sizes = [rng.choice(SIZES) for _ in range(3)]
    if rng.random() < 0.25:
        sizes = [rng.choice([1, 2])] * 3
    ops: list = []
    while len(ops) < n:
        if rng.random() < 0.35:
            ops.extend(_template(rng))
        else:
            ops.append(_rand_single(rng))
    return {"scenario": "seq", "seed": seed, "knobs": {}, "sizes": sizes, "ops": ops[:n]}


# reduced alphabets for the exhaustive part (8 abstract ops each)
ALPHABETS = {
    "core": [
        {"op": "add", "k": 0, "a": 0},
        {"op": "add", "k": 1, "a": 0},                                   # second peer, shares A0
        {"op": "disc_addr", "k": 0, "a": 0, "t": 1, "s": 0},
        {"op": "disc_svc", "k": 0, "a": 0, "ss": [0]},
        {"op": "rm_peer", "k": 0},
        {"op": "rm_addr", "a": 0},
        {"op": "q_all"},
        {"op": "add", "k": 0, "a": 1},                                   # address update or re-add elsewhere
    ],
    "alt": [
        {"op": "add", "k": 0, "a": 0},
        {"op": "set_addr", "k": 0, "a": 1},
        {"op": "q_addr", "a": 0},
        {"op": "q_svc", "s": 0},
        {"op": "disc_svc", "k": 0, "a": 0, "ss": [0]},
        {"op": "rm_peer", "k": 0},
        {"op": "bl_addr", "a": 0},
        {"op": "restart"},
    ],
}
ENUM_TAIL = 3      # a batch = all 8^3 continuations of one prefix


def _enum_cases(depth: int, plan: list):  # noqa: ANN202
    n = 0
    for alphabet, size in plan:
        width = len(ALPHABETS[alphabet])
        for prefix in itertools.product(range(width), repeat=max(0, depth - ENUM_TAIL)):
            n += 1
            yield {"scenario": "enum", "seed": n, "knobs": {}, "sizes": [size] * 3, "alphabet": alphabet,
                   "depth": depth, "prefix": list(prefix), "ops": []}


ENUM_DEPTH = {"quick": 5, "thorough": 6}
ENUM_PLAN = {"quick": [("core", 500), ("core", 1), ("alt", 1)],
             "thorough": [("core", 500), ("core", 1), ("alt", 1), ("alt", 500), ("core", 2)]}   # (alphabet, cache sizes)
MAX_OPS = {"quick": 60, "thorough": 200}
RANDOM_PER_BATCH = {"quick": 30, "thorough": 12}


def cases(tier: str, base_seed: int):  # noqa: ANN201
    tier = tier if tier in ENUM_DEPTH else "quick"
    max_ops = MAX_OPS[tier]
    # interleave: the runner's budget may end before the enumeration does, the random stream must get its share
    from .c12_insitu import insitu_case
    i = 0
    for batch in _enum_cases(ENUM_DEPTH[tier], ENUM_PLAN[tier]):
        yield batch
        for _ in range(RANDOM_PER_BATCH[tier]):
            yield _random_case(base_seed + i, max_ops)
            i += 1
            if i % 40 == 0:
                yield insitu_case(base_seed + i)       # the graph inside a live multi-node run (see c12_insitu.py)
    while True:
        yield _random_case(base_seed + i, max_ops)
        i += 1
        if i % 40 == 0:
            yield insitu_case(base_seed + i)


def to_explicit(case: dict, res: dict) -> dict | None:
    """A failing enumeration batch -> explicit op list (one failing sequence per violation key, separated by resets)."""
    if case.get("scenario") != "enum":
        return None
    failing = res.get("failing") or {}
    ops: list = []
    for key in sorted(failing):
        if ops:
            ops.append({"op": "reset"})
        ops.extend(failing[key])
    if not ops:
        return None
    return {"scenario": "seq", "seed": case["seed"], "knobs": case.get("knobs", {}), "sizes": case["sizes"], "ops": ops}


def simplify(case: dict):  # noqa: ANN201
    if case.get("scenario") == "seq" and case.get("sizes") != [500, 500, 500]:
        c2 = dict(case)
        c2["sizes"] = [500, 500, 500]
        yield c2


class HarnessBug(Exception):
    """A malformed case (never a property violation)."""


# --------------------------------------------------------------------------- reference model
class Model:
    """What the statement lets us know about the graph after the operations so far."""

    def __init__(self) -> None:
        self.ver: dict = {}        # k -> {address class: address index}       the verified peers and their addresses
        self.obj: dict = {}        # k -> the Peer object that became verified
        self.svc: dict = {}        # k -> set of advertised services (verified or not)
        self.known: dict = {}      # address index -> [introducer k | None, service | None, origin]
        #                            origin "intro"/"snap": must be walkable while nobody verified owns it;
        #                            origin "self": brought by a verified peer itself, may or may not be walkable
        self.gone: dict = {}       # address index -> removal path that dropped it from `known`
        self.bl_addr: set = set()
        self.bl_mid: set = set()
        self.why: dict = {}        # k -> why it is not verified: remove_peer | remove_by_address | restart
        self.ever_removed: set = set()
        self.refused = None        # (k, reason) while the current op was refused because of a blacklist

    def owners(self, a: int) -> list:
        return [k for k, ad in self.ver.items() if a in ad.values()]

    def owned(self) -> set:
        return {a for ad in self.ver.values() for a in ad.values()}

    def add(self, k: int, addrs: dict, obj) -> str:  # noqa: ANN001
        if k in self.bl_mid:
            if k not in self.ver:
                self.refused = (k, "blacklisted_mid")
            return "refused"
        if k in self.ver:
            self.ver[k].update(addrs)
            for a in addrs.values():
                self.known.setdefault(a, [None, None, "self"])
            return "update"
        if any(a in self.bl_addr for a in addrs.values()):
            self.refused = (k, "blacklisted_address")
            return "refused"
        self.ver[k] = dict(addrs)
        self.obj[k] = obj
        for a in addrs.values():
            self.known.setdefault(a, [None, None, "self"])
        return "readd" if k in self.ever_removed else "new"

    def discover_address(self, k: int, t: int, s, ns: bool) -> None:  # noqa: ANN001
        if t in self.bl_addr:
            return
        cur = self.known.get(t)
        if cur is None or cur[0] is None or (cur[0] != "?" and cur[0] not in self.ver):
            self.known[t] = [k, s, "intro"]
            self.gone.pop(t, None)
        elif cur[2] == "self":
            # the entry may have been dropped meanwhile (then k adopted it) or not: known for sure, introducer unknown
            self.known[t] = ["?", None, "intro"]

    def drop_peer(self, k: int, why: str) -> None:
        if k in self.ver:
            del self.ver[k]
            self.obj.pop(k, None)
            self.why[k] = why
            self.ever_removed.add(k)
        self.svc.pop(k, None)

    def remove_by_address(self, a: int) -> list:
        removed = self.owners(a)
        if a in self.known:
            self.gone[a] = "remove_by_address"
        self.known.pop(a, None)
        for k in removed:
            self.drop_peer(k, "remove_by_address")
        return removed

    def remove_peer(self, k: int, passed: dict) -> bool:
        was = k in self.ver
        self.drop_peer(k, "remove_peer")
        for a in passed.values():
            if self.owners(a):
                # still owned by another verified peer: whether it stays known is not ours to say
                if a in self.known:
                    self.known[a][2] = "self"
            else:
                if a in self.known:
                    self.gone[a] = "remove_peer"
                self.known.pop(a, None)
        return was


# --------------------------------------------------------------------------- one graph + model in lock-step
class Run:
    def __init__(self, c: Case, sizes: list) -> None:
        from ipv8.keyvault.crypto import default_eccrypto
        from ipv8.messaging.interfaces.udp.endpoint import UDPv4Address
        from ipv8.peer import Peer
        from ipv8.peerdiscovery.network import Network

        self.c = c
        self.Peer = Peer
        self.Network = Network
        self.sizes = sizes
        self.pks = [default_eccrypto.generate_key("curve25519").pub() for _ in range(N_PEERS)]
        self.kbin = [pk.key_to_bin() for pk in self.pks]
        self.addrs = [UDPv4Address(ip, port) if kind == "v4" else (ip, port) for kind, ip, port in ADDR_SPEC]
        self.aidx = {(ip, port): i for i, (_, ip, port) in enumerate(ADDR_SPEC)}
        self.services = [bytes([s + 1]) * 20 for s in range(N_SERVICES)]
        self.sidx = {s: i for i, s in enumerate(self.services)}
        self.askers = [Peer(pk, ("0.0.0.0", 0)) for pk in self.pks]   # only used as "which key?" query arguments
        self.midx = {p.mid: i for i, p in enumerate(self.askers)}
        self.failing: dict = {}     # violation key -> op list that led to it
        self.labels = self._labels()
        self.thunks = self._thunks()
        self.reset()

    # ------------------------------------------------------------ plumbing
    def fresh_net(self):  # noqa: ANN201
        n = self.Network()
        n.reverse_ip_cache_size, n.reverse_intro_cache_size, n.reverse_service_cache_size = self.sizes
        return n

    def reset(self) -> None:
        self.net = self.fresh_net()
        self.m = Model()
        self.diverged = False
        self.hist: list = []        # the ops applied to this graph
        self.told: list = []        # the same, as text, with what they resolved to (which Peer object was passed)
        self.last_obj: dict = {}
        self.queried: set = set()               # ("k", k) / ("a", a) targets some query op of the case asked about
        self.queried_all = False
        self.removed_after_query: set = set()
        self.last_obs = None
        self.culprit = None     # (asked, victim, answer before, answer after) when one lookup changed another's answer

    def viol(self, oracle: str, key: str, msg: str) -> None:
        if self.diverged:
            return
        self.diverged = True
        hist = " ; ".join(self.told)
        if key not in self.failing:
            self.failing[key] = list(self.hist)
        self.c.violate(oracle, key, f"{msg}   [sizes={self.sizes} ops: {hist}]")

    def kname(self, peer):  # noqa: ANN001, ANN201
        if peer is None:
            return None
        try:
            return self.midx.get(peer.mid, "?")
        except Exception:  # noqa: BLE001
            return f"!{type(peer).__name__}"

    def pname(self, peer):  # noqa: ANN001, ANN201
        """A returned peer as "<key index>@<its address indices>" (the Peer object's own idea of its addresses)."""
        if peer is None:
            return None
        try:
            ads = ",".join(sorted(str(self.aname(a)) for a in set(peer.addresses.values())))
        except Exception:  # noqa: BLE001
            ads = "!"
        return f"{self.kname(peer)}@{ads}"

    def maddrs(self, k: int) -> str:
        return ",".join(sorted(str(a) for a in set(self.m.ver[k].values())))

    @staticmethod
    def split(x: str) -> tuple:
        k, _, ads = x.partition("@")
        return (int(k) if k.isdigit() else k), ads

    def same_addrs(self, lookup: str, what: str, k: int, ads: str) -> bool:
        if ads == self.maddrs(k):
            return True
        self.viol(lookup, f"{lookup}_returns_peer_with_other_addresses",
                  f"{what} returned a Peer object for k{k} whose addresses are [{ads}], the verified peer's addresses "
                  f"are [{self.maddrs(k)}]")
        return False

    def aname(self, addr):  # noqa: ANN001, ANN201
        try:
            return self.aidx.get((addr[0], addr[1]), repr(tuple(addr)))
        except Exception:  # noqa: BLE001
            return repr(addr)

    def peer_addrs(self, peer) -> dict:  # noqa: ANN001
        return {cls: self.aidx[(ad[0], ad[1])] for cls, ad in peer.addresses.items()}

    def make_peer(self, k: int, a: int, reuse: bool = False):  # noqa: ANN201
        if reuse and k in self.last_obj:
            return self.last_obj[k]
        p = self.Peer(self.pks[k], self.addrs[a])
        self.last_obj[k] = p
        return p

    def save_caches(self) -> list:
        out = []
        for name in CACHES:
            d = getattr(self.net, name, None)
            if d is not None:
                out.append((name, type(d), [(key, list(v) if isinstance(v, list) else v) for key, v in d.items()]))
        return out

    def restore_caches(self, saved: list) -> None:
        # a new mapping with the saved content in the saved order (OrderedDict.update is slow pure Python)
        net = self.net
        for name, cls, items in saved:
            setattr(net, name, cls(items))

    def cache_keys(self) -> list:
        return [set(getattr(self.net, name, ())) for name in CACHES]

    # ------------------------------------------------------------ observation of the real graph
    def _labels(self) -> list:
        lab = ["verified_set"]
        ix: dict = {"set": 0}
        ix["key"] = list(range(len(lab), len(lab) + N_PEERS))
        lab += [f"by_key(k{k})" for k in range(N_PEERS)]
        ix["addr"] = list(range(len(lab), len(lab) + N_ADDRS))
        lab += [f"by_address(A{a})" for a in range(N_ADDRS)]
        ix["svc"] = list(range(len(lab), len(lab) + N_SERVICES))
        lab += [f"peers_for_service(s{s})" for s in range(N_SERVICES)]
        ix["svcs_of"] = list(range(len(lab), len(lab) + N_PEERS))
        lab += [f"services_for_peer(k{k})" for k in range(N_PEERS)]
        ix["walk"] = len(lab)
        lab += ["walkable()"]
        ix["walk_s"] = []
        for s in range(N_SERVICES):
            ix["walk_s"].append((len(lab), len(lab) + 1))
            lab += [f"walkable(s{s})", f"walkable(s{s},old_style)"]
        ix["intros"] = list(range(len(lab), len(lab) + N_PEERS))
        lab += [f"introductions_from(k{k})" for k in range(N_PEERS)]
        self.ix = ix
        self.names = [x.split("(")[0] for x in lab]
        return lab

    def q_set(self):  # noqa: ANN201
        return tuple(sorted(self.pname(p) for p in self.net.verified_peers))

    def q_key(self, k: int):  # noqa: ANN201
        return self.pname(self.net.get_verified_by_public_key_bin(self.kbin[k]))

    def q_addr(self, a: int):  # noqa: ANN201
        return self.pname(self.net.get_verified_by_address(self.addrs[a]))

    def q_svc(self, s: int):  # noqa: ANN201
        return tuple(sorted(self.pname(p) for p in self.net.get_peers_for_service(self.services[s])))

    def q_svcs_of(self, k: int):  # noqa: ANN201
        got = self.net.get_services_for_peer(self.askers[k])
        return tuple(sorted(str(self.sidx.get(s, s)) for s in got))

    def q_walk(self, s, old: bool = False):  # noqa: ANN001, ANN201
        if s is None:
            got = self.net.get_walkable_addresses()
        elif old:
            got = self.net.get_walkable_addresses(self.services[s], old_style=True)
        else:
            got = self.net.get_walkable_addresses(self.services[s])
        return tuple(sorted(map(str, (self.aname(a) for a in got))))

    def q_intros(self, k: int):  # noqa: ANN201
        got = self.net.get_introductions_from(self.askers[k])
        return tuple(sorted(map(str, (self.aname(a) for a in got))))

    def _thunks(self) -> list:
        """The lookups in the order of ``self.labels``."""
        fns = [self.q_set]
        fns += [(lambda k=k: self.q_key(k)) for k in range(N_PEERS)]
        fns += [(lambda a=a: self.q_addr(a)) for a in range(N_ADDRS)]
        fns += [(lambda s=s: self.q_svc(s)) for s in range(N_SERVICES)]
        fns += [(lambda k=k: self.q_svcs_of(k)) for k in range(N_PEERS)]
        fns.append(lambda: self.q_walk(None))
        for s in range(N_SERVICES):
            fns.append(lambda s=s: self.q_walk(s))
            fns.append(lambda s=s: self.q_walk(s, True))
        fns += [(lambda k=k: self.q_intros(k)) for k in range(N_PEERS)]
        return fns

    def observe(self, saved: list | None = None) -> list:
        """
        Every lookup once.  With ``saved``: each lookup starts from that cache state (what a caller would be told if
        this were the first thing asked now); without: one after the other, each seeing the caches the others left.
        """
        if saved is None:
            return [fn() for fn in self.thunks]
        out = []
        last_walk_s = self.ix["walk_s"][-1][-1]
        for i, fn in enumerate(self.thunks):
            self.restore_caches(saved)
            out.append(fn())
            if i == last_walk_s and self.culprit is None:
                # the per-service variants consult the advertised services: these must still be what they were
                # (nothing restores them, so a change would falsify the rest of this observation)
                for k, j in enumerate(self.ix["svcs_of"]):
                    again = self.q_svcs_of(k)
                    if again != out[j]:
                        self.culprit = ("get_walkable_addresses(<service>)", self.labels[j], out[j], again)
                        break
        return out

    # ------------------------------------------------------------ the oracle
    def _stale(self, lookup: str, k) -> tuple:  # noqa: ANN001
        """Key for: `lookup` shows peer k as verified, the model says it is not."""
        m = self.m
        if k == "?" or not isinstance(k, int):
            return f"{lookup}_returns_foreign_object", f"{lookup} returned {k!r}"
        if m.refused is not None and m.refused[0] == k:
            return f"{m.refused[1]}_became_verified", f"{lookup} shows k{k} although it is a {m.refused[1]}"
        why = m.why.get(k, "never_added")
        if lookup == "by_key" and why in ("remove_by_address", "remove_peer"):
            return f"{why}_leaves_key_index", f"k{k} was removed by {why} but is still found by its public key"
        if why in ("remove_by_address", "remove_peer"):
            return f"{lookup}_returns_removed_peer", f"{lookup} returns k{k}, which was removed by {why}"
        return f"{lookup}_returns_{why}_peer", f"{lookup} returns k{k}, which is not verified ({why})"

    def judge_set(self, ans: tuple) -> None:
        m = self.m
        pairs = [self.split(x) for x in ans]
        got = {k for k, _ in pairs}
        for k in sorted(got - set(m.ver), key=str):
            key, msg = self._stale("verified_set", k)
            self.viol("membership", key, f"verified_peers={ans} model={sorted(m.ver)}: {msg}")
            return
        for k in sorted(set(m.ver) - got):
            self.viol("membership", "verified_set_missing", f"verified_peers={ans} lacks k{k}; model={sorted(m.ver)}")
            return
        if len(ans) != len(got):
            self.viol("membership", "verified_set_duplicate", f"verified_peers={ans}")
            return
        for k, ads in pairs:
            if not self.same_addrs("verified_set", "verified_peers", k, ads):
                return

    def judge_key(self, k: int, ans) -> None:  # noqa: ANN001
        m = self.m
        if ans is None:
            if k in m.ver:
                self.viol("by_key", "by_key_missing", f"get_verified_by_public_key_bin(k{k}) is None but k{k} is verified "
                                                      f"(addresses {sorted(m.ver[k].values())})")
            return
        got, ads = self.split(ans)
        if got != k:
            self.viol("by_key", "by_key_returns_other_peer", f"get_verified_by_public_key_bin(k{k}) -> {ans!r}")
        elif k not in m.ver:
            key, msg = self._stale("by_key", k)
            self.viol("by_key", key, msg)
        else:
            self.same_addrs("by_key", f"get_verified_by_public_key_bin(k{k})", k, ads)

    def judge_addr(self, a: int, ans) -> None:  # noqa: ANN001
        m = self.m
        owners = m.owners(a)
        if ans is None:
            if owners:
                self.viol("by_address", "by_address_missing",
                          f"get_verified_by_address(A{a}) is None but verified {['k%d' % k for k in owners]} own A{a}")
            return
        got, ads = self.split(ans)
        if got in owners:
            self.same_addrs("by_address", f"get_verified_by_address(A{a})", got, ads)
            return
        if got in m.ver:
            self.viol("by_address", "by_address_returns_non_owner",
                      f"get_verified_by_address(A{a}) -> k{got}, whose addresses are {sorted(m.ver[got].values())}; "
                      f"owners of A{a}: {owners}")
            return
        key, msg = self._stale("by_address", got)
        self.viol("by_address", key, f"get_verified_by_address(A{a}): {msg}")

    def judge_svc(self, s: int, ans: tuple) -> None:
        m = self.m
        exp = {k for k in m.ver if s in m.svc.get(k, ())}
        pairs = [self.split(x) for x in ans]
        got = {k for k, _ in pairs}
        for k in sorted(got - exp, key=str):
            if k in m.ver:
                self.viol("peers_for_service", "peers_for_service_returns_non_advertiser",
                          f"get_peers_for_service(s{s}) -> {ans}; k{k} advertises {sorted(m.svc.get(k, ()))}")
            else:
                key, msg = self._stale("peers_for_service", k)
                self.viol("peers_for_service", key, f"get_peers_for_service(s{s}) -> {ans}: {msg}")
            return
        for k in sorted(exp - got):
            self.viol("peers_for_service", "peers_for_service_missing",
                      f"get_peers_for_service(s{s}) -> {ans} lacks verified k{k} which advertises s{s}")
            return
        if len(ans) != len(got):
            self.viol("peers_for_service", "peers_for_service_duplicate", f"get_peers_for_service(s{s}) -> {ans}")
            return
        for k, ads in pairs:
            if not self.same_addrs("peers_for_service", f"get_peers_for_service(s{s})", k, ads):
                return

    def judge_svcs_of(self, k: int, ans: tuple) -> None:
        exp = tuple(sorted(str(s) for s in self.m.svc.get(k, ())))
        if ans == exp:
            return
        extra = sorted(set(ans) - set(exp))
        kind = "extra" if extra else "missing"
        self.viol("services_for_peer", f"services_for_peer_{kind}",
                  f"get_services_for_peer(k{k}) -> {ans}, advertised since it was last removed: {exp}")

    def _walk_basic(self, what: str, ans: tuple, excluded: set, prefix: str) -> set | None:
        """Common part: only known addresses, none of the excluded (owned) ones.  Returns the set of indices."""
        m = self.m
        got = set()
        for x in ans:
            if not x.isdigit():
                self.viol("walkable", f"{prefix}_contains_foreign_address", f"{what} -> {ans}")
                return None
            got.add(int(x))
        if len(got) != len(ans):
            self.viol("walkable", f"{prefix}_duplicate", f"{what} -> {ans}")
            return None
        for a in sorted(got):
            if a in excluded:
                self.viol("walkable", f"{prefix}_contains_verified_address",
                          f"{what} -> {ans}: A{a} is owned by verified {['k%d' % k for k in m.owners(a)]}")
                return None
            if a not in m.known:
                how = m.gone.get(a)
                key = f"{prefix}_contains_removed_address" if how else f"{prefix}_contains_unknown_address"
                self.viol("walkable", key, f"{what} -> {ans}: A{a} " + (f"was dropped by {how}" if how else "was never known"))
                return None
        return got

    def judge_walk(self, ans: tuple) -> None:
        m = self.m
        owned = m.owned()
        got = self._walk_basic("get_walkable_addresses()", ans, owned, "walkable")
        if got is None:
            return
        for a, (_, _, origin) in sorted(m.known.items()):
            if origin != "self" and a not in owned and a not in got:
                self.viol("walkable", "walkable_missing_known_address",
                          f"get_walkable_addresses() -> {ans} lacks A{a} (known through {origin}, owned by no verified peer)")
                return

    def judge_walk_s(self, s: int, ans: tuple) -> None:
        m = self.m
        serving = {a for k, ad in m.ver.items() if s in m.svc.get(k, ()) for a in ad.values()}
        what = f"get_walkable_addresses(s{s})"
        got = self._walk_basic(what, ans, serving, "walkable_service")
        if got is None:
            return
        owned = m.owned()
        for a, (by, svc, origin) in sorted(m.known.items()):
            if origin == "self" or a in owned or a in got:
                continue
            if svc == s:
                self.viol("walkable", "walkable_service_missing_introduced_address",
                          f"{what} -> {ans} lacks free A{a}, which was introduced through s{s}")
                return
            if by is not None and by in m.ver and s in m.svc.get(by, ()):
                self.viol("walkable", "walkable_service_missing_address_of_advertising_introducer",
                          f"{what} -> {ans} lacks free A{a}, introduced by verified k{by} which advertises s{s}")
                return

    def judge(self, obs: list) -> None:
        """Compare one full observation with the model (first disagreement only; basic facts first)."""
        ix = self.ix
        self.judge_set(obs[ix["set"]])
        for k, i in enumerate(ix["key"]):
            self.judge_key(k, obs[i])
        for k, i in enumerate(ix["svcs_of"]):
            self.judge_svcs_of(k, obs[i])
        for a, i in enumerate(ix["addr"]):
            self.judge_addr(a, obs[i])
        for s, i in enumerate(ix["svc"]):
            self.judge_svc(s, obs[i])
        self.judge_walk(obs[ix["walk"]])
        for s, (i, _) in enumerate(ix["walk_s"]):
            self.judge_walk_s(s, obs[i])

    def blame_culprit(self) -> None:
        asked, victim, before, after = self.culprit
        self.viol("asking_is_pure", f"asking_changes_answer_of_{victim.split('(')[0]}",
                  f"{victim} answered {before} before {asked} was asked and {after} right after it")

    def differs(self, o1: list, o2: list) -> int | None:
        """Index of the most basic lookup that answered differently in two observations of the same state."""
        best = None
        for i, (x, y) in enumerate(zip(o1, o2)):
            if x == y:
                continue
            name = self.names[i]
            if name == "introductions_from" and not STRICT_INTRODUCTIONS:
                self.c.probe("introductions_answer_changed_by_asking")
                continue
            if name == "by_address":
                owners = self.m.owners(self.ix["addr"].index(i))
                if x is not None and y is not None and self.split(x)[0] in owners and self.split(y)[0] in owners:
                    continue    # several verified peers share the address: each of them is a correct answer
            rank = PRIORITY.index(name)
            if best is None or rank < best[0]:
                best = (rank, i)
        return None if best is None else best[1]

    def full_check(self, op: dict) -> None:
        """All lookups, twice, against the model; the caches are put back as they were."""
        if self.diverged:
            return
        saved = self.save_caches()
        try:
            obs1 = self.observe(saved)
            if self.culprit is not None:
                self.blame_culprit()
                return
            if op["op"] in QUERY_OPS and self.last_obs is not None:
                i = self.differs(self.last_obs, obs1)
                if i is not None:
                    self.viol("asking_is_pure", f"asking_changes_answer_of_{self.names[i]}",
                              f"{self.labels[i]} answered {self.last_obs[i]} before {describe(op)} and {obs1[i]} after it")
                    return
            self.judge(obs1)
            if self.diverged:
                return
            self.restore_caches(saved)
            obs2 = self.observe()
            if self.differs(obs1, obs2) is None:
                obs2 = self.observe()       # and once more, now with the caches as warm as they get
        except Exception as e:  # noqa: BLE001
            self.viol("returns_normally", f"query_raised_{type(e).__name__}", f"a lookup raised {e!r}")
            return
        finally:
            self.restore_caches(saved)
        if self.culprit is not None:
            self.blame_culprit()
            return
        i = self.differs(obs1, obs2)
        if i is not None:
            self.viol("asking_is_pure", f"asking_changes_answer_of_{self.names[i]}",
                      f"{self.labels[i]} answered {obs1[i]} when asked first and {obs2[i]} after all other lookups had "
                      f"been asked")
            return
        for s, (i, j) in enumerate(self.ix["walk_s"]):
            if not set(obs1[j]) <= set(obs1[i]):
                self.viol("walkable", "walkable_old_style_not_subset",
                          f"get_walkable_addresses(s{s}) -> {obs1[i]}, with old_style=True -> {obs1[j]}")
                return
        self.last_obs = obs1
        self.c.world.trace.event("state", None, len(self.hist), hash_obs(obs1))

    # ------------------------------------------------------------ operations
    def apply(self, op: dict, check: bool = True, keep_obs: bool = False) -> None:  # noqa: C901, PLR0912, PLR0915
        if op["op"] == "reset":
            self.reset()
            return
        if self.diverged:
            return
        c, m = self.c, self.m
        self.hist.append(op)
        self.told.append(describe(op))
        m.refused = None
        o = op["op"]
        before = self.cache_keys()
        try:
            if o == "add":
                self.op_add(op)
            elif o == "disc_addr":
                peer = self.make_peer(op["k"], op["a"])
                s = op.get("s")
                passed = self.peer_addrs(peer)
                self.net.discover_address(peer, self.addrs[op["t"]], None if s is None else self.services[s],
                                          bool(op.get("ns")))
                m.discover_address(op["k"], op["t"], s, bool(op.get("ns")))
                self.after_add(op["k"], m.add(op["k"], passed, peer))
            elif o == "disc_svc":
                peer = self.make_peer(op["k"], op["a"])
                self.net.discover_services(peer, [self.services[s] for s in op["ss"]])
                m.svc.setdefault(op["k"], set()).update(op["ss"])
            elif o == "rm_peer":
                k = op["k"]
                if op.get("fresh") or k not in m.obj:
                    peer = self.Peer(self.pks[k], self.addrs[op.get("a", 0)])
                    self.told[-1] = f"rm_peer(Peer(k{k},A{op.get('a', 0)}))"
                    if k in m.ver:
                        c.probe("remove_other_object")
                else:
                    peer = m.obj[k]
                    self.told[-1] = f"rm_peer(k{k}: the verified object)"
                passed = self.peer_addrs(peer)
                self.net.remove_peer(peer)
                if m.remove_peer(k, passed):
                    self.note_removed([("k", k)] + [("a", a) for a in passed.values()])
            elif o == "rm_addr":
                a = op["a"]
                self.net.remove_by_address(self.addrs[a])
                removed = m.remove_by_address(a)
                self.note_removed([("a", a)] + [("k", k) for k in removed])
            elif o == "set_addr":
                k = op["k"]
                if k in m.obj:
                    m.obj[k].add_address(self.addrs[op["a"]])
                    cls = type(self.addrs[op["a"]])
                    if m.ver[k].get(cls) != op["a"]:
                        c.probe("address_change")
                    m.ver[k][cls] = op["a"]
                    m.known.setdefault(op["a"], [None, None, "self"])
                else:
                    self.told[-1] += "[not verified: skipped]"
            elif o == "bl_addr":
                if self.addrs[op["a"]] not in self.net.blacklist:
                    self.net.blacklist.append(self.addrs[op["a"]])
                m.bl_addr.add(op["a"])
                if op["a"] in m.known:
                    m.known[op["a"]][2] = "self"
            elif o == "bl_mid":
                mid = self.askers[op["k"]].mid
                if mid not in self.net.blacklist_mids:
                    self.net.blacklist_mids.append(mid)
                m.bl_mid.add(op["k"])
            elif o == "restart":
                self.op_restart()
            elif o == "garbage":
                self.op_garbage(op)
            elif o in QUERY_OPS:
                self.op_query(op, check)
            else:
                msg = f"unknown op {o}"
                raise HarnessBug(msg)  # noqa: TRY301
        except HarnessBug:
            raise
        except Exception as e:  # noqa: BLE001
            self.viol("returns_normally", f"{o}_raised_{type(e).__name__}", f"{describe(op)} raised {e!r}")
            return
        if o not in REMOVE_OPS and o != "restart":
            after = self.cache_keys()
            if any(b - a and len(b) >= size for b, a, size in zip(before, after, self.sizes)):
                c.probe("lru_overflow")     # a full cache lost an entry to make room
        if len(m.ver) > 1 and any(len(m.owners(a)) > 1 for a in range(N_ADDRS)):
            c.probe("shared_address")
        if check:
            self.full_check(op)
        elif keep_obs:
            # this state was checked in an earlier run of the same prefix; only remember its answers
            saved = self.save_caches()
            self.last_obs = self.observe(saved)
            self.restore_caches(saved)
            self.culprit = None
        else:
            self.last_obs = None

    def op_add(self, op: dict) -> None:
        k = op["k"]
        peer = self.make_peer(k, op["a"], bool(op.get("reuse")))
        passed = self.peer_addrs(peer)
        if op.get("reuse"):
            self.told[-1] = f"add(k{k}: last Peer object used for it, addresses {sorted(passed.values())})"
        free_known = [a for a in passed.values() if a in self.m.known and not self.m.owners(a)]
        fired: list = []
        obs = None
        if op.get("cap"):
            # an application observer enforcing a peer cap: it drops the peer again from inside on_peer_added (two graph operations
            # nested in one call)
            net = self.net

            class Cap:
                def on_peer_added(self, p) -> None:  # noqa: ANN001
                    fired.append(p)
                    net.remove_peer(p)

                def on_peer_removed(self, p) -> None:  # noqa: ANN001
                    pass
            obs = Cap()
            self.net.add_peer_observer(obs)
            self.told[-1] += "[observer removes it again inside on_peer_added]"
        try:
            self.net.add_verified_peer(peer)
        finally:
            if obs is not None:
                self.net.remove_peer_observer(obs)
        how = self.m.add(k, passed, peer)
        if fired:
            self.c.probe("peer_removed_from_inside_on_peer_added")
            if self.m.remove_peer(k, self.peer_addrs(fired[0])):
                self.note_removed([("k", k)] + [("a", a) for a in passed.values()])
        if how in ("new", "readd") and free_known:
            self.c.probe("promote_walkable_to_verified")
        if how == "update" and len(self.m.ver[k]) > 1:
            self.c.probe("two_addresses")
        self.after_add(k, how)

    def after_add(self, k: int, how: str) -> None:
        if how == "refused":
            if self.m.refused is not None:
                self.c.probe("blacklist_refusal")
        elif how == "readd":
            self.c.probe("readd_after_remove")

    def note_removed(self, targets: list) -> None:
        if self.queried_all or any(t in self.queried for t in targets):
            self.removed_after_query.update(targets)

    def note_query(self, op: dict) -> None:
        narrow = {"q_key": [("k", op.get("k"))], "q_addr": [("a", op.get("a"))], "q_svcs_of": [("k", op.get("k"))],
                  "q_intros": [("k", op.get("k"))]}.get(op["op"])
        if narrow is None:        # q_all, q_svc, q_walk concern every peer / address
            hit = bool(self.removed_after_query)
            self.removed_after_query.clear()
            self.queried_all = True
        else:
            hit = any(t in self.removed_after_query for t in narrow)
            self.removed_after_query.difference_update(narrow)
            self.queried.update(narrow)
        if hit:
            self.c.probe("query_then_remove_then_query")

    def op_query(self, op: dict, check: bool) -> None:  # noqa: C901
        o = op["op"]
        self.note_query(op)
        if o == "q_all":
            obs = self.observe()
            if check:
                self.judge(obs)
            if not self.diverged:
                i = self.differs(obs, self.observe())
                if i is not None:
                    self.viol("asking_is_pure", f"repeated_query_differs_{self.names[i]}",
                              f"every lookup asked, then every lookup asked again: {self.labels[i]} -> {obs[i]}, then "
                              f"something else")
            return
        if o == "q_key":
            fn, judge, name = (lambda: self.q_key(op["k"])), (lambda r: self.judge_key(op["k"], r)), "by_key"
        elif o == "q_addr":
            fn, judge, name = (lambda: self.q_addr(op["a"])), (lambda r: self.judge_addr(op["a"], r)), "by_address"
        elif o == "q_svc":
            fn, judge, name = (lambda: self.q_svc(op["s"])), (lambda r: self.judge_svc(op["s"], r)), "peers_for_service"
        elif o == "q_svcs_of":
            fn, judge, name = (lambda: self.q_svcs_of(op["k"])), (lambda r: self.judge_svcs_of(op["k"], r)), \
                "services_for_peer"
        elif o == "q_walk":
            s = op.get("s")
            if s is None:
                fn, judge, name = (lambda: self.q_walk(None)), self.judge_walk, "walkable"
            else:
                old = bool(op.get("old"))
                fn = lambda: self.q_walk(s, old)  # noqa: E731
                judge = (lambda r: None) if old else (lambda r: self.judge_walk_s(s, r))
                name = "walkable"
        else:
            fn, judge, name = (lambda: self.q_intros(op["k"])), (lambda r: None), "introductions_from"
        r1 = fn()
        if check:
            judge(r1)
        r2 = fn()
        if r1 != r2 and not (o == "q_addr" and r1 and r2 and {self.split(r1)[0], self.split(r2)[0]} <= set(
                self.m.owners(op["a"]))):
            self.viol("asking_is_pure", f"repeated_query_differs_{name}", f"{describe(op)} -> {r1}, asked again -> {r2}")

    def op_restart(self) -> None:
        m = self.m
        snap = self.net.snapshot()
        fresh = self.fresh_net()
        fresh.load_snapshot(snap)
        got = fresh.get_walkable_addresses()
        names = [self.aname(a) for a in got]
        allowed = m.owned()
        if m.ver:
            self.c.probe("snapshot_roundtrip")
        bad = None
        for n in names:
            if n not in allowed:
                bad = ("snapshot_roundtrip_extra_address",
                       f"after snapshot()/load_snapshot() into a fresh graph {n!r} is walkable, but no verified peer "
                       f"had that address (verified: { {k: sorted(v.values()) for k, v in m.ver.items()} })")
                break
        if bad is None and len(set(names)) != len(names):
            bad = ("snapshot_roundtrip_duplicate", f"walkable after restart: {names}")
        if bad is None:
            for k, ad in sorted(m.ver.items()):
                if ad and not set(ad.values()) & set(names):
                    bad = ("snapshot_roundtrip_missing_peer",
                           f"verified k{k} (addresses {sorted(ad.values())}) has no walkable address after "
                           f"snapshot()/load_snapshot() into a fresh graph: {names}")
                    break
        if bad is None and (fresh.verified_peers or any(fresh.get_verified_by_address(a) for a in self.addrs)):
            bad = ("snapshot_roundtrip_verified_peers", "a fresh graph has verified peers after load_snapshot()")
        was = list(m.ver)
        hist, told, last_obj = self.hist, self.told, self.last_obj
        self.reset()
        self.hist, self.told, self.last_obj = hist, told, last_obj
        self.net = fresh
        for k in was:
            self.m.why[k] = "restart"
            self.m.ever_removed.add(k)
        for n in names:
            if isinstance(n, int):
                self.m.known[n] = [None, None, "snap"]
        if bad is not None:
            self.viol("snapshot", bad[0], bad[1])

    def op_garbage(self, op: dict) -> None:
        mode, n = op.get("mode"), int(op.get("n", 0))
        snap = self.net.snapshot()
        if mode == "hex":
            data = bytes.fromhex(op["hex"])
        elif mode == "truncate":
            data = snap[:max(0, len(snap) - 1 - n % 7)]
        elif mode == "cut_head":
            data = snap[1 + n % 7:]
        else:
            data = bytearray(snap or b"\x01\x02\x03")
            data[n % len(data)] ^= 1 << (n % 8)
            data = bytes(data)
        self.c.probe("garbage_snapshot")
        scratch = self.fresh_net()
        try:
            scratch.load_snapshot(data)
            got = scratch.get_walkable_addresses()
        except Exception as e:  # noqa: BLE001
            self.viol("snapshot", f"load_snapshot_raised_{type(e).__name__}",
                      f"load_snapshot({data.hex()}) [{mode}] raised {e!r}")
            return
        if mode == "truncate":
            full = self.fresh_net()
            full.load_snapshot(snap)
            whole = {tuple(a) for a in full.get_walkable_addresses()}
            extra = [tuple(a) for a in got if tuple(a) not in whole]
            if extra:
                self.viol("snapshot", "truncated_snapshot_invents_address",
                          f"load_snapshot of a truncated snapshot made {extra} walkable; whole snapshot: {sorted(whole)}")
        self.c.world.trace.event("garbage", None, mode, len(got))


def hash_obs(obs: list) -> str:
    return hashlib.sha1(repr(obs).encode()).hexdigest()[:10]  # noqa: S324


# --------------------------------------------------------------------------- execution
def _run_enum(c: Case, run: Run, case: dict) -> int:
    alpha = ALPHABETS[case["alphabet"]]
    depth = int(case["depth"])
    prefix = tuple(case["prefix"])
    executed = 0
    prev: tuple = ()
    bad: tuple | None = None
    nt_cache: dict = {}
    for suffix in itertools.product(range(len(alpha)), repeat=depth - len(prefix)):
        seq = prefix + suffix
        if bad is not None and seq[:len(bad)] == bad:
            continue      # extension of a sequence that already disagreed with the model
        common = 0
        while common < len(prev) and common < len(seq) and prev[common] == seq[common]:
            common += 1
        prev = seq
        run.reset()
        executed += 1
        # the steps shared with the previous sequence were checked there (checking restores the caches)
        for i, x in enumerate(seq):
            run.apply(alpha[x], check=i >= common,
                      keep_obs=i == common - 1 and alpha[seq[i + 1]]["op"] in QUERY_OPS)
            if run.diverged:
                bad = seq[:i + 1]
                prev = ()
                break
        kinds = tuple(alpha[x]["op"] for x in seq)
        if kinds not in nt_cache:
            nt_cache[kinds] = nt_key([alpha[x] for x in seq])
        if nt_cache[kinds]:
            c.nontrivial(nt_cache[kinds])
    c.probe("enum_sequences", executed)
    return executed


def execute(case: dict) -> dict:
    if case.get("scenario") == "insitu":
        from .c12_insitu import execute_insitu
        return execute_insitu(case)
    c = Case(case, first_only=False)    # first-only is applied per graph/model lifetime (Run.viol), not per case
    sizes = list(case.get("sizes") or [500, 500, 500])
    run = Run(c, sizes)
    extra = {}
    if case.get("scenario") == "enum":
        extra["evaluations"] = _run_enum(c, run, case)
        alpha = ALPHABETS[case["alphabet"]]
        c.sample = {"scenario": "enum", "alphabet": [describe(o) for o in alpha], "depth": case["depth"],
                    "prefix": [describe(alpha[x]) for x in case["prefix"]], "sizes": sizes,
                    "sequences": extra["evaluations"]}
    else:
        ops = case["ops"]
        seg: list = []
        for op in ops:
            if op["op"] == "reset":
                key = nt_key(seg)
                if key:
                    c.nontrivial(key)
                seg = []
            else:
                seg.append(op)
            run.apply(op)
        key = nt_key(seg)
        if key:
            c.nontrivial(key)
        c.sample = {"scenario": "seq", "sizes": sizes, "ops": [describe(o) for o in ops[:40]], "n_ops": len(ops),
                    "final_verified": sorted(run.m.ver), "final_known": sorted(run.m.known)}
    if run.failing:
        extra["failing"] = run.failing
    return c.result(**extra)
