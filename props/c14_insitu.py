"""
C14, in-situ family (DESIGN 4/C14 part a): a simulated DHT of 8..24 real DHTDiscoveryCommunity nodes with RandomWalk and
PingChurn under virtual time, latency-derived RTTs, loss, and crashing nodes (-> failed pings -> BAD -> eviction).  Every few
simulated seconds every live node's routing tables are checked: buckets prefix-free and complete, every node in the bucket
that owns its identifier, capacities, splits only on the own path, closest_nodes equal to a brute-force XOR sort.
"""
from __future__ import annotations

import asyncio
import random
from fractions import Fraction

from simkit.node import SimNode
from simkit.scenario import Case


def insitu_case(seed: int, tier: str = "quick") -> dict:
    rng = random.Random(f"c14i/{seed}")
    return {"scenario": "insitu", "seed": seed, "nodes": rng.choice([8, 12, 16] if tier == "quick" else [8, 16, 24, 40]),
            "minutes": rng.choice([3, 6] if tier == "quick" else [6, 12, 20]), "crash": rng.choice([0, 2, 4]),
            "bucket": rng.choice([8, 8, 2, 3]), "rebind": rng.choice([0, 1, 3]),
            "knobs": {"lat_min": rng.choice([0.005, 0.05]), "lat_jit": rng.choice([0.0, 0.1, 0.4]), "loss": rng.choice([0.0, 0.05, 0.2]),
                      "timer_jitter": rng.choice([0.0, 0.001])}}


def bits(ident: bytes) -> str:
    return format(int.from_bytes(ident, "big"), f"0{len(ident) * 8}b")


def check_table(c: Case, rt, where: str, rng) -> None:  # noqa: ANN001, C901
    from ipv8.dht.routing import NODE_STATUS_BAD, distance
    buckets = list(rt.trie.values())
    prefixes = [b.prefix_id for b in buckets]
    me = bits(rt.my_node_id)
    total = sum(Fraction(1, 2 ** len(p)) for p in prefixes)
    if total != 1:
        c.violate("partition", "insitu_buckets_do_not_cover_the_space", f"{where}: sum 2^-len = {total} over {sorted(prefixes)[:8]}")
    for i, p in enumerate(prefixes):
        for q in prefixes[i + 1:]:
            if p.startswith(q) or q.startswith(p):
                c.violate("partition", "insitu_bucket_prefixes_overlap", f"{where}: {p!r} / {q!r}")
    allnodes = []
    for b in buckets:
        if len(b.nodes) > b.max_size:
            c.violate("capacity", "insitu_bucket_over_capacity", f"{where}: bucket {b.prefix_id!r} holds {len(b.nodes)} > {b.max_size}")
        if b.prefix_id and not me.startswith(b.prefix_id[:-1]):
            c.violate("own_path", "insitu_split_off_own_path", f"{where}: bucket {b.prefix_id!r} exists but its parent is not on my path")
        for key, n in b.nodes.items():
            allnodes.append(n)
            if not bits(n.id).startswith(b.prefix_id):
                c.violate("ownership", "insitu_node_in_foreign_bucket",
                          f"{where}: node {n.id.hex()[:10]} sits in bucket {b.prefix_id!r} (filed under {key.hex()[:10]})")
        if b.prefix_id:
            for _ in range(2):
                g = b.generate_id()
                if not bits(g).startswith(b.prefix_id):
                    c.violate("refresh_id", "insitu_generate_id_outside_bucket", f"{where}: bucket {b.prefix_id!r} -> {g.hex()[:10]}")
    live = [n for n in allnodes if n.status != NODE_STATUS_BAD]
    for _ in range(2):
        target = rng.randbytes(20) if rng.random() < 0.5 or not allnodes else rng.choice(allnodes).id
        k = rng.randrange(1, 21)
        want = [n.id for n in sorted(live, key=lambda n: distance(n.id, target))[:k]]
        got = [n.id for n in rt.closest_nodes(target, max_nodes=k)]
        if got != want:
            c.violate("closest", "insitu_closest_nodes_not_the_k_nearest",
                      f"{where}: k={k}, {len(live)} live nodes in {len(buckets)} buckets: got {len(got)} ids, "
                      f"first difference at position {next((i for i, (a, b2) in enumerate(zip(got, want)) if a != b2), min(len(got), len(want)))}")
    c.probe("insitu_table_checks")
    if len(buckets) > 1:
        c.probe("insitu_split_tables")


def execute_insitu(case: dict) -> dict:
    import ipv8.dht.routing as routing
    from ipv8.dht.churn import PingChurn
    from ipv8.dht.discovery import DHTDiscoveryCommunity
    from ipv8.peerdiscovery.discovery import RandomWalk

    from simkit import seams

    c = Case(case, net=True, first_only=False)
    world = c.world
    rng = world.stream("c14i")
    old_size = routing.MAX_BUCKET_SIZE
    if case.get("bucket", 8) != old_size:
        # small buckets make the tree split deep with few nodes (Bucket's default argument is bound at import: patch it too)
        routing.MAX_BUCKET_SIZE = case["bucket"]
        old_defaults = routing.Bucket.__init__.__defaults__
        routing.Bucket.__init__.__defaults__ = (case["bucket"],)
        seams.ON_RESET.append(lambda: (setattr(routing, "MAX_BUCKET_SIZE", old_size),
                                       setattr(routing.Bucket.__init__, "__defaults__", old_defaults)))

    async def main() -> None:
        nodes = []
        for i in range(case["nodes"]):
            n = SimNode(world, f"n{i}", f"{1 + i % 200}.{(i * 7) % 250}.{(i * 13) % 250}.{1 + (i * 31) % 250}", ip6=None)
            await n.open("udp")
            n.ov = n.add(DHTDiscoveryCommunity)
            nodes.append(n)
        for n in nodes[1:]:
            n.call(n.ov.walk_to, nodes[0].address)
        await asyncio.sleep(1.0)
        for n in nodes:
            n.start_strategy(RandomWalk(n.ov, timeout=3.0), 0.5, 20)
            n.start_strategy(PingChurn(n.ov), 0.5, -1)
        crash_at = rng.randrange(20, 90)
        rebind_at = rng.randrange(30, 100)
        for tick in range(int(case["minutes"] * 12)):
            await asyncio.sleep(5.0)
            if case["crash"] and tick * 5 >= crash_at and not world.faults.get("crash"):
                for v in nodes[-case["crash"]:]:
                    v.crash()
            if case.get("rebind") and tick * 5 >= rebind_at and not world.faults.get("rebind"):
                # nodes come back under ANOTHER IP address with the same key (restart after renumbering, NAT re-binding) and talk to
                # everybody who knew them
                from ipv8.peer import Peer
                for k, old in enumerate([v for v in nodes[1:1 + case["rebind"]] if v.name not in world.loop.dead]):
                    old.crash()
                    new = SimNode(world, old.name + "r", f"{201 + k}.{(k * 11) % 250}.{(k * 17) % 250}.{1 + (k * 29) % 250}", ip6=None)
                    new.key = old.key
                    with world.as_node(new.name):
                        new.my_peer = Peer(old.key)
                    await new.open("udp")
                    new.ov = new.add(DHTDiscoveryCommunity)
                    for other in nodes:
                        if other is not old and other.name not in world.loop.dead:
                            new.call(new.ov.walk_to, other.address)
                    new.start_strategy(RandomWalk(new.ov, timeout=3.0), 0.5, 20)
                    new.start_strategy(PingChurn(new.ov), 0.5, -1)
                    nodes.append(new)
                    world.fault("rebind")
                    c.probe("insitu_node_back_under_another_ip")
            for n in nodes:
                if n.name in world.loop.dead:
                    continue
                for rt in n.ov.routing_tables.values():
                    check_table(c, rt, f"{n.name}@{tick * 5}s", rng)
            if c.violations:
                break
        evicted = sum(1 for n in nodes if n.name not in world.loop.dead
                      for rt in n.ov.routing_tables.values() for b in rt.trie.values() for _x in b.nodes)
        c.probe("insitu_nodes_in_tables", evicted)
        c.nontrivial(f"insitu/{case['nodes']}/{case['bucket']}/{case['crash']}/{case.get('rebind')}/{case['minutes']}/{case['knobs'].get('loss')}")
        for n in nodes:
            for h in n.strategies:
                h.cancel()
            if n.name not in world.loop.dead:
                await n.stop()

    try:
        world.run(main())
    finally:
        pass
    world.trace.event("c14i", None, (case["nodes"], len(c.violations)))
    c.sample = {k: case.get(k) for k in ("scenario", "nodes", "minutes", "crash", "rebind", "bucket", "knobs")}
    return c.result()
