"""
C13 - introduced peers behind cone NATs become mutually reachable.

World: introducer B on a public address, requester A and 1..5 candidate peers C1..Ck, each either public or behind a
``simkit.net.Nat`` box (full cone / address restricted / port restricted; endpoint-independent mapping, no mapping
timeout).  Placements: "different" (A and the candidates behind different boxes), "same" (A and the candidates share
one Nat object = one LAN segment with private addresses), "public" (nobody is translated).  Every node is a real
``Community`` subclass on the real ``UDPEndpoint`` (or ``DispatcherEndpoint``) over ``SimNet``; nothing of the
protocol is stubbed.  "old" style = IPv4-only introduction messages (246/245/250/249), "new" style = the
``New*Payload`` messages (234/233/232/231) on ``DispatcherEndpoint``.

Script (virtual time, scenario "intro", fault free):
  1. everybody walks to B (seeded order, seeded gaps, possibly concurrently) and learns its WAN address from B's answer;
  2. quiescence; A asks B for an introduction: B answers introducing some C and asks that C to puncture towards A;
  3. quiescence (this imposes "A contacts after C's puncture left"; it is never asserted as timing); then every node
     that B handed an introduction to performs its NEXT contact attempts with the real ``RandomWalk.take_step()``
     (one tick = one step, quiescence after each tick) until nothing walkable is left unattempted;
  4. quiescence, oracle.
Scenario "retry" is the same with datagram loss and several rounds (ask B again, quiescence, ``walk_to`` every
walkable address, quiescence, wait for the walker timeout); there the reachability oracle is evaluated after all
rounds and only for introductions handed out in a round in which no datagram was lost.

Oracle (from the statement; only introductions handed out by the public introducer B are judged):
  (1) for every introduction response of B that carries an introduction there is a puncture-request sent by B, caused
      by the same delivered request (``pkt.cause``), addressed to the (NAT mapped) address of the introduced peer and
      naming the requester's address as the one to puncture;
  (2) after the attempts and quiescence the requester is in ``get_peers()`` of the introduced peer and vice versa;
  (3) for a pair behind the same NAT the signed introduction requests / responses that made them peers of each other
      travelled over LAN addresses in both directions (private destination, no translation).
The NAT drop log, unroutable LAN attempts etc. are reach evidence, never oracle.  Nothing is asserted about
symmetric NATs, mapping timeouts, or introductions handed out by NATed nodes (they hand out what they see).
"""
from __future__ import annotations

import asyncio
import math
import os
import itertools
import random

from simkit.scenario import Case

PROPERTY = "C13"
LEVEL = "exploration"
BUDGET = {"quick": 25, "thorough": 300}
CHUNK = 24
CASE_WALL = {"quick": 60, "thorough": 120}
ENUMERATED = {"quick": False, "thorough": False}   # the grid is followed by an endless seeded stream
SHRINK_FIELDS = ()
RULE = ("case = (scenario intro|retry, NAT kind of requester A x NAT kind of the candidates in {none, full, addr, port}, "
        "placement different|same|public, old|new style messages, 1..5 candidates, seed, knobs). The stream starts "
        "with the full grid (16 kind combinations + 3 same-NAT placements) x 2 styles with 1 candidate and default "
        "latency, then the grid with 3 candidates, then seeded variations cycling over the grid: latency "
        "floor/jitter/long tails (reordering), timer jitter, order and gaps of the first walks, node ports (all equal / "
        "distinct / random), first NAT port (40001 / random / port preserving), private address family "
        "(10/8, 192.168/16, 172.16/12), candidates sharing one NAT box, mixed candidate placements and styles, "
        "UDPEndpoint vs DispatcherEndpoint, RandomWalk reset chance 0 or 50, requesters stepping one after the other "
        "or in the same tick, different NATs handing out the same private /24, candidates already known to B from an earlier life on another port (restart with the same key "
        "before the introduction); every 4th seeded case is the lossy 'retry' configuration (loss 2-20 %, 2-6 rounds). "
        "Non-trivial = B handed out at least one introduction that was judged by the reachability oracle; "
        "distinct = (nat_a, nat_c, placement, style, n_candidates) plus the set of judged (requester kind, "
        "introduced kind, pair placement) triples.")
COMPONENTS = {"real": ["ipv8.community.Community (introduction request/response, puncture request, puncture, walk_to)",
                       "ipv8.peerdiscovery.discovery.RandomWalk", "ipv8.peerdiscovery.network.Network",
                       "ipv8.peer.Peer", "ipv8.messaging.payload (old and new style)", "Serializer",
                       "UDPEndpoint / DispatcherEndpoint on SimNet", "EndpointListener LAN/WAN estimation"],
              "stub": ["UDP/IP, NAT boxes (SimNet: endpoint-independent mapping, full / address / port restricted "
                       "filtering, same-LAN delivery, unroutable private addresses)", "LAN address provider",
                       "wall clock", "OS RNG"]}
ASSUMPTIONS = ["cone NATs only (one mapping per inner socket whatever the destination); symmetric NATs are out of scope",
               "NAT mappings never expire during a case (timeout None)",
               "private addresses are unique in the simulated world (SimNet routes by IP), so two LANs never reuse the "
               "same private address",
               "the introducer is publicly reachable; introductions handed out by NATed peers in their own responses "
               "are not judged",
               "the requester's contact attempt happens after the network is quiescent (the puncture has left); the "
               "protocol has no retry inside one walk step",
               "under loss only introductions of rounds in which no datagram was lost are judged",
               "hairpin traffic is filtered by the NAT like any other inbound traffic",
               "premise 'the requester makes a contact attempt after the introduction': a pair is not judged when the "
               "requester had already tried a handed-out address before B introduced it (learnt from a third peer's "
               "response) and never tried it afterwards - RandomWalk then drops the re-introduced address together "
               "with the timed-out earlier attempt (probe not_judged_address_tried_before_introduction_only)",
               "a same-NAT pair that was connected through the NAT by an address which only a NATed third peer handed "
               "out (it does not know the LAN address of a peer it walked to itself) is not judged by the LAN oracle "
               "(probe same_nat_pair_connected_by_foreign_introduction)"]
REACH = ["introductions_judged", "puncture_request_observed", "puncture_dropped_at_restricted_nat",
         "lan_delivery_inside_nat", "new_style_exchange", "old_style_exchange", "unroutable_lan_attempt",
         "hole_punch_needed_and_worked", "same_nat_pair_over_lan", "randomwalk_steps", "retry_clean_round",
         "retry_lossy_round", "candidate_restarted_on_other_port", "pair:none/none/public", "pair:port/port/different", "pair:addr/port/different",
         "pair:port/port/same", "first_puncture_request_lost", "introduced_again_after_failed_attempt", "candidates_at_exactly_max_peers"]

KINDS = ("none", "full", "addr", "port")
ZERO = ("0.0.0.0", 0)  # noqa: S104
NAMES = {246: "intro-req", 245: "intro-resp", 250: "punct-req", 249: "puncture",
         234: "new-intro-req", 233: "new-intro-resp", 232: "new-punct-req", 231: "new-puncture"}
REQ_IDS = (246, 234)
RESP_IDS = (245, 233)
PREQ_IDS = (250, 232)
PUNCT_IDS = (249, 231)


# ------------------------------------------------------------------------------------------------ case stream
def grid():  # noqa: ANN201
    for style in ("old", "new"):
        for ka in KINDS:
            for kc in KINDS:
                if ka == kc == "none":
                    pls = ["public"]
                else:
                    pls = ["different"] + (["same"] if ka == kc else [])
                for pl in pls:
                    yield ka, kc, pl, style


DEFAULT_OPTS = {"order": "a_last", "gap": 0.3, "ports": "same", "nat_ports": "default", "lan": "10",
                "endpoint": "auto", "c_shared": False, "mixed": False, "mixed_style": False, "reset_chance": 0,
                "concurrent": False, "rounds": 1, "restart": False, "lan_overlap": False, "drop_preq": 0, "cap_exact": False}


def _case(scn, cell, n, seed, knobs=None, **opts) -> dict:  # noqa: ANN001, ANN003
    ka, kc, pl, style = cell
    o = dict(DEFAULT_OPTS)
    o.update(opts)
    return {"scenario": scn, "nat_a": ka, "nat_c": kc, "placement": pl, "style": style, "n_candidates": n,
            "seed": seed, "knobs": dict(knobs or {}), "opts": o}


def seeded(cell, seed: int, tier: str, lossy: bool) -> dict:  # noqa: ANN001
    rng = random.Random(f"c13/{seed}")
    nmax = 5
    n = rng.choice([1, 1, 2, 3, 3, 4, 5][:7 if tier == "thorough" else 6])
    n = min(n, nmax)
    knobs = {"lat_min": rng.choice([0.001, 0.005, 0.02, 0.1]),
             "lat_jit": rng.choice([0.0, 0.01, 0.05, 0.2, 1.0]),
             "tail_p": rng.choice([0.0, 0.0, 0.1, 0.3]),
             "timer_jitter": rng.choice([0.0, 0.0, 0.001, 0.05])}
    opts = {"order": rng.choice(["a_last", "a_first", "shuffle"]),
            "gap": rng.choice([0.0, 0.0, 0.01, 0.1, 1.0]),
            "ports": rng.choice(["same", "distinct", "random"]),
            "nat_ports": rng.choice(["default", "default", "random", "preserve"]),
            "lan": rng.choice(["10", "192", "172"]),
            "endpoint": rng.choice(["auto", "dispatcher"]),
            "c_shared": rng.random() < 0.3,
            "mixed": rng.random() < 0.3,
            "mixed_style": rng.random() < 0.25,
            "reset_chance": rng.choice([0, 0, 50]),
            "concurrent": rng.random() < 0.4,
            "rounds": 1,
            "restart": rng.random() < 0.25,
            "lan_overlap": rng.random() < 0.3}
    opts["cap_exact"] = rng.random() < 0.15 and not lossy
    if opts["cap_exact"]:
        n = 1          # (a candidate with one peer more than max_peers refuses further requests by design: one requester only)
        opts["restart"] = False
    if rng.random() < 0.15 and not lossy:
        opts["rounds"] = 2
        opts["drop_preq"] = 1
        opts["restart"] = False
        n = 1          # (with one candidate B is certain to introduce the same peer again)
    scn = "intro"
    if lossy:
        scn = "retry"
        knobs["loss"] = rng.choice([0.02, 0.05, 0.1, 0.2])
        opts["rounds"] = rng.choice([2, 3, 4, 6])
    return _case(scn, cell, n, seed, knobs, **opts)


def cases(tier: str, base_seed: int):  # noqa: ANN201
    cells = list(grid())
    s = base_seed
    for cell in cells:                       # the plain grid: 1 candidate, default latency, fault free
        s += 1
        yield _case("intro", cell, 1, s)
    for cell in cells:                       # 3 candidates, A walks first (A is also introduced to the candidates)
        s += 1
        yield _case("intro", cell, 3, s, order="a_first", gap=0.0, concurrent=True)
    for cell in cells:                       # the candidates were known to B from an earlier life on another port (same key)
        if cell[2] == "same" or (cell[0], cell[1]) in (("port", "port"), ("none", "addr"), ("full", "none")):
            s += 1
            yield _case("intro", cell, 2, s, restart=True)
    for cell in cells:                       # different NATs that hand out the same private /24
        if cell[2] == "different" and cell[1] != "none" and cell[0] != "none":
            s += 1
            yield _case("intro", cell, 2, s, lan_overlap=True)
    for cell in cells:                       # the candidates' peer tables are filled to exactly max_peers
        if cell[2] == "different" and cell[1] in ("addr", "port"):
            s += 1
            yield _case("intro", cell, 1, s, cap_exact=True)
    for cell in cells:                       # the first puncture-request is lost; the walker gives the address up; B introduces it again
        if cell[2] == "different" and cell[1] in ("addr", "port"):
            s += 1
            yield _case("intro", cell, 1, s, rounds=2, drop_preq=1)
    for cell in cells:                       # plain grid under loss with retries
        s += 1
        yield _case("retry", cell, 2, s, {"loss": 0.1}, rounds=4)
    if tier == "thorough":
        for n in (2, 4, 5):
            for cell in cells:
                s += 1
                yield _case("intro", cell, n, s, {"lat_jit": 0.5, "tail_p": 0.2}, order="shuffle", gap=0.01,
                            ports="distinct", nat_ports="random", c_shared=(n == 4))
    for i in itertools.count():
        seed = base_seed + 10_000 + i
        yield seeded(cells[i % len(cells)], seed, tier, lossy=(i % 4 == 3))


def simplify(case: dict):  # noqa: ANN201
    """Shrinking candidates: fewer candidates, default options, default knobs."""
    if case.get("n_candidates", 1) > 1:
        for n in range(1, case["n_candidates"]):
            c = dict(case)
            c["n_candidates"] = n
            yield c
    for k, v in DEFAULT_OPTS.items():
        if case.get("opts", {}).get(k, v) != v and k != "rounds":
            c = dict(case)
            c["opts"] = dict(case["opts"])
            c["opts"][k] = v
            yield c
    for k in ("tail_p", "timer_jitter", "lat_jit", "lat_min"):
        if k in case.get("knobs", {}):
            c = dict(case)
            c["knobs"] = {a: b for a, b in case["knobs"].items() if a != k}
            yield c


# ------------------------------------------------------------------------------------------------ overlay
_OV: list = []


TRACE_ALL = bool(os.environ.get("C13_TRACE"))       # debugging aid: full packet trace in the violation message


def _wall_time() -> float:
    from ipv8.peerdiscovery import discovery
    return discovery.time()


def overlay_class():  # noqa: ANN201
    if not _OV:
        from ipv8.community import Community

        class NatCommunity(Community):
            community_id = bytes.fromhex("c13c" * 10)
        _OV.append(NatCommunity)
    return _OV[0]


def _private(ip: str) -> bool:
    from simkit.net import _private as p
    return p(ip)


def _lan_ip(fam: str, net: int, host: int) -> str:
    if fam == "192":
        return f"192.168.{net}.{host}"
    if fam == "172":
        return f"172.16.{net}.{host}"
    return f"10.0.{net}.{host}"


class Topo:
    """Nodes of one case: B, A, C1..Ck, their NAT boxes and kinds."""

    def __init__(self) -> None:
        self.nodes: dict = {}
        self.kind: dict = {}
        self.style: dict = {}
        self.order: list = []

    def nat(self, name):  # noqa: ANN001, ANN201
        return self.nodes[name].host.nat

    def wan(self, name):  # noqa: ANN001, ANN201
        """Address under which the public internet sees the node's socket (None: never sent through its NAT)."""
        n = self.nodes[name]
        nat = n.host.nat
        if nat is None:
            return (n.ip, n.port)
        p = nat.map.get((n.ip, n.port))
        return None if p is None else (nat.wan_ip, p)

    def lan(self, name):  # noqa: ANN001, ANN201
        n = self.nodes[name]
        return (n.ip, n.port)

    def placement(self, a, b) -> str:  # noqa: ANN001
        na, nb = self.nat(a), self.nat(b)
        if na is None and nb is None:
            return "public"
        if na is nb:
            return "same"
        return "different"

    def resolve_public(self, net, addr):  # noqa: ANN001, ANN201
        """Which node does a datagram sent from the public internet to ``addr`` end up at (ignoring filtering)?"""
        if addr is None or _private(addr[0]):
            return None
        nat = net.nats.get(addr[0])
        if nat is not None:
            inner = nat.rev.get(addr[1])
            if inner is None:
                return None
            addr = inner
        for name, n in self.nodes.items():
            if (n.ip, n.port) == tuple(addr):
                return name
        return None

    def resolve_any(self, net, addr):  # noqa: ANN001, ANN201
        r = self.resolve_public(net, addr)
        if r is None and addr is not None:
            for name, n in self.nodes.items():
                if (n.ip, n.port) == tuple(addr):
                    return name
        return r


async def build(c: Case, case: dict) -> Topo:  # noqa: C901, PLR0912, PLR0915
    from simkit.node import SimNode
    world, net = c.world, c.net
    o = dict(DEFAULT_OPTS)
    o.update(case.get("opts") or {})
    rng = world.stream("topo")
    ka, kc, pl, style = case["nat_a"], case["nat_c"], case["placement"], case["style"]
    k = int(case["n_candidates"])
    t = Topo()
    fam = o["lan"]
    ov = bool(o.get("lan_overlap"))     # every NAT hands out addresses of the SAME private /24 (distinct hosts): what home routers do

    def port_for(idx: int) -> int:
        if o["ports"] == "same":
            return 8090
        if o["ports"] == "distinct":
            return 8090 + idx
        return rng.randrange(1024, 65000)

    def first_nat_port(nat, port: int) -> None:  # noqa: ANN001
        if o["nat_ports"] == "random":
            nat.nextp = rng.randrange(1024, 60000)
        elif o["nat_ports"] == "preserve":
            nat.nextp = port - 1

    plan = [("B", "5.5.5.5", None, "none", port_for(0))]
    pa = port_for(1)
    nat_a = None
    if ka != "none":
        nat_a = net.add_nat("6.6.6.6", ka, None)
        first_nat_port(nat_a, pa)
        plan.append(("A", _lan_ip(fam, 0, 2), nat_a, ka, pa))
    else:
        plan.append(("A", "6.6.6.6", None, "none", pa))
    shared = None
    first_c_nat = None
    for i in range(k):
        name = f"C{i + 1}"
        p = port_for(2 + i)
        kind, place = kc, pl
        if i > 0 and o["mixed"]:
            kind = rng.choice(KINDS)
            place = rng.choice(["same", "different", "different", "with_c1"])
        if place == "same" and nat_a is None:
            place = "different"
        if place == "with_c1" and (first_c_nat is None or first_c_nat is nat_a):
            place = "different"
        if place == "public":
            kind = "none"
        if place == "same":
            plan.append((name, _lan_ip(fam, 0, 3 + i), nat_a, nat_a.kind, p))
        elif place == "with_c1":
            plan.append((name, _lan_ip(fam, 0 if ov else 9, 60 + i if ov else 30 + i), first_c_nat, first_c_nat.kind, p))
        elif kind == "none":
            plan.append((name, f"7.7.{i + 1}.7", None, "none", p))
        elif o["c_shared"] and not (i > 0 and o["mixed"]):
            if shared is None:
                shared = net.add_nat("7.7.100.7", kind, None)
                first_nat_port(shared, p)
            plan.append((name, _lan_ip(fam, 0 if ov else 9, 40 + i if ov else 3 + i), shared, kind, p))
        else:
            nat = net.add_nat(f"7.7.{i + 1}.7", kind, None)
            first_nat_port(nat, p)
            plan.append((name, _lan_ip(fam, 0 if ov else i + 1, 20 + i if ov else 3), nat, kind, p))
        if i == 0:
            first_c_nat = plan[-1][2]
    cls = overlay_class()
    for name, ip, nat, kind, port in plan:
        node = SimNode(world, name, ip, port=port, nat=nat)
        st = style
        if o["mixed_style"] and name.startswith("C") and rng.random() < 0.5:
            st = "old" if style == "new" else "new"
        ep = "dispatcher" if (o["endpoint"] == "dispatcher" or "new" in (st, style)) else "udp"
        await node.open(ep)
        node.ov = node.add(cls)
        node.ep_kind = ep
        t.nodes[name] = node
        t.kind[name] = kind
        t.style[name] = st
    return t


# ------------------------------------------------------------------------------------------------ execution
def execute(case: dict) -> dict:  # noqa: C901, PLR0912, PLR0915
    from ipv8.messaging.interfaces.udp.endpoint import UDPv4Address
    from ipv8.messaging.payload import (IntroductionResponsePayload, NewIntroductionResponsePayload,
                                        NewPunctureRequestPayload, PunctureRequestPayload)
    from ipv8.peerdiscovery.discovery import RandomWalk
    from simkit.net import SimNet

    c = Case(case, net=True, first_only=False)
    world, net, loop = c.world, c.net, c.loop
    o = dict(DEFAULT_OPTS)
    o.update(case.get("opts") or {})
    rng = world.stream("script")
    retry = case["scenario"] == "retry"

    sent: dict = {}            # pkt id -> Pkt
    fate_of: dict = {}         # pkt id -> fate
    round_of: dict = {}        # pkt id -> round in which it was sent
    delivered: dict = {}       # pkt id -> (receiver, t)
    state = {"round": 0}
    lost_in_round: dict = {}

    def on_send(pkt, fate) -> None:  # noqa: ANN001
        sent[pkt.id] = pkt
        fate_of[pkt.id] = fate
        round_of[pkt.id] = state["round"]
        if fate == "lost":
            lost_in_round[state["round"]] = lost_in_round.get(state["round"], 0) + 1
        if fate == "unroutable" and len(pkt.data) > 22 and pkt.data[22] in REQ_IDS:
            world.probe("unroutable_lan_attempt")

    def on_deliver(pkt, tr) -> None:  # noqa: ANN001
        delivered[pkt.id] = (tr.host.name, loop.time())
        sh = net.hosts.get(pkt.src_node)
        if sh is not None and sh.nat is not None and sh.nat is tr.host.nat:
            world.probe("lan_delivery_inside_nat")
    net.on_send.append(on_send)
    net.on_deliver.append(on_deliver)

    def drop_first_puncture_requests(pkt):  # noqa: ANN001, ANN202
        # targeted loss: the puncture-requests B sends for A's introductions of the first round never arrive, so the requester's first attempt at a restricted NAT dies there
        req = sent.get(pkt.cause)
        if state["round"] == 0 and pkt.src_node == "B" and len(pkt.data) > 22 and pkt.data[22] in PREQ_IDS and not pkt.injected \
                and req is not None and req.src_node == "A":
            world.fault("targeted_drop")
            world.probe("first_puncture_request_lost")
            return "drop"
        return None
    if o.get("drop_preq"):
        net.filters.append(drop_first_puncture_requests)

    fns = (SimNet._deliver, SimNet._hand_over)  # noqa: SLF001

    def in_flight() -> bool:
        for h in loop._scheduled:  # noqa: SLF001
            if not h._cancelled and getattr(h._callback, "__func__", None) in fns:  # noqa: SLF001
                return True
        return any(not h._cancelled and getattr(h._callback, "__func__", None) in fns for h in loop._ready)  # noqa: SLF001

    async def quiesce() -> None:
        """No datagram in flight and nothing left to react to (two consecutive idle polls)."""
        idle = 0
        for _ in range(100_000):
            await asyncio.sleep(0.02)
            idle = 0 if in_flight() else idle + 1
            if idle >= 2:
                return
        msg = "network never became quiescent"
        raise RuntimeError(msg)

    topo_box: list = []
    walkers: dict = {}
    attempted: dict = {}

    def ask(node, addr) -> None:  # noqa: ANN001
        """Send an introduction request to ``addr`` in the style of this node."""
        a = UDPv4Address(*addr)

        def f() -> None:
            if topo_box[0].style[node.name] == "new":
                node.ov.endpoint.send(a, node.ov.create_introduction_request(a, new_style=True))
            else:
                node.ov.walk_to(a)
        node.call(f)

    def available(node) -> list:  # noqa: ANN001
        known = node.call(node.ov.get_walkable_addresses)
        rw = walkers.get(node.name)
        skip = set(rw.intro_timeouts) if rw is not None else set()
        return sorted(set(known) - skip)

    async def attempts_randomwalk(names: list) -> None:
        """The requesters' next contact attempts: real RandomWalk steps, quiescence after every tick."""
        for name in names:
            if name not in walkers:
                node = topo_box[0].nodes[name]
                walkers[name] = node.call(RandomWalk, node.ov, reset_chance=int(o["reset_chance"]))
        groups = [names] if o["concurrent"] else [[n] for n in names]
        for grp in groups:
            last_try = {n: loop.time() for n in grp}
            idle_ticks = dict.fromkeys(grp, 0)
            # a tick with an open window and untried addresses goes to the tracker instead with probability (reset_chance+1)/256:
            # only a run of such ticks that chance explains less than once in 1e9 counts as "stopped" (the ticks are *not*
            # evenly spaced in simulated time: quiescence after a tick lasts as long as the slowest datagram in flight)
            p_reset = (int(o["reset_chance"]) + 1) / 256.0
            need_ticks = max(6, int(math.ceil(math.log(1e-9) / math.log(p_reset))))
            for _tick in range(60):
                todo = [n for n in grp if available(topo_box[0].nodes[n])]
                if not todo:
                    break
                for n in todo:
                    node = topo_box[0].nodes[n]
                    before = set(walkers[n].intro_timeouts)
                    node.call(walkers[n].take_step)
                    world.probe("randomwalk_steps")
                    new = set(walkers[n].intro_timeouts) - before
                    attempted.setdefault(n, set()).update(new)
                    rw = walkers[n]
                    now_n = node.call(_wall_time)
                    window_full = (len(rw.intro_timeouts) >= rw.window_size
                                   and all(t0 + rw.node_timeout >= now_n for t0 in rw.intro_timeouts.values()))
                    if new or window_full:       # a window full of attempts younger than the time-out is not idleness
                        last_try[n] = loop.time()
                        idle_ticks[n] = 0
                        continue
                    idle_ticks[n] += 1
                    if idle_ticks[n] >= need_ticks and loop.time() - last_try[n] > 15.0 and not retry:
                        # the stock walker (window of 5 attempts, each forgotten after 3 s) is ticked twice a second, has walkable
                        # addresses it never tried, and has not made a contact attempt for 15 s: the introduced peer is never contacted
                        c.violate("reachability", "walker_stopped_making_contact_attempts",
                                  f"{n}'s RandomWalk made no attempt for {loop.time() - last_try[n]:.1f} s while {len(available(node))} "
                                  f"walkable addresses were never tried ({len(walkers[n].intro_timeouts)} attempts 'in flight')")
                        last_try[n] = loop.time() + 1e9
                await quiesce()
                await asyncio.sleep(0.5)
        # whatever the walker did not get to (window full, reset to the tracker): plain walk_to
        left = False
        for n in names:
            node = topo_box[0].nodes[n]
            for addr in available(node):
                node.call(node.ov.walk_to, addr)
                attempted.setdefault(n, set()).add(addr)
                world.probe("swept_walk_to")
                left = True
        if left:
            await quiesce()

    async def attempts_walk_to(names: list) -> None:
        for n in names:
            node = topo_box[0].nodes[n]
            for addr in sorted(node.call(node.ov.get_walkable_addresses)):
                node.call(node.ov.walk_to, addr)
                attempted.setdefault(n, set()).add(addr)
        await quiesce()

    def requesters(t: Topo) -> list:
        """Nodes that B handed an introduction to so far (A first)."""
        out = []
        for pkt in sent.values():
            if pkt.src_node == "B" and len(pkt.data) > 22 and pkt.data[22] in RESP_IDS and pkt.cause in sent:
                r = sent[pkt.cause].src_node
                if r in t.nodes and r != "B" and r not in out:
                    out.append(r)
        return sorted(out, key=lambda n: (n != "A", n))

    async def main() -> None:
        t = await build(c, case)
        topo_box.append(t)
        b = t.nodes["B"]
        others = [n for n in t.nodes if n != "B"]
        if o["order"] == "a_last":
            order = [n for n in others if n != "A"] + ["A"]
        elif o["order"] == "a_first":
            order = ["A"] + [n for n in others if n != "A"]
        else:
            order = list(others)
            rng.shuffle(order)
        t.order = order
        # 1. everybody walks to B
        for n in order:
            ask(t.nodes[n], b.address)
            if o["gap"] >= 1.0:
                await quiesce()
            elif o["gap"] > 0:
                await asyncio.sleep(rng.random() * o["gap"])
        await quiesce()
        if o.get("restart") and not retry:
            # history: every candidate is already known to B, then restarts with the same key on another port (fresh process
            # state) and contacts B again from its new address
            from ipv8.peer import Peer
            from ipv8.peerdiscovery.network import Network
            for n in [x for x in order if x != "A"]:
                node = t.nodes[n]
                await node.stop()
                node.overlays = []
                node.port = node.port + 1000 if node.port < 60000 else node.port - 1000
                with world.as_node(n):
                    node.my_peer = Peer(node.key)
                    node.network = Network()
                await node.open(node.ep_kind)
                node.ov = node.add(overlay_class())
                world.probe("candidate_restarted_on_other_port")
            for n in [x for x in order if x != "A"]:
                ask(t.nodes[n], b.address)
                await quiesce()
            # introductions B handed out before this point may name an incarnation that no longer exists: not judged
            state["judge_from"] = loop.time()
        if o.get("cap_exact"):
            # history: every candidate's peer table is filled to EXACTLY its max_peers (it still answers requests: the limit is
            # "more than max_peers")
            for n in [x for x in order if x != "A"]:
                t.nodes[n].ov.max_peers = len(t.nodes[n].ov.get_peers())
            world.probe("candidates_at_exactly_max_peers")
        # 2. A asks B for an introduction
        ask(t.nodes["A"], b.address)
        await quiesce()
        # 3. next contact attempts
        if retry:
            await attempts_walk_to(others)
            world.probe("retry_lossy_round" if lost_in_round.get(0) else "retry_clean_round")
            for r in range(1, int(o["rounds"])):
                await asyncio.sleep(3.5)
                state["round"] = r
                askers = ["A"] + [n for n in others if n != "A" and rng.random() < 0.5]
                for n in askers:
                    ask(t.nodes[n], b.address)
                await quiesce()
                await attempts_walk_to(others)
                world.probe("retry_lossy_round" if lost_in_round.get(r) else "retry_clean_round")
        else:
            # (with the targeted loss of puncture-requests only A walks: a candidate that walks back to A on its own would connect the
            #  pair from the other side and hide whether A's own next attempt works)
            only_a = bool(o.get("drop_preq"))
            await attempts_randomwalk(["A"] if only_a else requesters(t))
            # introductions handed out meanwhile (walker went back to B): their requesters attempt as well
            for _ in range(0 if only_a else 3):
                more = [n for n in requesters(t) if available(t.nodes[n])]
                if not more:
                    break
                await attempts_randomwalk(more)
            for r in range(1, int(o["rounds"])):
                # the failed attempts have timed out at the walkers (their addresses are forgotten); A asks B again and is introduced
                # to the same peers once more
                await asyncio.sleep(4.0)
                for n in (["A"] if only_a else requesters(t)):
                    if n in walkers:
                        t.nodes[n].call(walkers[n].take_step)       # (expires what timed out)
                await quiesce()
                state["round"] = r
                for _k in range(max(1, case["n_candidates"])):
                    ask(t.nodes["A"], b.address)
                    await quiesce()
                world.probe("introduced_again_after_failed_attempt")
                await attempts_randomwalk(["A"] if only_a else requesters(t))
        await quiesce()
        if TRACE_ALL:
            print(trace(set(t.nodes)).replace("; ", "\n"))
        judge(t)
        for node in t.nodes.values():
            await node.stop()

    # -------------------------------------------------------------------------------------------- oracle
    def trace(names: set, limit: int = int(os.environ.get("C13_TRACE", "14"))) -> str:
        t = topo_box[0]
        lines = []
        for pid in sorted(sent):
            pkt = sent[pid]
            if len(pkt.data) < 23:
                continue
            recv = delivered.get(pid, (None,))[0]
            dst_owner = t.resolve_any(net, pkt.dst)
            if pkt.src_node in names and (dst_owner in names or recv in names):
                f = fate_of[pid]
                if f == "ok":
                    f = f"->{recv}" if recv else "dropped"
                lines.append(f"{pkt.t:.3f} {pkt.src_node}{tuple(pkt.wire_src)}>{tuple(pkt.dst)} "
                             f"{NAMES.get(pkt.data[22], pkt.data[22])} {f}")
        if len(lines) > limit:
            lines = lines[:4] + ["..."] + lines[-(limit - 5):]
        return "; ".join(lines)

    def judge(t: Topo) -> None:  # noqa: C901, PLR0912, PLR0915
        dec = t.nodes["B"].ov
        intros = []
        preqs: dict = {}          # cause -> list of (pkt, payload)
        for pid in sorted(sent):
            pkt = sent[pid]
            if pkt.src_node != "B" or len(pkt.data) < 23:
                continue
            mid = pkt.data[22]
            try:
                if mid in RESP_IDS:
                    cls = IntroductionResponsePayload if mid == 245 else NewIntroductionResponsePayload
                    _, _, pl = dec._ez_unpack_auth(cls, pkt.data)  # noqa: SLF001
                    lan_i = tuple(pl.lan_introduction_address)
                    wan_i = tuple(pl.wan_introduction_address)
                    if lan_i != ZERO or wan_i != ZERO:
                        intros.append((pkt, lan_i, wan_i))
                elif mid in PREQ_IDS:
                    cls = PunctureRequestPayload if mid == 250 else NewPunctureRequestPayload
                    _, pl = dec._ez_unpack_noauth(cls, pkt.data)  # noqa: SLF001
                    preqs.setdefault(pkt.cause, []).append((pkt, pl))
            except Exception as e:  # noqa: BLE001
                world.probe("undecodable_from_B:" + type(e).__name__)
        # what nodes other than B handed out (a NATed third peer introduces the address it sees, i.e. the WAN side)
        foreign: dict = {}        # receiver -> [(delivery time, {addresses handed out by a node other than B})]
        for pid in sorted(sent):
            pkt = sent[pid]
            if pkt.src_node in ("B", None) or len(pkt.data) < 23 or pkt.data[22] not in RESP_IDS or pid not in delivered:
                continue
            try:
                cls = IntroductionResponsePayload if pkt.data[22] == 245 else NewIntroductionResponsePayload
                _, _, pl = dec._ez_unpack_auth(cls, pkt.data)  # noqa: SLF001
            except Exception:  # noqa: BLE001, S112
                continue
            recv, when = delivered[pid]
            got = {tuple(pl.lan_introduction_address), tuple(pl.wan_introduction_address)} - {ZERO}
            if got:
                foreign.setdefault(recv, []).append((when, got))
        handed: dict = {}         # receiver -> [(delivery time, {addresses B handed out})]
        for pkt, lan_i, wan_i in intros:
            if pkt.id in delivered:
                recv, when = delivered[pkt.id]
                handed.setdefault(recv, []).append((when, {lan_i, wan_i}))
        pair_keys = set()
        judged = 0
        pairs: dict = {}          # (requester, introduced) -> [(response pkt, lan_i, wan_i, delivery time)] judged events
        for pkt, lan_i, wan_i in intros:
            req = sent.get(pkt.cause)
            if pkt.t < state.get("judge_from", 0.0):
                world.probe("introduction_before_restart_not_judged")
                continue
            if req is None or req.src_node not in t.nodes:
                world.probe("introduction_without_known_cause")
                continue
            r_name = req.src_node
            r_seen = tuple(req.wire_src)
            cands = preqs.get(pkt.cause, [])
            # who is being introduced, judging by the addresses handed out (fallbacks for broken hand-outs)
            want = None
            for cand in (t.resolve_public(net, wan_i), t.resolve_any(net, lan_i), t.resolve_any(net, wan_i)):
                if cand is not None and cand not in (r_name, "B"):
                    want = cand
                    break
            # ---- (1) puncture request for this introduction
            i_name = None
            if not cands:
                c.violate("puncture_request", "no_puncture_request_for_introduction",
                          f"B answered {r_name}'s request (pkt {req.id} from {r_seen}) introducing lan={lan_i} "
                          f"wan={wan_i} but sent no puncture-request caused by that request. "
                          f"trace: {trace({'B', r_name})}")
            else:
                world.probe("puncture_request_observed")
                targets = [(p, pl, t.resolve_public(net, tuple(p.dst))) for p, pl in cands]
                hit = [x for x in targets if x[2] is not None and x[2] not in (r_name, "B")
                       and (want is None or x[2] == want)]
                if not hit:
                    c.violate("puncture_request", "puncture_request_not_sent_to_introduced_peer",
                              f"B introduced lan={lan_i} wan={wan_i} (node {want}) to {r_name} but its puncture-request "
                              f"went to {[tuple(p.dst) for p, _ in cands]} which does not reach that peer. "
                              f"trace: {trace({'B', r_name, want})}")
                else:
                    p, pl, i_name = hit[0]
                    if tuple(pl.wan_walker_address) != r_seen:
                        c.violate("puncture_request", "puncture_request_not_towards_requester",
                                  f"B's puncture-request to {i_name} names wan_walker={tuple(pl.wan_walker_address)} "
                                  f"but the requester {r_name} was seen at {r_seen}")
            if i_name is None:
                i_name = want
            if i_name is None:
                c.violate("reachability", "introduced_address_belongs_to_nobody",
                          f"B introduced lan={lan_i} wan={wan_i} to {r_name}; no node other than the requester is "
                          f"reachable under either. trace: {trace({'B', r_name})}")
                continue
            if fate_of[pkt.id] != "ok" or delivered.get(pkt.id, (None,))[0] != r_name or (
                    retry and lost_in_round.get(round_of[pkt.id])):
                world.probe("introduction_in_lossy_round_not_judged")
                continue
            pairs.setdefault((r_name, i_name), []).append((pkt, lan_i, wan_i, delivered[pkt.id][1]))

        def tried(r: str, addr: tuple, lo: float, hi: float) -> bool:
            return any(p.src_node == r and len(p.data) > 22 and p.data[22] in REQ_IDS and tuple(p.dst) == addr
                       and lo <= p.t < hi for p in sent.values())

        for (r_name, i_name), events in pairs.items():
            if o.get("drop_preq") and r_name != "A":
                world.probe("requester_does_not_walk_in_this_configuration_not_judged")
                continue
            # ---- (2) mutual reachability
            rn, inn = t.nodes[r_name], t.nodes[i_name]
            place = t.placement(r_name, i_name)
            combo = f"{t.kind[r_name]}/{t.kind[i_name]}/{place}"
            r_has_i = inn.my_peer in rn.ov.get_peers()
            i_has_r = rn.my_peer in inn.ov.get_peers()
            world.trace.event("pair", r_name, i_name, (combo, r_has_i, i_has_r))
            pkt, lan_i, wan_i, _ = events[0]
            if not (r_has_i and i_has_r):
                # Premise of the statement: the requester makes a contact attempt after the introduction.  The real
                # walker refuses to when it already tried that very address before B introduced it (learnt from a
                # third peer's response) and that attempt is still in / just left its timeout list.
                stale = all(any(x != ZERO and tried(r_name, x, 0.0, when) and not tried(r_name, x, when, 1e18)
                                for x in (lan, wan)) for _, lan, wan, when in events)
                if stale:
                    world.probe("not_judged_address_tried_before_introduction_only")
                    continue
            judged += 1
            world.probe("introductions_judged")
            pair_keys.add(combo)
            world.probe("pair:" + combo)
            if not (r_has_i and i_has_r):
                nat_i, nat_r = t.nat(i_name), t.nat(r_name)
                c.violate("reachability", f"introduced_peer_not_reachable:{combo}",
                          f"[{case['style']}] B introduced {i_name} (lan={lan_i} wan={wan_i}; real lan={t.lan(i_name)} "
                          f"wan={t.wan(i_name)}) to {r_name} (lan={t.lan(r_name)} wan={t.wan(r_name)}); after "
                          f"{r_name}'s attempts {[tuple(x) for x in sorted(attempted.get(r_name, ()))]}: {i_name} in "
                          f"{r_name}.get_peers()={r_has_i}, {r_name} in {i_name}.get_peers()={i_has_r}. NAT drops at "
                          f"{i_name}: {nat_i.drops[-3:] if nat_i else '-'} at {r_name}: "
                          f"{nat_r.drops[-3:] if nat_r else '-'}. trace: {trace({r_name, i_name})}")
                continue
            # ---- (3) same NAT: over the LAN
            if place == "same":
                # what makes x a verified peer of y is a signed introduction request or response of x delivered to y
                ri, ir = walks(r_name, i_name), walks(i_name, r_name)
                if any(lan for _, lan in ri) and any(lan for _, lan in ir):
                    world.probe("same_nat_pair_over_lan")
                else:
                    # connected through the NAT (hairpin).  Judged only when the address used was handed out by B to
                    # the sender: a NATed third peer that introduces what it sees is not what the statement is about.
                    reqs = [q for q, lan in ri + ir if not lan and q.data[22] in REQ_IDS]
                    by_b = [q for q in reqs if any(when <= q.t and tuple(q.dst) in addrs
                                                   for when, addrs in handed.get(q.src_node, ()))]
                    # B's hand-out to a same-NAT requester names the WAN address next to the LAN one and the requester is to
                    # use the LAN one; when a third peer handed the sender that very WAN address (without B's LAN address)
                    # before the request left, the request follows that introduction, not B's
                    by_other = [q for q in by_b if any(when <= q.t and tuple(q.dst) in addrs
                                                       and not ({t.lan(r_name), t.lan(i_name)} & addrs)
                                                       for when, addrs in foreign.get(q.src_node, ()))]
                    if by_b and len(by_other) == len(by_b):
                        by_b = []
                    # a pair that had already exchanged signed messages through the NAT (address from a NATed third peer)
                    # BEFORE B introduced them keeps using the address it knows: not a connection made by B's introduction
                    first_contact = min((q.t for q, _lan in ri + ir), default=None)
                    t_intro = min(ev[3] for ev in events)
                    if first_contact is not None and first_contact < t_intro and not any(
                            when <= first_contact for x in (r_name, i_name) for when, addrs in handed.get(x, ())
                            if {t.wan(r_name), t.wan(i_name), t.lan(r_name), t.lan(i_name)} & addrs):
                        world.probe("same_nat_pair_connected_before_introduction")
                    elif by_b or not reqs:
                        c.violate("lan", "same_nat_pair_not_over_lan",
                                  f"{r_name} {t.lan(r_name)} and {i_name} {t.lan(i_name)} share NAT "
                                  f"{t.nat(r_name).wan_ip} ({t.kind[r_name]}), B introduced lan={lan_i} wan={wan_i} and "
                                  f"they became peers, but the introduction requests/responses that connected them did "
                                  f"not travel over LAN addresses. trace: {trace(set(t.nodes) if TRACE_ALL else {r_name, i_name})}")
                    else:
                        world.probe("same_nat_pair_connected_by_foreign_introduction")
            elif place == "different" and t.kind[i_name] in ("addr", "port") and punched(t, r_name, i_name):
                world.probe("hole_punch_needed_and_worked")
        seen_pairs = set(pairs)
        # evidence: punctures that died at a restricted NAT
        for pid, pkt in sent.items():
            if len(pkt.data) > 22 and pkt.data[22] in PUNCT_IDS and fate_of[pid] == "ok" and pid not in delivered:
                nat = net.nats.get(pkt.dst[0])
                if nat is not None and any(d[0] in ("addr", "port") and tuple(d[1]) == tuple(pkt.wire_src)
                                           and d[2] == pkt.dst[1] for d in nat.drops):
                    world.probe("puncture_dropped_at_restricted_nat")
        for pid in delivered:
            m = sent[pid].data[22] if len(sent[pid].data) > 22 else None
            if m == 233:
                world.probe("new_style_exchange")
            elif m == 245:
                world.probe("old_style_exchange")
        if judged:
            c.nontrivial([case["nat_a"], case["nat_c"], case["placement"], case["style"], case["n_candidates"]])
            c.nontrivial(["pairs", case["style"], sorted(pair_keys)])
        c.sample = {"case": {k: case[k] for k in ("scenario", "nat_a", "nat_c", "placement", "style", "n_candidates")},
                    "nodes": {n: {"kind": t.kind[n], "lan": t.lan(n), "wan": t.wan(n), "style": t.style[n]}
                              for n in t.nodes},
                    "introductions_by_B": len(intros), "judged_pairs": sorted(seen_pairs),
                    "nat_drops": {nat.wan_ip: len(nat.drops) for nat in net.nats.values()},
                    "trace": trace(set(t.nodes), 24)}

    def walks(x: str, y: str) -> list:
        """Introduction requests / responses of x delivered to y: (pkt, untranslated and to a private address?)."""
        out = []
        for pid, (recv, _) in delivered.items():
            pkt = sent[pid]
            if len(pkt.data) > 22 and pkt.src_node == x and recv == y and pkt.data[22] in REQ_IDS + RESP_IDS:
                out.append((pkt, _private(pkt.dst[0]) and tuple(pkt.wire_src) == tuple(pkt.src)))
        return out

    def punched(t: Topo, r: str, i: str) -> bool:
        """i's puncture towards r's WAN address left before r's first request reached i."""
        first = min((when for pid, (recv, when) in delivered.items()
                     if recv == i and sent[pid].src_node == r and sent[pid].data[22] in REQ_IDS), default=None)
        if first is None:
            return False
        return any(p.src_node == i and p.data[22] in PUNCT_IDS and tuple(p.dst) == t.wan(r) and p.t < first
                   for p in sent.values() if len(p.data) > 22)

    world.run(main())
    return c.result()
