"""
Shared scenario library for the tunnel properties (C04 C05 C06 C07 C08 C09 C11): real TunnelCommunity /
HiddenTunnelCommunity nodes over PythonCryptoEndpoint on SimNet, outside-world UDP servers, wire monitor with
causality chains, session-key recorder.
"""
from __future__ import annotations

import asyncio
from typing import Any

from simkit.boot import CAUSE, NODE
from simkit.net import LABEL
from simkit.node import SimNode


class Outside(asyncio.DatagramProtocol):
    """A host in the outside world: records what it receives, answers through ``reply`` (default: echo with a tag)."""

    def __init__(self, tw, name: str, ip: str, port: int = 7000, ip6: str | None = None) -> None:  # noqa: ANN001
        self.tw = tw
        self.name = name
        self.received: list = []     # (t, data, src)
        self.reply = lambda data, src: b"d" + b"R:" + data[1:-1] + b"e" if data[:1] == b"d" else data
        self.host = tw.net.add_host(name, ip, None, ip6)
        with tw.world.as_node(name):
            self.transport, _ = tw.net.create_datagram_endpoint(lambda: self, (ip, port), None)
        self.address = (ip, port)

    def datagram_received(self, data: bytes, addr: tuple) -> None:
        self.received.append((self.tw.world.loop.time(), data, addr))
        r = self.reply(data, addr) if self.reply else None
        if r is not None:
            self.transport.sendto(r, addr)


class TunnelWorld:
    def __init__(self, c, n: int = 5, exits: tuple = (3, 4), hidden: bool = False, settings: dict | None = None,  # noqa: ANN001
                 flags: dict | None = None, endpoint_kinds: dict | None = None) -> None:
        self.c = c
        self.world = c.world
        self.net = c.net
        self.n = n
        self.exits = set(exits)
        self.hidden = hidden
        self.settings_over = settings or {}
        self.flags_over = flags or {}
        self.endpoint_kinds = endpoint_kinds or {}
        self.nodes: list[SimNode] = []
        self.outside: dict[str, Outside] = {}
        self.wire: list = []            # every Pkt handed to the network (with fate)
        self.by_id: dict = {}
        self.session_keys: list = []    # (node, shared_secret, SessionKeys)
        self.delivered_raw: list = []   # (node, circuit_id, origin, data) via on_raw_data at originators
        self._orig_gsk = None
        self._orig_send_cell = None

    # ------------------------------------------------------------------ build
    def community_class(self):  # noqa: ANN201
        if self.hidden:
            from ipv8.messaging.anonymization.hidden_services import HiddenTunnelCommunity
            return HiddenTunnelCommunity
        from ipv8.messaging.anonymization.community import TunnelCommunity
        return TunnelCommunity

    def make_settings(self, i: int):  # noqa: ANN201
        from ipv8.messaging.anonymization.tunnel import (PEER_FLAG_EXIT_BT, PEER_FLAG_EXIT_IPV8, PEER_FLAG_RELAY,
                                                          PEER_FLAG_SPEED_TEST)
        s = self.community_class().settings_class()
        if i in self.flags_over:
            s.peer_flags = set(self.flags_over[i])
        else:
            f = {PEER_FLAG_RELAY, PEER_FLAG_SPEED_TEST}
            if i in self.exits:
                f |= {PEER_FLAG_EXIT_BT, PEER_FLAG_EXIT_IPV8}
            s.peer_flags = f
        for k, v in self.settings_over.items():
            setattr(s, k, v)
        return s

    async def build(self) -> list[SimNode]:
        self.install_probes()
        cls = self.community_class()
        for i in range(self.n):
            node = SimNode(self.world, f"n{i}", f"1.0.0.{i + 1}", ip6=f"fd00::{i + 1}")
            await node.open(self.endpoint_kinds.get(i, "udp"))
            node.ov = node.add(cls, self.make_settings(i))
            node.index = i
            self._hook_raw(node)
            self.nodes.append(node)
        return self.nodes

    def _hook_raw(self, node: SimNode) -> None:
        orig = node.ov.on_raw_data

        def on_raw_data(circuit, origin, data) -> None:  # noqa: ANN001
            self.delivered_raw.append((node.name, circuit.circuit_id, tuple(origin), data))
            return orig(circuit, origin, data)
        node.ov.on_raw_data = on_raw_data

    def add_outside(self, name: str = "w0", ip: str = "9.9.9.9", port: int = 7000, ip6: str | None = None) -> Outside:
        o = Outside(self, name, ip, port, ip6)
        self.outside[name] = o
        return o

    async def introduce(self, rounds: int = 2, wait: float = 0.5) -> None:
        for _ in range(rounds):
            for a in self.nodes:
                for b in self.nodes:
                    if a is not b:
                        a.call(a.ov.walk_to, b.address)
            await asyncio.sleep(wait)

    # ------------------------------------------------------------------ probes
    def install_probes(self) -> None:
        from ipv8.messaging.anonymization.community import TunnelCommunity
        from ipv8.messaging.anonymization.crypto import TunnelCrypto
        tw = self
        if self._orig_gsk is None:
            self._orig_gsk = TunnelCrypto.__dict__["generate_session_keys"]
            orig = TunnelCrypto.generate_session_keys

            def generate_session_keys(shared_secret):  # noqa: ANN001, ANN202
                k = orig(shared_secret)
                tw.session_keys.append((NODE.get(), shared_secret, k))
                return k
            TunnelCrypto.generate_session_keys = staticmethod(generate_session_keys)
        if self._orig_send_cell is None:
            self._orig_send_cell = TunnelCommunity.send_cell
            orig_sc = TunnelCommunity.send_cell

            def send_cell(self, target_addr, payload):  # noqa: ANN001, ANN202
                LABEL[0] = type(payload).__name__
                try:
                    return orig_sc(self, target_addr, payload)
                finally:
                    LABEL[0] = None
            TunnelCommunity.send_cell = send_cell

        from simkit import seams
        seams.ON_RESET.append(self.uninstall_probes)

        def on_send(pkt, fate) -> None:  # noqa: ANN001
            pkt.fate = fate
            self.by_id[pkt.id] = pkt
            if fate == "dup":
                return          # network-made copy: reachable through causality chains, not listed as a send of its own
            self.wire.append(pkt)
        self.net.on_send.append(on_send)

    def uninstall_probes(self) -> None:
        from ipv8.messaging.anonymization.community import TunnelCommunity
        from ipv8.messaging.anonymization.crypto import TunnelCrypto
        if self._orig_gsk is not None:
            TunnelCrypto.generate_session_keys = self._orig_gsk
            self._orig_gsk = None
        if self._orig_send_cell is not None:
            TunnelCommunity.send_cell = self._orig_send_cell
            self._orig_send_cell = None

    # ------------------------------------------------------------------ helpers
    def node_of_key(self, key_bin: bytes) -> SimNode | None:
        for n in self.nodes:
            if n.my_peer.public_key.key_to_bin() == key_bin:
                return n
        return None

    def node_of_ip(self, ip: str) -> SimNode | None:
        for n in self.nodes:
            if n.ip == ip:
                return n
        return None

    async def build_circuit(self, origin: SimNode, hops: int, timeout: float = 15.0, tries: int = 3, **kw: Any):  # noqa: ANN201, ANN401
        """Ask the real community for a circuit and wait (virtual time) until it is READY; None if it never gets there."""
        for _ in range(tries):
            circ = origin.call(origin.ov.create_circuit, hops, **kw)
            if circ is None:
                await asyncio.sleep(1.0)
                continue
            try:
                await asyncio.wait_for(asyncio.shield(circ.ready), timeout)
            except asyncio.TimeoutError:
                pass
            if circ.state == "READY":
                return circ
        return None

    def path_of(self, origin: SimNode, circ) -> list[SimNode]:  # noqa: ANN001
        return [self.node_of_key(h.public_key_bin) for h in circ.hops]

    def chain(self, pkt) -> list:  # noqa: ANN001
        """The causal chain of wire packets that ends in ``pkt`` (each one sent while handling the previous one)."""
        out = [pkt]
        while isinstance(out[0].cause, int) and out[0].cause in self.by_id:
            out.insert(0, self.by_id[out[0].cause])
        return out

    def descendants(self, pkt) -> list:  # noqa: ANN001
        """Wire packets directly caused by ``pkt``."""
        return [p for p in self.wire if p.cause == pkt.id]

    async def teardown(self) -> None:
        for n in self.nodes:
            if n.name not in self.world.loop.dead:
                try:
                    await n.stop()
                except Exception:  # noqa: BLE001
                    self.world.probe("teardown_exception")
        self.uninstall_probes()


def cell_parts(data: bytes):  # noqa: ANN201
    """(circuit_id, plaintext flag, relay_early flag, body) of a cell datagram, or None."""
    import struct
    if len(data) < 29 or data[22] != 0:
        return None
    cid, pt, re_ = struct.unpack_from("!I??", data, 23)
    return cid, pt, re_, data[29:]


__all__ = ["CAUSE", "Outside", "TunnelWorld", "cell_parts"]
