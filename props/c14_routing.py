"""
C14 - the DHT routing table stays a valid Kademlia tree.

Two families of cases (part (a) of the design, a simulated DHT network, is a separate scenario added elsewhere):

``table``  a history of explicit operations on one real ``RoutingTable(my_id)``: add (new node, update of a known id,
           same public key under a new id = a peer that changed its address), mutation of the attributes the code uses
           for status / eviction (failed, rtt, last_response, last_queries), virtual clock advance, remove_bad_nodes,
           closest_nodes, lookups.  Identifiers are adversarial: long common prefixes with our own id (buckets split
           down to depth ~157), ids that differ in the last bits only, clusters off our own path (full buckets that
           must not split), uniformly random ids.  After *every* step the tree is read back (trie walked directly) and
           compared with the statement; closest_nodes is compared with a brute-force sort of everything stored.
``trie``   ``ipv8.dht.trie.Trie`` in lock-step with a dict: every subset of the 15 bit-string keys of length <= 3 is
           inserted and deleted again in seeded orders (complete enumeration), plus seeded random set/del sequences
           over keys of length <= 5; every accessor is compared for every query key of length <= L+1 (subset cases:
           after the last insertion and after every deletion; random cases: after every step).

Every oracle has its own violation key and they are evaluated independently (``first_only=False``): a failing
``generate_id`` does not stop the tree-shape / closest-nodes oracles.
"""
from __future__ import annotations

import hashlib
import itertools
import json
import random

from simkit.scenario import Case

PROPERTY = "C14"
LEVEL = "exploration"
BUDGET = {"quick": 25, "thorough": 420}
CASE_WALL = {"quick": 120, "thorough": 900}
CHUNK = 24
ENUMERATED = {"quick": False, "thorough": False}
SHRINK_FIELDS = ("ops",)
RULE = ("table case = own id + bucket capacity + explicit op list (add with id/key/address/rtt/failed/last_response/"
        "last_query, set attributes of a stored node, clock tick, remove_bad_nodes, closest(target, k-list, exclude), "
        "lookup) drawn from random.Random('c14/<seed>'); ids drawn from {prefix of own id of seeded length + random "
        "tail, cluster sharing 20..156 bits with own id, own id with last 1..6 bits varied, own id itself, clusters off "
        "the own path, uniform, re-add of a known id with a new address, known public key under a new id}, the shared "
        "prefix capped per case at 6/12/24/48/160 bits so that trees of every depth occur; capacity 8 (sometimes 1..5, 16); "
        "quick <= 300 "
        "steps, thorough <= 2000. trie case = one subset of the 15 keys of length <= 3 (all 32768 enumerated) inserted "
        "then deleted in seeded order (compared with the dict after the last insertion and after every deletion), or a "
        "seeded random set/del sequence over keys of length <= 5 (compared after every step). "
        "Non-trivial table history = at least 3 bucket splits; distinct = distinct final tree shape "
        "(sorted (prefix length, last bit, size) of all buckets) ; non-trivial trie case = >= 2 keys; distinct = distinct "
        "op sequence.")
COMPONENTS = {"real": ["ipv8.dht.routing.RoutingTable/Bucket/Node (status, distance)", "ipv8.dht.trie.Trie",
                       "ipv8.peer.Peer equality/hash (as used by closest_nodes)", "OpenSSLSK curve25519 keys from fixed bytes"],
              "stub": ["Node.id is overridden with the chosen 160-bit identifier (as FakeNode in ipv8/test/dht/test_routing.py "
                       "does) instead of crc32c(ip)+sha1(key); Node.status stays the real, time-dependent one",
                       "time.time (virtual clock, advanced by tick ops)", "global random (seeded per case; used by generate_id)",
                       "DHTCommunity / network (part (a) of the design is a separate scenario)"]}
ASSUMPTIONS = ["a node is 'live' iff failed < 2 (the BAD rule of Node.status / BEP-5); cross-checked against Node.status",
               "identifiers are exactly 160 bits",
               "single-threaded use of RoutingTable (its RLock is exercised without contention)",
               "Trie values are truthy objects (RoutingTable stores Bucket objects); a stored value of None/0 is out of scope",
               "Trie.longest_prefix* may or may not report the empty key '' as a match (RoutingTable compensates with "
               "`or trie['']` / default=''): both answers are accepted when '' is the only matching key",
               "closest_nodes is compared after every step, in every closest op and in a final sweep as long as the case's "
               "deterministic cost allowance lasts (one call costs up to 0.8 s on a 158-bucket sparse tree because "
               "Trie.suffixes is quadratic); calls beyond the allowance are skipped and counted (probe closest_skipped_cost); "
               "the tree shape is checked after every step regardless"]
REACH = ["insitu_table_checks", "insitu_split_tables", "insitu_node_back_under_another_ip", "bucket_split", "deep_split_depth_ge_8", "deep_split_depth_ge_64", "full_bucket_not_on_path_rejects",
         "bad_node_removed", "bad_node_evicted_on_add", "rtt_eviction_on_add", "update_same_id",
         "closest_spans_multiple_buckets", "closest_fewer_than_k", "closest_bad_filtered", "closest_exclude_hit",
         "same_key_two_ids_live", "generate_id_sampled_nonroot", "status_changed_by_clock",
         "trie_delete_collapses", "trie_delete_last_key", "trie_delete_missing_keyerror", "trie_overwrite", "same_node_object_added_again"]

# closest_nodes() re-walks, for every level it climbs, the whole subtree below (Trie._find per key, quadratic Trie.suffixes):
# up to 0.8 s for one call on a deep, sparsely filled tree.  The number of calls per case is therefore bounded by a
# deterministic cost estimate (units of that sum), never by wall-clock time.
CLOSEST_UNITS = {"quick": {"auto": 400_000, "op": 500_000, "final": 500_000, "auto_call": 80_000},
                 "thorough": {"auto": 4_000_000, "op": 8_000_000, "final": 8_000_000, "auto_call": 200_000}}
SHRINK_WALL = {"quick": 25, "thorough": 180}
SAME_KEY_SCENARIO = True   # histories in which one public key appears under two identifiers (peer changed its address)
ID_BITS = 160
FULL = (1 << ID_BITS) - 1
RTTS = [0.0, 0.0, 0.01, 0.04, 0.05, 0.1, 0.2, 0.5, 1.0, 3.0]
FAILED = [0, 0, 0, 0, 0, 1, 2, 3]
AGES = [None, None, 0.0, 1.0, 10.0, 600.0, 899.0, 900.0, 901.0, 3600.0]
TICKS = [0.5, 5.0, 60.0, 300.0, 899.0, 900.0, 1000.0, 3600.0]
ALL_K = [20, 1, 8, 2, 3, 4, 5, 6, 7, 9, 10, 11, 12, 13, 14, 15, 16, 17, 18, 19]   # every k in 1..20; extremes first


# --------------------------------------------------------------------------- case generation: routing table
def _hex(x: int) -> str:
    return f"{x:040x}"


def _with_prefix(rng: random.Random, base: int, nbits: int) -> int:
    """An id sharing exactly the first ``nbits`` bits with ``base``: bit ``nbits`` flipped, the rest random."""
    if nbits >= ID_BITS:
        return base
    rest = ID_BITS - nbits
    tail = rng.getrandbits(rest - 1) if rest > 1 else 0
    flipped = ((base >> (rest - 1)) & 1) ^ 1
    return ((base >> rest) << rest) | (flipped << (rest - 1)) | tail


def _cluster(rng: random.Random, base: int, nbits: int) -> int:
    """An id sharing at least the first ``nbits`` bits with ``base``."""
    rest = ID_BITS - nbits
    return ((base >> rest) << rest) | rng.getrandbits(rest) if rest else base


def _table_case(seed: int, tier: str) -> dict:  # noqa: C901, PLR0912, PLR0915
    rng = random.Random(f"c14/{seed}")
    if tier == "thorough":
        n_ops = rng.choice([40, 150, 300, 300, 800, 800, 2000])
    else:
        n_ops = rng.choice([12, 40, 80, 150, 300])
    profile = rng.choice(["deep", "deep", "mixed", "churn", "small_bucket", "lastbits", "offpath"])
    my = rng.choice([rng.getrandbits(ID_BITS), rng.getrandbits(ID_BITS), 0, FULL, int("a5" * 20, 16),
                     rng.getrandbits(8) << 152, rng.getrandbits(ID_BITS) | 1])
    max_size = 8
    if profile == "small_bucket":
        max_size = rng.choice([1, 2, 3, 4])
    elif rng.random() < 0.1:
        max_size = rng.choice([2, 5, 16])
    same_key = SAME_KEY_SCENARIO and rng.random() < 0.2
    weights = {
        #            prefix cluster lastbits self offpath uniform dup samekey
        "deep":        [30, 30, 10, 1, 5, 10, 8, 4],
        "mixed":       [15, 15, 8, 1, 15, 30, 10, 4],
        "churn":       [20, 15, 5, 1, 10, 25, 15, 4],
        "small_bucket": [25, 25, 15, 2, 10, 10, 8, 4],
        "lastbits":    [10, 10, 55, 2, 3, 8, 8, 4],
        "offpath":     [8, 8, 2, 1, 55, 12, 8, 4],
    }[profile]
    if not same_key:
        weights = weights[:-1] + [0]
    op_w = {"deep": [78, 5, 3, 2, 8, 4], "mixed": [60, 10, 6, 4, 12, 8], "churn": [45, 22, 10, 8, 10, 5],
            "small_bucket": [70, 8, 4, 3, 10, 5], "lastbits": [72, 6, 4, 3, 10, 5], "offpath": [70, 8, 4, 3, 10, 5]}[profile]
    cap = rng.choice([6, 12, 24, 48, ID_BITS, ID_BITS, ID_BITS])   # how many leading bits an id may share with our own
    cluster_bits = [min(cap, rng.choice([20, 40, 64, 100, 128, 150, 156])) - rng.randrange(0, 3) for _ in range(3)]
    off_bases = [(_with_prefix(rng, my, rng.choice([0, 1, 2, 5, 17, 60])), rng.choice([8, 24, 80, 150])) for _ in range(3)]
    known: list[int] = []        # ids used so far
    key_of: dict[int, int] = {}  # id -> key index
    next_key = [0]
    ops: list[dict] = []

    def new_key() -> int:
        next_key[0] += 1
        return next_key[0]

    def draw_id() -> tuple[int, int]:
        kind = rng.choices(range(8), weights)[0]
        if kind in (6, 7) and not known:
            kind = 0
        if kind == 0:
            ident = _with_prefix(rng, my, rng.choice([rng.randrange(0, cap), rng.randrange(0, min(cap, 24)), rng.randrange(0, cap)]))
        elif kind == 1:
            ident = _cluster(rng, my, rng.choice(cluster_bits))
        elif kind == 2 and cap == ID_BITS:
            ident = my ^ rng.getrandbits(rng.choice([1, 2, 3, 4, 6]))
        elif kind == 2:
            ident = _cluster(rng, my, cap - rng.choice([1, 2, 3, 4, 6]))
        elif kind == 3:
            ident = my
        elif kind == 4:
            base, nb = rng.choice(off_bases)
            ident = _cluster(rng, base, nb)
        elif kind == 5:
            ident = rng.getrandbits(ID_BITS)
        elif kind == 6:
            ident = rng.choice(known)
        else:
            # a known public key under a fresh identifier: Node ids are crc32c(ip)[:3] + sha1(key)[:17], so a peer that
            # moved to another address keeps the last 17 bytes and gets 3 new leading bytes - or anything (our ids are free)
            other = rng.choice(known)
            ident = (rng.getrandbits(24) << 136) | (other & ((1 << 136) - 1)) if rng.random() < 0.5 \
                else _cluster(rng, other, rng.choice([0, 8, 100, 158]))
            if ident not in key_of:
                key_of[ident] = key_of[other]
        if ident not in key_of:
            key_of[ident] = new_key()
        return ident, key_of[ident]

    def draw_target() -> int:
        kind = rng.randrange(7)
        if kind == 0 or not known:
            return rng.getrandbits(ID_BITS)
        if kind == 1:
            return my
        if kind == 2:
            return _with_prefix(rng, my, rng.randrange(0, ID_BITS))
        if kind == 3:
            return rng.choice(known)
        if kind == 4:
            return rng.choice(known) ^ rng.getrandbits(rng.choice([1, 4, 16, 64]))
        if kind == 5:
            base, nb = rng.choice(off_bases)
            return _cluster(rng, base, nb)
        return my ^ rng.getrandbits(rng.choice([1, 3, 8]))

    def attrs() -> dict:
        return {"rtt": rng.choice(RTTS), "failed": rng.choice(FAILED), "resp": rng.choice(AGES), "q": rng.choice(AGES)}

    for _ in range(n_ops):
        kind = rng.choices(["add", "set", "tick", "rm_bad", "closest", "lookup"], op_w)[0]
        if kind == "add" and known and rng.random() < 0.2:
            # somebody who still holds the Node OBJECT of an id that was added before (a crawl waiting for its answer) adds that
            # very object again - it may have been evicted or swept out, and its old bucket may have been split meanwhile
            ident = rng.choice(known[-60:])
            op = {"op": "add", "id": _hex(ident), "key": 0, "addr": 1, "reuse": True}
            if rng.random() < 0.5:
                op.update(attrs())
        elif kind == "add":
            ident, kidx = draw_id()
            op = {"op": "add", "id": _hex(ident), "key": kidx, "addr": rng.randrange(1, 1 << 16)}
            op.update(attrs())
            known.append(ident)
        elif kind == "set":
            if not known:
                continue
            op = {"op": "set", "id": _hex(rng.choice(known[-40:] if rng.random() < 0.6 else known))}
            what = rng.choice(["failed", "failed", "rtt", "resp", "q", "all"])
            a = attrs()
            if what == "all":
                op.update(a)
            elif what == "failed":
                op["failed"] = rng.choice([0, 1, 2, 2, 3, 5])
            else:
                op[what] = a[what] if a[what] is not None else 0.0
        elif kind == "tick":
            op = {"op": "tick", "dt": rng.choice(TICKS)}
        elif kind == "rm_bad":
            op = {"op": "rm_bad"}
        elif kind == "closest":
            ks = rng.choice(["all", "all", [rng.randrange(1, 21)], [1, 8, 20], [rng.randrange(1, 21), rng.randrange(1, 21)]])
            op = {"op": "closest", "t": _hex(draw_target()), "k": ks,
                  "ex": _hex(rng.choice(known)) if known and rng.random() < 0.35 else None}
        else:
            op = {"op": "lookup", "id": _hex(rng.choice(known) if known and rng.random() < 0.7 else draw_target())}
        ops.append(op)
    return {"scenario": "table", "seed": seed, "tier": tier, "profile": profile, "share_cap": cap, "my_id": _hex(my), "max_size": max_size,
            "ops": ops}


# --------------------------------------------------------------------------- case generation: trie
def _keys_upto(length: int, alphabet: str = "01") -> list[str]:
    out = [""]
    for n in range(1, length + 1):
        out.extend("".join(p) for p in itertools.product(alphabet, repeat=n))
    return out


KEYS3 = _keys_upto(3)          # 15 keys -> 32768 subsets


def _trie_subset_case(mask: int) -> dict:
    rng = random.Random(f"c14/trie/{mask}")
    keys = [k for i, k in enumerate(KEYS3) if mask >> i & 1]
    ins = list(keys)
    rng.shuffle(ins)
    dels = list(keys)
    rng.shuffle(dels)
    ops = [["set", k, i + 1] for i, k in enumerate(ins)] + [["del", k] for k in dels]
    # the state after each insertion is the end-of-insertion state of another enumerated subset: compare once all are in
    return {"scenario": "trie", "seed": mask, "L": 3, "alphabet": "01", "compare": "after_inserts", "ops": ops}


def _trie_random_case(seed: int, tier: str) -> dict:
    rng = random.Random(f"c14/trie-random/{seed}")
    length = rng.choice([2, 3, 4, 5])
    alphabet = rng.choice(["01", "01", "01", "012"])
    if alphabet == "012":
        length = min(length, 3)
    keys = _keys_upto(length, alphabet)
    hot = rng.sample(keys, min(len(keys), rng.choice([3, 6, 12])))
    n = rng.choice([6, 15, 30, 60]) if tier == "quick" else rng.choice([15, 30, 60, 120])
    ops: list = []
    for i in range(n):
        key = rng.choice(hot) if rng.random() < 0.7 else rng.choice(keys)
        r = rng.random()
        if r < 0.5:
            ops.append(["set", key, i + 1])
        elif r < 0.95:
            ops.append(["del", key])
        else:
            ops.append(["set_bad", key + "x" + rng.choice(["", "0"]), i + 1])
    return {"scenario": "trie", "seed": seed, "L": length, "alphabet": alphabet, "ops": ops}


def cases(tier: str, base_seed: int):  # noqa: ANN201
    masks = iter(range(1 << len(KEYS3)))
    per_round = 32 if tier == "quick" else 16   # the 32768 subsets are used up within the tier's budget
    from .c14_insitu import insitu_case
    for i in itertools.count():
        if i % 12 == 0:
            yield insitu_case(base_seed + i, tier)     # the table inside a simulated DHT network (see c14_insitu.py)
        yield _table_case(base_seed + i, tier)
        for m in itertools.islice(masks, per_round):
            yield _trie_subset_case(m)
        if i % 2 == 0:
            yield _trie_random_case(base_seed + i, tier)


def simplify(case: dict):  # noqa: ANN201
    """Called by the shrinker after ddmin: neutral node attributes, no scheduling knobs."""
    if case.get("scenario") != "table":
        return
    neutral = {"rtt": 0.0, "failed": 0, "resp": None, "q": None}
    cand = dict(case)
    cand["ops"] = [{**op, **neutral} if op["op"] == "add" else op for op in case["ops"]]
    if cand["ops"] != case["ops"]:
        yield cand


# --------------------------------------------------------------------------- helpers shared by execute
_KEYS: dict[int, object] = {}   # key index -> private key object (a pure function of the index; keys are immutable)


def _key(idx: int):  # noqa: ANN202
    k = _KEYS.get(idx)
    if k is None:
        from ipv8.keyvault.private.openssl import OpenSSLSK
        k = _KEYS[idx] = OpenSSLSK(b"LibNaCLSK:" + hashlib.sha512(f"c14-key-{idx}".encode()).digest())
    return k


def _bits(ident: bytes) -> str:
    """The statement's view of an identifier: 160 bits, most significant first."""
    return format(int.from_bytes(ident, "big"), "0160b")


def execute(case: dict) -> dict:
    if case.get("scenario") == "insitu":
        from .c14_insitu import execute_insitu
        return execute_insitu(case)
    if case.get("scenario") == "trie":
        return _execute_trie(case)
    return _execute_table(case)


# --------------------------------------------------------------------------- execution: routing table
def _execute_table(case: dict) -> dict:  # noqa: C901, PLR0912, PLR0915
    from ipv8.dht.routing import NODE_STATUS_BAD, Node, RoutingTable
    from ipv8.messaging.interfaces.udp.endpoint import UDPv4Address

    c = Case(case, first_only=False)
    loop = c.loop
    ev = c.world.trace.event

    class FNode(Node):
        """A real Node whose identifier is chosen by the case (cf. FakeNode in ipv8/test/dht/test_routing.py)."""

        def __init__(self, kidx: int, addr: int, ident: bytes) -> None:
            super().__init__(_key(kidx), UDPv4Address(f"10.{addr >> 8 & 255}.{addr & 255}.7", 1024 + addr % 60000))
            self._fixed_id = ident
            self.kidx = kidx

        @property
        def id(self) -> bytes:
            return self._fixed_id

    my_id = bytes.fromhex(case["my_id"])
    my_bits = _bits(my_id)
    rt = RoutingTable(my_id)
    max_size = int(case.get("max_size", 8))
    rt.trie[""].max_size = max_size
    bits_cache: dict[bytes, str] = {}
    seen_prefixes: set[str] = set()
    st = {"splits": 0, "maxdepth": 0, "nbuckets": 1, "step": -1}
    allow = dict(CLOSEST_UNITS["thorough" if case.get("tier") == "thorough" else "quick"])

    def bits(ident: bytes) -> str:
        b = bits_cache.get(ident)
        if b is None:
            b = bits_cache[ident] = _bits(ident)
        return b

    def now() -> float:
        import time
        return time.time()

    def live(n) -> bool:  # noqa: ANN001
        return n.failed < 2

    def walk() -> list:
        """(key, bucket) for every value stored in the trie, read from the trie's node structure."""
        out = []
        stack = [("", rt.trie.root)]
        while stack:
            key, node = stack.pop()
            if node.value is not None:
                out.append((key, node.value))
            for ch, child in node.children.items():
                stack.append((key + ch, child))
        out.sort(key=lambda kv: kv[0])
        return out

    def guarded(what: str, fn, *a, **kw):  # noqa: ANN001, ANN002, ANN003, ANN202
        """Run code under test; an escaping exception is a violation of 'the operation returns', not a harness error."""
        try:
            return True, fn(*a, **kw)
        except Exception as e:  # noqa: BLE001
            c.violate("returns_normally", f"{what}_raised_{type(e).__name__}", f"step {st['step']}: {what} raised {e!r}")
            ev("raised", None, what, type(e).__name__)
            return False, None

    # ------------------------------------------------------------------ oracle: tree shape
    def check_tree(tag: str) -> list:
        items = walk()
        keys = [k for k, _ in items]
        where = f"step {st['step']} ({tag})"
        # prefix-free + complete, exact integer arithmetic: sum 2^(160-len) == 2^160
        total = 0
        for i, k in enumerate(keys):
            if len(k) > ID_BITS:
                c.violate("partition", "bucket_prefix_longer_than_id", f"{where}: prefix of length {len(k)}")
                continue
            total += 1 << (ID_BITS - len(k))
            if i + 1 < len(keys) and keys[i + 1].startswith(k):
                c.violate("partition", "buckets_not_prefix_free", f"{where}: bucket {k!r} is a prefix of bucket {keys[i + 1]!r}")
        if total != 1 << ID_BITS:
            c.violate("partition", "buckets_do_not_cover_space",
                      f"{where}: sum 2^-len over {len(keys)} buckets = {total}/2^160 (keys {keys[:12]})")
        n_nodes = 0
        for k, b in items:
            if b.prefix_id != k:
                c.violate("partition", "bucket_key_prefix_mismatch", f"{where}: trie key {k!r} holds bucket with prefix_id {b.prefix_id!r}")
            if len(b.nodes) > b.max_size:
                c.violate("capacity", "bucket_over_capacity", f"{where}: bucket {k!r} holds {len(b.nodes)} nodes, max_size {b.max_size}")
            if k and not my_bits.startswith(k[:-1]):
                c.violate("split_on_own_path", "split_off_own_path",
                          f"{where}: bucket {k!r} exists, so {k[:-1]!r} was split, but own id starts with {my_bits[:len(k)]!r}")
            for dict_key, n in b.nodes.items():
                n_nodes += 1
                if dict_key != n.id:
                    c.violate("ownership", "bucket_dict_key_mismatch", f"{where}: bucket {k!r} files node {n.id.hex()} under {dict_key.hex()}")
                if not bits(n.id).startswith(k):
                    c.violate("ownership", "node_in_foreign_bucket", f"{where}: node {n.id.hex()} ({bits(n.id)[:len(k) + 2]}..) sits in bucket {k!r}")
        # splits / depth bookkeeping (probes + non-triviality)
        if len(keys) > st["nbuckets"]:
            grown = len(keys) - st["nbuckets"]
            st["splits"] += grown
            c.probe("bucket_split", grown)
        st["nbuckets"] = len(keys)
        depth = max((len(k) for k in keys), default=0)
        if depth > st["maxdepth"]:
            if st["maxdepth"] < 8 <= depth:
                c.probe("deep_split_depth_ge_8")
            if st["maxdepth"] < 64 <= depth:
                c.probe("deep_split_depth_ge_64")
            if st["maxdepth"] < 150 <= depth:
                c.probe("deep_split_depth_ge_150")
            st["maxdepth"] = depth
        # separate oracle: refresh ids; sampled for every bucket prefix the first time it exists
        for k, b in items:
            if k not in seen_prefixes:
                seen_prefixes.add(k)
                check_generate_id(k, b, 4)
        st["n_nodes"] = n_nodes
        return items

    # ------------------------------------------------------------------ oracle: refresh identifiers
    def check_generate_id(k: str, b, samples: int) -> None:  # noqa: ANN001
        if k:
            c.probe("generate_id_sampled_nonroot")
        for _ in range(samples):
            ok, gid = guarded("generate_id", b.generate_id)
            if not ok:
                return
            if not isinstance(gid, bytes) or len(gid) != ID_BITS // 8:
                c.violate("refresh_id", "generate_id_not_160_bits", f"step {st['step']}: bucket {k!r}.generate_id() = {gid!r}")
                continue
            if not _bits(gid).startswith(k):
                c.violate("refresh_id", "generate_id_outside_bucket",
                          f"step {st['step']}: bucket prefix {k!r} (len {len(k)}) generate_id() = {gid.hex()} "
                          f"whose first bits are {_bits(gid)[:len(k)]!r}")
                ev("genid_outside", None, len(k))
                return

    # ------------------------------------------------------------------ oracle: closest nodes
    def stored(items: list) -> list:
        return [n for _, b in items for n in b.nodes.values()]

    key_int: dict[str, int] = {}

    def cost_table(items: list, t_int: int, ex_id: bytes | None) -> tuple:
        """
        Per level i of the walk of closest_nodes (subtree of the first i target bits): number of buckets, summed key
        length and number of eligible nodes that join the walk at that level.  Only used to *estimate the cost* of a call.
        """
        per_level: dict[int, list] = {}
        deepest = 0
        for k, b in items:
            ki = key_int.get(k)
            if ki is None:
                ki = key_int[k] = int(k, 2) << (ID_BITS - len(k)) if k else 0
            lcp = min(len(k), ID_BITS - (ki ^ t_int).bit_length())
            if lcp == len(k):
                deepest = max(deepest, lcp)
            lv = per_level.get(lcp)
            if lv is None:
                lv = per_level[lcp] = [0, 0, 0]
            lv[0] += 1
            lv[1] += len(k) + 1
            lv[2] += sum(1 for n in b.nodes.values() if n.failed < 2 and n.id != ex_id)
        return deepest, per_level

    def estimate(table: tuple, k: int) -> int:
        """~ 0.15 us per unit: every level re-walks its subtree (Trie._find is linear in the key length, suffixes quadratic)."""
        deepest, per_level = table
        s = sl = n = units = 0
        for i in range(min(ID_BITS, max(per_level, default=0)), -1, -1):
            lv = per_level.get(i)
            if lv is not None:
                s += lv[0]
                sl += lv[1]
                n += lv[2]
            if i > deepest:
                continue
            units += 5 * sl + s * s // 4 + 50
            if n > k:
                break
        return units

    def check_closest(items: list, target: bytes, ks: list, ex_id: bytes | None, tag: str, pool: str) -> None:
        nodes = stored(items)
        t_int = int.from_bytes(target, "big")
        table = cost_table(items, t_int, ex_id)
        ex = None
        if ex_id is not None:
            ex = next((n for n in nodes if n.id == ex_id), None) or FNode(1_000_000, 1, ex_id)
        for n in nodes:
            if (n.status == NODE_STATUS_BAD) != (not live(n)):
                c.violate("status", "status_bad_disagrees_with_failed_count", f"node failed={n.failed} status={n.status}")
        ranked = sorted(nodes, key=lambda n: int.from_bytes(n.id, "big") ^ t_int)
        cand = [n for n in ranked if live(n) and (ex_id is None or n.id != ex_id)]
        by_key: dict[int, int] = {}
        for n in cand:
            by_key[n.kidx] = by_key.get(n.kidx, 0) + 1
        if any(v > 1 for v in by_key.values()):
            c.probe("same_key_two_ids_live")
        owner = {id(n): k for k, b in items for n in b.nodes.values()}
        for k in ks:
            units = estimate(table, k)
            if units > allow[pool] or (pool == "auto" and units > allow["auto_call"]):
                c.probe("closest_skipped_cost")
                continue
            allow[pool] -= units
            c.probe("closest_compared")
            ok, got = guarded("closest_nodes", rt.closest_nodes, target, max_nodes=k, exclude_node=ex)
            if not ok:
                return
            exp = cand[:k]
            if len(exp) < k:
                c.probe("closest_fewer_than_k")
            if len({owner[id(n)] for n in exp}) > 1:
                c.probe("closest_spans_multiple_buckets")
            if any(not live(n) for n in ranked[:k]):
                c.probe("closest_bad_filtered")
            if ex_id is not None and any(n.id == ex_id for n in ranked[:k + 1]):
                c.probe("closest_exclude_hit")
            if len(got) == len(exp) and all(a is b for a, b in zip(got, exp)):
                continue
            where = f"step {st['step']} ({tag}): closest_nodes({target.hex()}, max_nodes={k}, exclude={ex_id.hex() if ex_id else None})"
            got_ids = [n.id for n in got]
            exp_ids = [n.id for n in exp]
            width = 40 if max(len(got_ids), len(exp_ids)) <= 3 else 10
            desc = (f"{where} over {len(nodes)} stored / {len(cand)} eligible nodes returned {len(got)}: "
                    f"{[i.hex()[:width] for i in got_ids][:8]} expected {len(exp)}: {[i.hex()[:width] for i in exp_ids][:8]}")
            if any(not live(n) for n in got):
                c.violate("closest", "closest_nodes_returns_bad_node", desc)
            elif ex_id is not None and ex_id in got_ids:
                c.violate("closest", "closest_nodes_returns_excluded_node", desc)
            elif len(got) > k:
                c.violate("closest", "closest_nodes_returns_more_than_k", desc)
            elif sorted(got_ids) == sorted(exp_ids):
                if got_ids == exp_ids:
                    c.violate("closest", "closest_nodes_returns_stale_node_object", desc)
                else:
                    c.violate("closest", "closest_nodes_not_nearest_first", desc)
            else:
                missing = [n for n in exp if n.id not in got_ids]
                if missing and all(by_key.get(n.kidx, 0) > 1 for n in missing):
                    c.violate("closest", "closest_nodes_merges_entries_with_same_public_key",
                              desc + f"; every missing entry shares its public key with another live entry "
                                     f"(missing {[n.id.hex()[:10] for n in missing]}, key indexes {[n.kidx for n in missing]})")
                else:
                    c.violate("closest", "closest_nodes_not_the_k_nearest", desc)
            ev("closest_mismatch", None, k)

    # ------------------------------------------------------------------ oracle: lookups follow ownership
    def check_lookup(items: list, ident: bytes) -> None:
        exp = next((n for _, b in items for n in b.nodes.values() if n.id == ident), None)
        ok, got = guarded("get", rt.get, ident)
        ok2, has = guarded("has", rt.has, ident)
        ok3, bucket = guarded("get_bucket", rt.get_bucket, ident)
        if ok and got is not exp:
            c.violate("lookup", "lookup_misses_stored_node" if exp is not None else "lookup_finds_absent_node",
                      f"step {st['step']}: get({ident.hex()}) = {got!r}, stored: {exp is not None}")
        if ok2 and has != (exp is not None):
            c.violate("lookup", "has_disagrees_with_contents", f"step {st['step']}: has({ident.hex()}) = {has}, stored: {exp is not None}")
        if ok3:
            owners = [b for k, b in items if bits(ident).startswith(k)]
            if len(owners) == 1 and bucket is not owners[0]:
                c.violate("lookup", "get_bucket_returns_non_owner",
                          f"step {st['step']}: get_bucket({ident.hex()}) = {bucket.prefix_id!r}, owner is {owners[0].prefix_id!r}")

    def set_attrs(n, op: dict) -> None:  # noqa: ANN001
        t = now()
        if "rtt" in op:
            n.rtt = op["rtt"]
        if "failed" in op:
            n.failed = op["failed"]
        if op.get("resp") is not None:
            n.last_response = t - op["resp"]
        if op.get("q") is not None:
            n.last_queries.append(t - op["q"])

    # ------------------------------------------------------------------ the history
    items = check_tree("initial")
    n_ops = len(case["ops"])
    objs: dict = {}
    for i, op in enumerate(case["ops"]):
        st["step"] = i
        kind = op["op"]
        outcome = None
        if kind == "add":
            ident = bytes.fromhex(op["id"])
            node = objs.get(ident) if op.get("reuse") else None
            if node is None:
                node = FNode(op["key"], op["addr"], ident)
            else:
                c.probe("same_node_object_added_again")
            objs[ident] = node
            set_attrs(node, op)
            before = {id(n): (n, k, len(b.nodes)) for k, b in items for n in b.nodes.values()}
            owner_before = next(((k, b) for k, b in items if bits(ident).startswith(k)), None)
            was_full = owner_before is not None and len(owner_before[1].nodes) >= owner_before[1].max_size
            had = owner_before is not None and ident in owner_before[1].nodes
            had_bad = owner_before is not None and any(not live(n) for n in owner_before[1].nodes.values())
            ok, ret = guarded("add", rt.add, node)
            items = check_tree("add")
            after = {id(n) for n in stored(items)}
            lost = [v for key, v in before.items() if key not in after]
            for n, k, size in lost:
                if live(n) and (owner_before is None or k != owner_before[0] or not was_full):
                    c.violate("no_collateral_loss", "add_dropped_unrelated_node",
                              f"step {i}: add({ident.hex()}) made node {n.id.hex()} vanish from bucket {k!r} "
                              f"({size} nodes; bucket owning the new id: {owner_before[0] if owner_before else None!r}, full={was_full})")
                elif not live(n):
                    c.probe("bad_node_evicted_on_add")
                else:
                    c.probe("rtt_eviction_on_add")
            if had:
                c.probe("update_same_id")
            if ok and ret is None and was_full and not had and not my_bits.startswith(owner_before[0]):
                c.probe("full_bucket_not_on_path_rejects")
            if ok and ret is None and was_full and not had and not had_bad and my_bits.startswith(owner_before[0]):
                c.probe("add_rejected_on_own_path")
            outcome = ("ok" if ret is not None else "none") if ok else "raised"
            check_lookup(items, ident)
        elif kind == "set":
            ident = bytes.fromhex(op["id"])
            n = next((n for n in stored(items) if n.id == ident), None)
            if n is not None:
                set_attrs(n, op)
                outcome = "set"
            else:
                outcome = "miss"
        elif kind == "tick":
            nodes = stored(items)
            before_status = [n.status for n in nodes]
            loop._vt += op["dt"]  # noqa: SLF001
            if before_status != [n.status for n in nodes]:
                c.probe("status_changed_by_clock")
            outcome = "tick"
        elif kind == "rm_bad":
            nodes = stored(items)
            bad = [n for n in nodes if not live(n)]
            ok, removed = guarded("remove_bad_nodes", rt.remove_bad_nodes)
            items = check_tree("remove_bad_nodes")
            left = stored(items)
            left_ids = {id(n) for n in left}
            if any(not live(n) for n in left):
                c.violate("bad_removal", "remove_bad_nodes_left_bad_node", f"step {i}: {sum(1 for n in left if not live(n))} BAD nodes remain")
            gone_live = [n for n in nodes if live(n) and id(n) not in left_ids]
            if gone_live:
                c.violate("bad_removal", "remove_bad_nodes_removed_live_node", f"step {i}: removed live node {gone_live[0].id.hex()}")
            if bad and not any(not live(n) for n in left):
                c.probe("bad_node_removed", len(bad))
            outcome = f"removed{len(removed) if ok else '!'}"
        elif kind == "closest":
            ks = ALL_K if op["k"] == "all" else [int(k) for k in op["k"]]
            check_closest(items, bytes.fromhex(op["t"]), ks, bytes.fromhex(op["ex"]) if op.get("ex") else None, "closest op", "op")
            outcome = "closest"
        elif kind == "lookup":
            check_lookup(items, bytes.fromhex(op["id"]))
            outcome = "lookup"
        ev(kind, None, outcome, (st["nbuckets"], st.get("n_nodes")))
        # closest-nodes cross-check after the step (see ASSUMPTIONS for the cost allowance)
        if kind != "closest":
            trng = random.Random(f"{case.get('seed')}|{json.dumps(op, sort_keys=True)}")
            pick = trng.randrange(4)
            if pick == 0 and "id" in op:
                tgt = bytes.fromhex(op["id"])
            elif pick == 1:
                tgt = (int.from_bytes(my_id, "big") ^ trng.getrandbits(trng.choice([1, 8, 40, 160]))).to_bytes(20, "big")
            else:
                tgt = trng.getrandbits(ID_BITS).to_bytes(20, "big")
            check_closest(items, tgt, [trng.randrange(1, 21)], None, "after " + kind, "auto")

    # ------------------------------------------------------------------ final sweep
    st["step"] = n_ops
    items = check_tree("final")
    frng = c.world.stream("final-targets")
    nodes = stored(items)
    targets = [my_id, frng.getrandbits(ID_BITS).to_bytes(20, "big")]
    if nodes:
        targets.append(frng.choice(nodes).id)
        targets.append((int.from_bytes(frng.choice(nodes).id, "big") ^ frng.getrandbits(12)).to_bytes(20, "big"))
    extra = 2 if case.get("tier") != "thorough" or len(items) > 60 else 10
    for _ in range(extra):
        targets.append(int(_with_prefix(frng, int.from_bytes(my_id, "big"), frng.randrange(0, ID_BITS))).to_bytes(20, "big"))
    allow["final"] += allow["op"]      # what the closest ops did not use
    for t in targets:
        check_closest(items, t, ALL_K, None, "final sweep", "final")
    for k, b in items:
        check_generate_id(k, b, 2)

    shape = sorted((len(k), k[-1:] or "-", len(b.nodes)) for k, b in items)
    if st["splits"] >= 3:
        c.nontrivial("table/" + hashlib.sha1(repr((shape, max_size)).encode()).hexdigest()[:16])  # noqa: S324
    ev("final", None, repr(shape))
    c.sample = {"scenario": "table", "profile": case.get("profile"), "my_id": case["my_id"], "max_size": max_size,
                "n_ops": n_ops, "ops_head": case["ops"][:6], "splits": st["splits"], "max_depth": st["maxdepth"],
                "buckets": len(items), "nodes": len(nodes), "bucket_depths_and_sizes": [(a, s) for a, _, s in shape][:24]}
    return c.result()


# --------------------------------------------------------------------------- execution: trie against a dict
def _execute_trie(case: dict) -> dict:  # noqa: C901, PLR0912, PLR0915
    from ipv8.dht import DHTError
    from ipv8.dht.trie import Trie

    c = Case(case, first_only=False)
    ev = c.world.trace.event
    alphabet = case.get("alphabet", "01")
    trie = Trie(alphabet)
    model: dict[str, int] = {}
    queries = _keys_upto(int(case["L"]) + 1, alphabet)
    sentinel = ("<default>", -1)
    st = {"step": -1}

    def count_nodes() -> int:
        n, stack = 0, [trie.root]
        while stack:
            node = stack.pop()
            n += 1
            stack.extend(node.children.values())
        return n

    def m_longest(q: str):  # noqa: ANN202
        """Longest key of the model that is a prefix of q -> (key, value); also whether only '' matches."""
        for n in range(len(q), -1, -1):
            if q[:n] in model:
                return q[:n], model[q[:n]]
        return None

    def compare(tag: str) -> None:  # noqa: C901, PLR0912
        where = f"step {st['step']} ({tag}) keys={sorted(model)}"
        try:
            vals = trie.values()
            it = list(trie.itervalues())
        except Exception as e:  # noqa: BLE001
            c.violate("trie_model", f"trie_values_raised_{type(e).__name__}", f"{where}: {e!r}")
            vals = it = None
        if vals is not None and (sorted(vals) != sorted(model.values()) or sorted(it) != sorted(model.values())):
            c.violate("trie_model", "trie_values_mismatch", f"{where}: values()={vals} itervalues()={it} model={sorted(model.values())}")
        for q in queries:
            # __getitem__
            try:
                got = trie[q]
            except KeyError:
                got = KeyError
            except Exception as e:  # noqa: BLE001
                c.violate("trie_model", f"trie_getitem_raised_{type(e).__name__}", f"{where}: trie[{q!r}] raised {e!r}")
                got = None
            if got is not None and got != model.get(q, KeyError):
                c.violate("trie_model", "trie_getitem_mismatch", f"{where}: trie[{q!r}] = {got} model {model.get(q, KeyError)}")
            # longest_prefix_item / longest_prefix / longest_prefix_value, with and without default
            exp = m_longest(q)
            accept = [exp] if exp is not None else [None]
            if exp is not None and exp[0] == "":
                accept.append(None)     # see ASSUMPTIONS: the empty key may be ignored by longest_prefix*
            for use_default in (False, True):
                try:
                    if use_default:
                        item = trie.longest_prefix_item(q, default=sentinel)
                        pref = trie.longest_prefix(q, default=sentinel[0])
                        val = trie.longest_prefix_value(q, default=sentinel[1])
                    else:
                        item = trie.longest_prefix_item(q)
                        pref = trie.longest_prefix(q)
                        val = trie.longest_prefix_value(q)
                    res = (item, pref, val)
                except KeyError:
                    res = None
                except Exception as e:  # noqa: BLE001
                    c.violate("trie_model", f"trie_longest_prefix_raised_{type(e).__name__}", f"{where}: q={q!r}: {e!r}")
                    continue
                good = False
                for a in accept:
                    if a is None:
                        want = (sentinel, sentinel[0], sentinel[1]) if use_default else None
                    else:
                        want = (a, a[0], a[1])
                    good = good or res == want
                if not good:
                    c.violate("trie_model", "trie_longest_prefix_mismatch",
                              f"{where}: longest_prefix_item/longest_prefix/longest_prefix_value({q!r}"
                              f"{', default' if use_default else ''}) = {res}, model {exp}")
            # suffixes
            try:
                suf = trie.suffixes(q)
            except Exception as e:  # noqa: BLE001
                c.violate("trie_model", f"trie_suffixes_raised_{type(e).__name__}", f"{where}: suffixes({q!r}) raised {e!r}")
                continue
            exp_suf = sorted(k[len(q):] for k in model if k.startswith(q))
            if sorted(suf) != exp_suf:
                c.violate("trie_model", "trie_suffixes_mismatch", f"{where}: suffixes({q!r}) = {suf}, model {exp_suf}")

    thin = case.get("compare") == "after_inserts"
    compare("empty")
    log = []
    for i, op in enumerate(case["ops"]):
        st["step"] = i
        kind, key = op[0], op[1]
        if kind == "set":
            if key in model:
                c.probe("trie_overwrite")
            try:
                trie[key] = op[2]
                model[key] = op[2]
                log.append("s")
            except Exception as e:  # noqa: BLE001
                c.violate("trie_model", f"trie_setitem_raised_{type(e).__name__}", f"step {i}: trie[{key!r}] = {op[2]} raised {e!r}")
                log.append("s!")
        elif kind == "set_bad":
            try:
                trie[key] = op[2]
                c.violate("trie_model", "trie_accepts_key_outside_alphabet", f"step {i}: trie[{key!r}] accepted (alphabet {alphabet!r})")
            except DHTError:
                c.probe("trie_bad_key_refused")
            except Exception:  # noqa: BLE001, S110
                pass           # refused with another exception type: still a refusal
            log.append("b")
        elif kind == "del":
            n_before = count_nodes()
            present = key in model
            last = present and len(model) == 1
            if last:
                c.probe("trie_delete_last_key")
            try:
                del trie[key]
                raised = None
            except KeyError as e:
                raised = e
            except Exception as e:  # noqa: BLE001
                raised = e
                c.violate("trie_model", f"trie_delitem_raised_{type(e).__name__}", f"step {i}: del trie[{key!r}] raised {e!r}")
            if present:
                del model[key]
                if isinstance(raised, KeyError):
                    c.violate("trie_model", "trie_delete_last_key_raises_keyerror" if last else "trie_delete_present_key_raises_keyerror",
                              f"step {i}: del trie[{key!r}] raised KeyError although the key was present "
                              f"(keys before: {sorted([*model, key])})")
                if n_before - count_nodes() >= 2:
                    c.probe("trie_delete_collapses")
            elif raised is None:
                c.violate("trie_model", "trie_delete_missing_key_no_keyerror", f"step {i}: del trie[{key!r}] did not raise, key absent")
            else:
                c.probe("trie_delete_missing_keyerror")
            log.append("d" if raised is None else "d!")
        nxt = case["ops"][i + 1][0] if i + 1 < len(case["ops"]) else None
        if not (thin and kind == "set" and nxt == "set"):
            compare(f"{kind} {key!r}")
        ev(kind, None, key, log[-1])
    if len({op[1] for op in case["ops"] if op[0] == "set"}) >= 2:
        c.nontrivial("trie/" + hashlib.sha1(json.dumps([case.get("alphabet"), case["ops"]]).encode()).hexdigest()[:16])  # noqa: S324
    c.sample = {"scenario": "trie", "L": case["L"], "alphabet": alphabet, "ops": case["ops"][:16], "outcomes": "".join(log)[:40]}
    return c.result()
