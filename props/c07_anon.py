"""
C07 - anonymized overlays never send from the node's own address.

Two scenario families on the real TunnelEndpoint:

* "api"  - the real TunnelEndpoint between a recording raw endpoint and a tunnel-community stand-in that owns real
           ``Circuit`` objects and answers ``find_circuits`` with the real ``TunnelCommunity.find_circuits``.  Every
           sequence of abstract operations up to the tier's depth is enumerated (no network waits).
* "net"  - a real node (TunnelEndpoint over the real UDPEndpoint, real TunnelCommunity, one anonymized and one plain
           real Community) among real relays and IPv8-capable exits on SimNet; seeded operation sequences including
           crashes of hops and queue overflows; the oracle watches the simulated wire.
"""
from __future__ import annotations

import asyncio
import itertools
import random
from binascii import unhexlify

from simkit.scenario import Case

PROPERTY = "C07"
LEVEL = "exploration"
BUDGET = {"quick": 30, "thorough": 600}
CHUNK = 1
CASE_WALL = {"quick": 120, "thorough": 600}
ENUMERATED = {"quick": False, "thorough": False}
SHRINK_FIELDS = ("ops",)
RULE = ("'api' cases: one case = all sequences of length <= depth that start with a given 2-op prefix over the alphabet {A anon "
        "send, P plain send, R matching circuit becomes ready, W non-matching circuit ready (wrong hop count or exit without "
        "IPv8 flag), C circuit closing, X circuit removed, D tunnel community detached, T attached, N anonymity off, Y on, Q "
        "burst of 101 anon sends, F/G a second overlay prefix of the SAME endpoint has anonymity switched off/on (possibly redundantly) and sends, O a second TunnelEndpoint of the process toggles the same prefix and sends}; depth 5 in quick, 6 in thorough (complete, 3 M sequences), lengths 7..10 sampled. 'net' cases: seeded sequences of <= 30 operations "
        "on a real node with real circuits incl. hop crashes. Non-trivial = a sequence with an anonymized send while no usable "
        "circuit exists, or after a circuit closed, or with a non-empty queue; distinct by operation string.")
COMPONENTS = {"real": ["TunnelEndpoint (send, set_anonymity, set_tunnel_community, send_queue, notify_listeners)",
                       "TunnelCommunity.find_circuits and Circuit state machine (api); full TunnelCommunity, Community(anonymize=True), "
                       "PythonCryptoEndpoint, exit sockets (net)"],
              "stub": ["api: raw endpoint recorder, tunnel community stand-in (create_circuit/send_data recorded)",
                       "net: UDP/IP (SimNet), wall clock"]}
ASSUMPTIONS = ["while anonymity is switched off for a prefix its packets may use the raw socket (that is what the switch means)"]
REACH = ["anon_send_no_circuit_queued", "anon_send_over_ready_circuit", "queue_overflow", "detached_drop", "plain_raw_ok",
         "circuit_closing_with_queue", "net_anon_delivered_via_exit", "net_hop_crashed", "wrong_circuit_not_used",
         "second_endpoint_same_prefix", "second_prefix_same_endpoint", "net_blind_exit_circuit_ready", "service_with_statistics", "service_without_statistics", "anonymized_overlay_restarted", "circuits_removed_right_after_send_with_backlog", "queue_overflow_many_destinations", "net_anon_reply_received_through_tunnel"]

ALPHA = "AFGPRWCXDTNYQO"
ANON_PREFIX = b"\x00\x02" + b"\xa1" * 20
PLAIN_PREFIX = b"\x00\x02" + b"\xb2" * 20
SECOND_PREFIX = b"\x00\x02" + b"\xc3" * 20     # another overlay on the same TunnelEndpoint with its own anonymity switch
EXIT_IPV8 = 4


def cases(tier: str, base_seed: int):  # noqa: ANN201
    # quick: all sequences up to length 5 over 10 symbols; thorough: all up to length 6 over 12 symbols (3 M sequences), longer ones
    # (7..10) sampled - length 7 complete would be 36 M sequences, about an hour on this machine
    depth = 5 if tier == "quick" else 6
    alpha = ALPHA if tier == "thorough" else "AFGPRWCXDNQO"
    n = 0
    net_i = 0
    yield {"scenario": "net", "seed": base_seed + 8000, "knobs": {"lat_jit": 0.0, "loss": 0.0, "timer_jitter": 0.0}, "expect_reply": True,
           "ops": ["build", "wait", "wait", "wait", "anon", "wait", "anon", "wait", "anon", "wait"]}
    # a packet held back for a 1-hop circuit, then the configured length changes while that circuit is still being built
    yield {"scenario": "net", "seed": base_seed + 5015, "knobs": {"lat_jit": 0.05, "loss": 0.0, "timer_jitter": 0.001}, "ops": ["anon", "hops2"]}
    yield {"scenario": "net", "seed": base_seed + 8001, "knobs": {"lat_jit": 0.0, "loss": 0.0, "timer_jitter": 0.0},
           "ops": ["anon", "hops2", "wait", "anon", "wait", "wait"]}
    for stats in (True, False):
        for cls in (("DHTDiscoveryCommunity",) if tier == "quick" else ("DHTDiscoveryCommunity", "DiscoveryCommunity")):
            yield {"scenario": "service", "seed": base_seed + 7000 + int(stats), "knobs": {}, "stats": stats, "anon_overlay": cls}
    plen = 2 if tier == "quick" else 3
    prefixes = ["".join(p) for p in itertools.product(alpha, repeat=plen)]
    if plen > 2:
        yield {"scenario": "api", "seed": base_seed, "knobs": {}, "prefix": "", "depth": plen - 1, "alpha": alpha}
    for pre in prefixes:
        n += 1
        # a burst (Q) costs 101 sends: split those subtrees one level further so that no single case runs for half a minute
        subs = [(pre, len(pre))] + [(pre + x, depth) for x in alpha] if "Q" in pre else [(pre, depth)]
        for sub, dep in subs:
            yield {"scenario": "api", "seed": base_seed + n, "knobs": {}, "prefix": sub, "depth": dep, "alpha": alpha}
            yield {"scenario": "api", "seed": base_seed + n, "knobs": {}, "prefix": sub, "depth": dep, "alpha": alpha, "hops": 2}
        if n % 4 == 0:
            net_i += 1
            yield _net_case(base_seed + 5000 + net_i)
    for i in itertools.count():
        yield _net_case(base_seed + 9000 + i)
        if i % 3 == 0:
            yield {"scenario": "api", "seed": base_seed + 50000 + i, "knobs": {}, "prefix": "", "depth": 0, "alpha": ALPHA,
                   "random": {"n": 1500, "min": depth + 1, "max": 10}, "hops": 1 + (i // 3) % 2}


def _net_case(seed: int) -> dict:
    rng = random.Random(f"c07/{seed}")
    ops = []
    for _ in range(rng.choice([6, 12, 30])):
        ops.append(rng.choices(["anon", "plain", "build", "wait", "remove", "crash_hop", "detach", "attach", "anon_off", "anon_on",
                                "burst", "hops2", "hops1", "build_blind", "other_off", "other_send", "reload", "anon_then_remove", "burst_many"],
                               [30, 12, 8, 14, 8, 4, 4, 5, 3, 4, 3, 2, 3, 5, 3, 5, 4, 4, 3])[0])
    if rng.random() < 0.2:
        # a backlog held back while there is no circuit, then a circuit, then a send directly followed by giving the circuit up
        ops = [rng.choice(["burst", "burst_many"]), "build", "wait", "wait", rng.choice(["anon_then_remove", "anon"]), *ops[:6]]
    return {"scenario": "net", "seed": seed, "ops": ops,
            "knobs": {"lat_jit": rng.choice([0.0, 0.05]), "loss": rng.choice([0.0, 0.0, 0.1]), "timer_jitter": rng.choice([0.0, 0.001])}}


# ------------------------------------------------------------------------------------------------ api scenario
def run_api(c: Case, case: dict) -> dict:  # noqa: C901, PLR0915
    from ipv8.messaging.anonymization.community import TunnelCommunity
    from ipv8.messaging.anonymization.endpoint import TunnelEndpoint
    from ipv8.messaging.anonymization.tunnel import Circuit, Hop
    from ipv8.messaging.interfaces.endpoint import Endpoint
    from ipv8.peer import Peer

    world = c.world

    class Raw(Endpoint):
        def __init__(self) -> None:
            super().__init__()
            self.sent: list = []

        def send(self, address, packet) -> None:  # noqa: ANN001
            self.sent.append((address, packet))

        def assert_open(self) -> None:
            pass

        def is_open(self) -> bool:
            return True

        def get_address(self):  # noqa: ANN201
            return ("1.2.3.4", 5)

        async def open(self) -> bool:
            return True

        def close(self) -> None:
            pass

        def reset_byte_counters(self) -> None:
            pass

    key = __import__("ipv8.keyvault.crypto", fromlist=["default_eccrypto"]).default_eccrypto.generate_key("curve25519")
    peer = Peer(key, ("5.5.5.5", 5))

    class TC:
        """Stand-in that owns real Circuit objects; find_circuits is the real implementation."""

        def __init__(self) -> None:
            self.circuits: dict = {}
            self.sent: list = []
            self.created = 0
            self.nid = 0

        find_circuits = TunnelCommunity.find_circuits

        def create_circuit(self, goal_hops, ctype="DATA", exit_flags=None, required_exit=None, info_hash=None):  # noqa: ANN001, ANN201
            self.created += 1
            return self.new(goal_hops, exit_flags or [], ready=False)

        def new(self, goal_hops, flags, ready, first_flags=None) -> Circuit:  # noqa: ANN001
            self.nid += 1
            circ = Circuit(self.nid, goal_hops)
            self.circuits[self.nid] = circ
            circ.true_exit_flags = list(flags or [])       # ground truth for the oracle: the flags of the LAST hop
            if ready:
                for i in range(goal_hops):
                    circ.add_hop(Hop(peer, flags=(None if flags is None else list(flags)) if i == goal_hops - 1 else
                                     list(first_flags) if i == 0 and first_flags is not None else [1]))
            else:
                circ.pending_flags = list(flags or [])
            return circ

        def send_data(self, target, circuit_id, dest, src, data) -> None:  # noqa: ANN001
            circ = self.circuits.get(circuit_id)
            self.sent.append((circuit_id, None if circ is None else (circ.state, circ.goal_hops, list(getattr(circ, "true_exit_flags", circ.exit_flags))),
                              dest, data))

    alpha = case.get("alpha", ALPHA)
    depth = case["depth"]
    pre = case["prefix"]
    total = 0

    def run(seq: str) -> None:  # noqa: C901, PLR0912
        raw = Raw()
        ep = TunnelEndpoint(raw)
        tc = TC()
        hops = int(case.get("hops", 1))
        ep.set_tunnel_community(tc, hops)
        ep.set_anonymity(ANON_PREFIX, True)
        anon_on = True
        n_anon = 0
        plain_expected = []
        k = 0
        handed: dict = {}       # anonymized packet -> times the overlay handed it to send()
        carried: dict = {}      # anonymized packet -> times it was given to a circuit
        # a second TunnelEndpoint of the same process (another pseudonym / node) carrying an overlay with the same prefix
        raw2 = Raw()
        ep2 = TunnelEndpoint(raw2)
        tc2 = TC()
        ep2.set_tunnel_community(tc2, 1)
        other_on = None
        second_on = False

        def anon_send() -> None:
            nonlocal n_anon
            n_anon += 1
            pkt = ANON_PREFIX + b"\x01" + n_anon.to_bytes(4, "big")
            r0, s0, q0 = len(raw.sent), len(tc.sent), len(ep.send_queue)
            handed[pkt] = handed.get(pkt, 0) + 1
            ep.send(("7.7.7.7", 7), pkt)
            for _cid, _info, dest, data in tc.sent[s0:]:
                carried[data] = carried.get(data, 0) + 1
                if data not in handed or carried[data] > handed[data] or tuple(dest) != ("7.7.7.7", 7):
                    c.violate("right_circuit", "tunnelled_packet_is_not_what_the_overlay_sent",
                              f"after '{seq[:k]}' a circuit was given {len(data)} bytes towards {tuple(dest)} that the overlay "
                              f"{'never sent' if data not in handed else 'sent ' + str(handed[data]) + 'x (carried ' + str(carried[data]) + 'x)'}")
            went_raw = [p for _a, p in raw.sent[r0:] if p[:22] == ANON_PREFIX]
            if anon_on and went_raw:
                c.violate("never_raw", "anonymized_packet_sent_on_raw_socket", f"after '{seq[:k]}' an anonymized packet reached the raw endpoint")
            if not anon_on:
                if not went_raw:
                    c.violate("switch_off_means_raw", "packet_lost_with_anonymity_off", f"after '{seq[:k]}'")
                return
            for cid, info, _dest, _data in tc.sent[s0:]:
                if info is None or info[0] != "READY" or info[1] != hops or EXIT_IPV8 not in info[2]:
                    c.violate("right_circuit", "tunnelled_over_unsuitable_circuit",
                              f"after '{seq[:k]}' send_data used circuit {cid} with (state, hops, exit flags)={info}, wanted READY/{hops}/IPv8")
            if len(ep.send_queue) > 100:
                c.violate("bounded_queue", "send_queue_exceeds_100", f"len {len(ep.send_queue)} after '{seq[:k]}'")
            if len(tc.sent) > s0:
                world.probe("anon_send_over_ready_circuit")
            elif len(ep.send_queue) > q0:
                world.probe("anon_send_no_circuit_queued")
            elif ep.tunnel_community is None:
                world.probe("detached_drop")

        for ch in seq:
            k += 1
            if ch == "A":
                anon_send()
            elif ch == "Q":
                for _ in range(101):
                    anon_send()
                world.probe("queue_overflow")
            elif ch == "P":
                pkt = PLAIN_PREFIX + b"\x01" + k.to_bytes(2, "big")
                plain_expected.append((("8.8.8.8", 8), pkt))
                ep.send(("8.8.8.8", 8), pkt)
            elif ch == "R":
                pend = [x for x in tc.circuits.values() if x.state == "EXTENDING" and x.goal_hops == hops]
                if pend:
                    x = pend[0]
                    x.true_exit_flags = [1, EXIT_IPV8]
                    for i in range(x.goal_hops):
                        x.add_hop(Hop(peer, flags=[1, EXIT_IPV8] if i == x.goal_hops - 1 else [1]))
                else:
                    tc.new(hops, [1, EXIT_IPV8], ready=True)
            elif ch == "W":
                if k % 3 == 1:
                    tc.new(hops + 1, [1, EXIT_IPV8], ready=True)      # wrong length
                elif k % 3 == 2:
                    # exit without the IPv8 flag (with 2+ hops: behind a FIRST hop that is an IPv8 exit itself)
                    tc.new(hops, [1, 2], ready=True, first_flags=[1, EXIT_IPV8])
                else:
                    tc.new(hops, None, ready=True)                    # exit whose flags the sender never learnt
                world.probe("wrong_circuit_not_used")
            elif ch == "O":
                # the other endpoint switches the same prefix off (first) / on (then) and sends one packet of its own
                other_on = False if other_on is None else not other_on
                ep2.set_anonymity(ANON_PREFIX, other_on)
                r2, s2, q2 = len(raw2.sent), len(tc2.sent), len(ep2.send_queue)
                pkt = ANON_PREFIX + b"\x02" + k.to_bytes(2, "big")
                ep2.send(("9.9.9.9", 9), pkt)
                raw_now = len(raw2.sent) > r2
                if other_on and raw_now:
                    c.violate("never_raw", "anonymized_packet_sent_on_raw_socket", f"second endpoint, after '{seq[:k]}'")
                if not other_on and not raw_now:
                    c.violate("plain_unaffected", "plain_overlay_traffic_altered",
                              f"second endpoint has anonymity off for the prefix but its packet did not use its raw socket "
                              f"(tunnelled {len(tc2.sent) - s2}, queued {len(ep2.send_queue) - q2}) after '{seq[:k]}'")
                world.probe("second_endpoint_same_prefix")
            elif ch == "F":
                # another overlay of the same endpoint has its anonymity switched off (again): the first prefix must not notice
                ep.set_anonymity(SECOND_PREFIX, False)
                second_on = False
                world.probe("second_prefix_same_endpoint")
            elif ch == "G":
                # ... or switched on (again), after which its packets must not use the raw socket either
                ep.set_anonymity(SECOND_PREFIX, True)
                second_on = True
                world.probe("second_prefix_same_endpoint")
            if ch in "FG":
                r0 = len(raw.sent)
                pkt = SECOND_PREFIX + b"\x03" + k.to_bytes(2, "big")
                handed[pkt] = handed.get(pkt, 0) + 1        # if queued it may be flushed by a later send of either prefix
                ep.send(("7.7.7.7", 7), pkt)
                raw_now = any(p2 == pkt for _a, p2 in raw.sent[r0:])
                if second_on and raw_now:
                    c.violate("never_raw", "anonymized_packet_sent_on_raw_socket", f"second prefix of the endpoint, after '{seq[:k]}'")
                if not second_on and not raw_now:
                    c.violate("plain_unaffected", "plain_overlay_traffic_altered",
                              f"second prefix has anonymity off but its packet did not use the raw socket after '{seq[:k]}'")
            elif ch == "C":
                for x in tc.circuits.values():
                    if x.state == "READY":
                        x.close("c07")
                        if ep.send_queue:
                            world.probe("circuit_closing_with_queue")
                        break
            elif ch == "X":
                if tc.circuits:
                    tc.circuits.pop(next(iter(tc.circuits)))
            elif ch == "D":
                ep.set_tunnel_community(None, hops)
            elif ch == "T":
                ep.set_tunnel_community(tc, hops)
            elif ch == "N":
                ep.set_anonymity(ANON_PREFIX, False)
                anon_on = False
            elif ch == "Y":
                ep.set_anonymity(ANON_PREFIX, True)
                anon_on = True
        got_plain = [(a, p) for a, p in raw.sent if p[:22] == PLAIN_PREFIX]
        if got_plain != plain_expected:
            c.violate("plain_unaffected", "plain_overlay_traffic_altered",
                      f"plain overlay sent {len(plain_expected)} packets, raw endpoint saw {len(got_plain)} (order/content differ) in '{seq}'")
        elif plain_expected:
            world.probe("plain_raw_ok")

    def sequences():  # noqa: ANN202
        if case.get("random"):
            rr = world.stream("c07api")
            spec = case["random"]
            for _ in range(spec["n"]):
                yield "".join(rr.choice(alpha) for _ in range(rr.randint(spec["min"], spec["max"])))
            return
        for ln in range(depth - len(pre) + 1):
            for tail in itertools.product(alpha, repeat=ln):
                yield pre + "".join(tail)

    for _once in (0,):
        for seq in sequences():
            total += 1
            run(seq)
            if "A" in seq or "Q" in seq:
                c.nontrivial(seq) if total % 97 == 0 else None
            if c.violations:
                c.sample = {"scenario": "api", "failing_sequence": seq}
                c.case["_failing"] = seq
                break
        if c.violations:
            break
    c.nontrivial(f"api/{pre}/{depth}")
    world.trace.event("c07api", None, (pre, total, len(c.violations)))
    if c.sample is None:
        c.sample = {"scenario": "api", "prefix": pre, "depth": depth, "sequences": total, "alphabet": alpha}
    return c.result(evaluations=total)


# ------------------------------------------------------------------------------------------------ net scenario
def run_net(c: Case, case: dict) -> dict:  # noqa: C901, PLR0915
    from ipv8.community import Community, CommunitySettings
    from ipv8.messaging.anonymization.community import TunnelCommunity
    from ipv8.messaging.anonymization.tunnel import PEER_FLAG_EXIT_BT, PEER_FLAG_EXIT_IPV8, PEER_FLAG_RELAY, PEER_FLAG_SPEED_TEST

    from simkit.node import SimNode

    from .tunnel_lib import TunnelWorld

    world, net = c.world, c.net
    rng = world.stream("c07")

    class AnonOverlay(Community):
        community_id = unhexlify("a1" * 20)

    class PlainOverlay(Community):
        community_id = unhexlify("b2" * 20)

    # node 6 is a BitTorrent-only exit; node 1 is a second node of the process with its own TunnelEndpoint that runs the same
    # overlay id without anonymity
    tw = TunnelWorld(c, n=7, exits=(4, 5), endpoint_kinds={0: "tunnel", 1: "tunnel"},
                     flags={6: {PEER_FLAG_RELAY, PEER_FLAG_EXIT_BT}})
    st: dict = {"anon_on": True, "hops": 1, "violated": False}
    sends: list = []

    async def main() -> None:  # noqa: C901, PLR0912, PLR0915
        await tw.build()
        me = tw.nodes[0]
        tc = me.ov
        anon = me.add(AnonOverlay, CommunitySettings(anonymize=True))

        def count_inbound(ov) -> None:  # noqa: ANN001
            inner_on_packet = ov.on_packet

            def on_packet(packet, warn_unknown=True):  # noqa: ANN001, ANN202
                if packet[1][:22] == ov.get_prefix():
                    st["anon_in"] = st.get("anon_in", 0) + 1
                    world.probe("net_anon_reply_received_through_tunnel")
                return inner_on_packet(packet, warn_unknown)
            ov.on_packet = on_packet
        count_inbound(anon)
        plain = me.add(PlainOverlay)
        target = SimNode(world, "t0", "3.3.3.3")
        await target.open("udp")
        t_anon = target.add(AnonOverlay)
        t_plain = target.add(PlainOverlay)
        seen_anon: list = []
        seen_plain: list = []
        orig_a, orig_p = t_anon.on_packet, t_plain.on_packet

        def on_a(packet, warn_unknown=True) -> None:  # noqa: ANN001
            if packet[1][:22] == t_anon.get_prefix():
                seen_anon.append(packet)
            return orig_a(packet, warn_unknown)

        def on_p(packet, warn_unknown=True) -> None:  # noqa: ANN001
            if packet[1][:22] == t_plain.get_prefix():
                seen_plain.append(packet)
            return orig_p(packet, warn_unknown)
        t_anon.on_packet, t_plain.on_packet = on_a, on_p
        target.raw_endpoint.remove_listener(t_anon)
        target.raw_endpoint.add_prefix_listener(t_anon, t_anon.get_prefix())
        target.raw_endpoint.remove_listener(t_plain)
        target.raw_endpoint.add_prefix_listener(t_plain, t_plain.get_prefix())
        other = tw.nodes[1]
        o_anon = other.add(AnonOverlay)          # same overlay id, did not ask for anonymity
        other_sent: list = []
        await tw.introduce()
        aprefix = anon.get_prefix()
        bt_exit = tw.nodes[6]

        def real_flags(circ):  # noqa: ANN001, ANN202
            node = tw.node_of_key(circ.hops[-1].public_key_bin) if circ.hops else None
            return set() if node is None else set(node.ov.settings.peer_flags)

        inner_send_data = tc.send_data

        handed_net: dict = {}
        carried_net: dict = {}
        removing: set = set()      # circuits this node has started to tear down (destroy sent, removal pending)

        def send_data(target_addr, circuit_id, dest, src, data):  # noqa: ANN001, ANN202
            if data[:22] == aprefix and circuit_id in removing:
                c.violate("right_circuit", "tunnelled_over_circuit_being_removed",
                          f"anonymized packet handed to circuit {circuit_id}, which this node is tearing down (its destroy has been sent)")
            if data[:22] == aprefix:
                carried_net[data] = carried_net.get(data, 0) + 1
                if carried_net[data] > handed_net.get(data, 0):
                    c.violate("right_circuit", "tunnelled_packet_is_not_what_the_overlay_sent",
                              f"{len(data)} bytes given to circuit {circuit_id}: handed to send() {handed_net.get(data, 0)}x, "
                              f"carried {carried_net[data]}x")
                circ = tc.circuits.get(circuit_id)
                ok = circ is not None and circ.state == "READY" and circ.goal_hops == me.endpoint.hops \
                    and PEER_FLAG_EXIT_IPV8 in circ.exit_flags and PEER_FLAG_EXIT_IPV8 in real_flags(circ)
                if not ok:
                    c.violate("right_circuit", "tunnelled_over_unsuitable_circuit",
                              f"anonymized packet handed to circuit {circuit_id}: "
                              f"{None if circ is None else (circ.state, circ.goal_hops, circ.exit_flags, sorted(real_flags(circ)))}, "
                              f"wanted READY/{me.endpoint.hops}/IPv8")
                else:
                    world.probe("anon_send_over_ready_circuit")
            return inner_send_data(target_addr, circuit_id, dest, src, data)
        tc.send_data = send_data
        inner_ep_send = me.endpoint.send

        depth = {"n": 0, "carried": 0}

        def ep_send(address, packet):  # noqa: ANN001, ANN202
            if packet[:22] == aprefix:
                handed_net[packet] = handed_net.get(packet, 0) + 1      # whatever the overlay hands to its endpoint, also on its own
            c0 = sum(carried_net.values())
            depth["n"] += 1
            try:
                return inner_ep_send(address, packet)
            finally:
                depth["n"] -= 1
                flushed = sum(carried_net.values()) - c0
                if depth["n"] == 0 and flushed > 101:
                    # one send() wrote out its own packet plus everything that had been held back: the hold-back queue is bounded (100)
                    c.violate("bounded_queue", "more_than_100_packets_were_held_back",
                              f"a single send() handed {flushed} anonymized packets to the circuit: {flushed - 1} had been held back")
        me.endpoint.send = ep_send

        def on_send(pkt, fate) -> None:  # noqa: ANN001
            if pkt.src_node == me.name and pkt.data[:22] == aprefix and st["anon_on"] and pkt.src[0] == me.ip:
                c.violate("never_raw", "anonymized_packet_sent_on_raw_socket",
                          f"datagram with the anonymized overlay's prefix left {pkt.src} towards {pkt.dst} (ops so far: {sends[-6:]})")
            if len(me.endpoint.send_queue) > 100:
                c.violate("bounded_queue", "send_queue_exceeds_100", str(len(me.endpoint.send_queue)))
        net.on_send.append(on_send)

        n_plain = 0
        plain_sent = []
        for op in case["ops"]:
            sends.append(op)
            if op == "anon":
                pkt = me.call(anon.create_introduction_request, target.address)
                me.call(anon.endpoint.send, target.address, pkt)
                if not tc.find_circuits(exit_flags=[PEER_FLAG_EXIT_IPV8], hops=me.endpoint.hops) and me.endpoint.tunnel_community:
                    world.probe("anon_send_no_circuit_queued")
                    c.nontrivial("net/anon_without_circuit/" + "".join(o[0] for o in sends[-5:]))
            elif op == "anon_then_remove":
                # the overlay sends and, in the same loop iteration, every circuit is given up (e.g. by the handler of a destroy that
                # was already waiting): whatever the endpoint still has to write out for that send must not use those circuits
                pkt = me.call(anon.create_introduction_request, target.address)
                me.call(anon.endpoint.send, target.address, pkt)
                if me.endpoint.send_queue:
                    world.probe("circuits_removed_right_after_send_with_backlog")
                for cid in sorted(tc.circuits):
                    removing.add(cid)
                    me.call(tc.remove_circuit, cid, "c07 right after send", destroy=1)
                world.probe("circuits_removed_right_after_send")
            elif op == "burst_many":
                # a burst to MANY different destinations while packets are held back
                for k in range(150):
                    dest = (f"3.3.{1 + k // 200}.{1 + k % 200}", 7000 + k)
                    pkt = me.call(anon.create_introduction_request, dest)
                    me.call(anon.endpoint.send, dest, pkt)
                world.probe("queue_overflow_many_destinations")
            elif op == "burst":
                pkt = me.call(anon.create_introduction_request, target.address)
                for _ in range(120):
                    me.call(anon.endpoint.send, target.address, pkt)
                world.probe("queue_overflow")
            elif op == "plain":
                n_plain += 1
                pkt = me.call(plain.create_introduction_request, target.address)
                plain_sent.append(pkt)
                me.call(plain.endpoint.send, target.address, pkt)
            elif op == "build":
                me.call(tc.create_circuit, me.endpoint.hops, exit_flags=[PEER_FLAG_EXIT_IPV8])
            elif op == "build_blind":
                # a circuit of the right length whose exit's flags this node never learnt (required_exit outside the candidates),
                # ending in the BitTorrent-only exit
                from ipv8.peer import Peer
                blind = Peer(bt_exit.ov.my_peer.public_key.key_to_bin(), bt_exit.address)
                tc.candidates.pop(blind, None)
                if me.endpoint.hops == 1 or tc.get_candidates(PEER_FLAG_RELAY):
                    circ = me.call(tc.create_circuit, me.endpoint.hops, required_exit=blind)
                    if circ is not None:
                        await asyncio.sleep(1.0)
                        if circ.state == "READY" and not circ.exit_flags:
                            world.probe("net_blind_exit_circuit_ready")
            elif op == "reload":
                # the application restarts the anonymized overlay: the replacement (same overlay id, same endpoint, anonymity asked for
                # again) is created while the old instance is still unloading
                old = anon
                old_task = me.call(asyncio.ensure_future, old.unload())
                me.overlays.remove(old)
                anon = me.add(AnonOverlay, CommunitySettings(anonymize=True))
                count_inbound(anon)
                world.probe("anonymized_overlay_restarted")
                await asyncio.sleep(0.01)
                pkt = me.call(anon.create_introduction_request, target.address)
                me.call(anon.endpoint.send, target.address, pkt)
                await old_task
            elif op == "other_off":
                other.endpoint.set_anonymity(aprefix, False)
            elif op == "other_send":
                pkt = other.call(o_anon.create_introduction_request, target.address)
                other_sent.append(pkt)
                other.call(o_anon.endpoint.send, target.address, pkt)
                world.probe("second_endpoint_same_prefix")
            elif op == "wait":
                await asyncio.sleep(rng.choice([0.3, 2.0, 8.0]))
            elif op == "remove":
                if tc.circuits:
                    cid = sorted(tc.circuits)[0]
                    if me.endpoint.send_queue:
                        world.probe("circuit_closing_with_queue")
                    removing.add(cid)
                    me.call(tc.remove_circuit, cid, "c07", destroy=1)
            elif op == "crash_hop":
                ready = [x for x in tc.circuits.values() if x.hops]
                if ready:
                    victim = tw.node_of_key(ready[0].hops[-1].public_key_bin)
                    if victim is not None and victim is not me and victim.name not in world.loop.dead:
                        victim.crash()
                        world.probe("net_hop_crashed")
            elif op == "detach":
                me.endpoint.set_tunnel_community(None, me.endpoint.hops)
                world.probe("detached_drop")
            elif op == "attach":
                me.endpoint.set_tunnel_community(tc, st["hops"])
            elif op == "anon_off":
                me.endpoint.set_anonymity(aprefix, False)
                st["anon_on"] = False
            elif op == "anon_on":
                me.endpoint.set_anonymity(aprefix, True)
                st["anon_on"] = True
            elif op in ("hops1", "hops2"):
                st["hops"] = 1 if op == "hops1" else 2
                if me.endpoint.tunnel_community is not None:
                    me.endpoint.set_tunnel_community(tc, st["hops"])
            await asyncio.sleep(0.05)
        await asyncio.sleep(3.0)
        if case.get("expect_reply") and not st.get("anon_in"):
            # non-vacuity of the receive side: what the outside peer answers comes back through the circuit and is handed to the
            # anonymized overlay (TunnelEndpoint.notify_listeners(from_tunnel=True))
            c.violate("non_vacuity", "anonymized_overlay_got_no_reply_through_tunnel",
                      f"the anonymized overlay sent {sum(1 for o2 in case['ops'] if o2 == 'anon')} requests over a ready circuit in a loss-free run "
                      f"and was handed none of the answers")
        # deliveries: anonymized packets must have arrived from an exit, never from my own address
        from_other = [d for src, d in seen_anon if src[0] == other.ip]
        if not case["knobs"].get("loss") and sorted(from_other) != sorted(other_sent):
            c.violate("plain_unaffected", "plain_overlay_traffic_altered",
                      f"second node (same overlay id, anonymity not requested) sent {len(other_sent)} packets from its own "
                      f"socket, target saw {len(from_other)} from that address")
        for src, _data in seen_anon:
            if src[0] == me.ip and "anon_off" not in case["ops"]:
                c.violate("never_raw", "anonymized_packet_arrived_from_own_address", f"target saw {src}")
            elif src[0] != me.ip:
                world.probe("net_anon_delivered_via_exit")
        if not case["knobs"].get("loss"):
            got = [d for _s, d in seen_plain]
            if got != plain_sent and sorted(got) != sorted(plain_sent):
                c.violate("plain_unaffected", "plain_overlay_traffic_altered", f"sent {len(plain_sent)}, target saw {len(got)}")
            elif plain_sent:
                world.probe("plain_raw_ok")
        target.overlays = [t_anon, t_plain]
        await target.stop()
        for ov in (anon, plain):
            me.overlays.remove(ov)
            await ov.unload()

    try:
        world.run(main())
    finally:
        async def down() -> None:
            await tw.teardown()
        try:
            world.run(down())
        except Exception:  # noqa: BLE001
            tw.uninstall_probes()
    world.trace.event("c07net", None, (len(case["ops"]), len(c.violations)))
    c.sample = {"scenario": "net", "ops": case["ops"][:20]}
    del PEER_FLAG_EXIT_BT, PEER_FLAG_RELAY, PEER_FLAG_SPEED_TEST, TunnelCommunity
    return c.result(evaluations=max(1, len(case["ops"])))


# ------------------------------------------------------------------------------------------------ service scenario
def run_service(c: Case, case: dict) -> dict:
    """
    An unmodified ``ipv8_service.IPv8`` built from the shipped default configuration in which ONE overlay asks for anonymity
    (``initialize: {anonymize: True}``), with message statistics on or off, next to a plain bootstrap node.  No exit exists, so the
    anonymized overlay's packets can only wait in the queue: none of them may leave from the node's own address.
    """
    from ipv8.configuration import ConfigBuilder
    from ipv8.messaging.anonymization.endpoint import TunnelEndpoint
    from ipv8_service import IPv8

    from simkit.node import SimNode

    world, net = c.world, c.net
    anon_cls = case.get("anon_overlay", "DHTDiscoveryCommunity")
    nodes = []
    st: dict = {}

    async def main() -> None:
        for i in range(2):
            node = SimNode(world, f"n{i}", f"1.0.0.{i + 1}", ip6=f"fd00::{i + 1}")
            cfg = ConfigBuilder().finalize()
            cfg["logger"] = {"level": "CRITICAL"}
            cfg["keys"][0]["file"] = None
            for o in cfg["overlays"]:
                for bs in o["bootstrappers"]:
                    bs["init"] = {"ip_addresses": [("1.0.0.2", 8090)], "dns_addresses": [], "bootstrap_timeout": 30.0}
                if i == 0 and o["class"] == anon_cls:
                    o["initialize"] = dict(o["initialize"], anonymize=True)
            node.ipv8 = node.call(IPv8, cfg, enable_statistics=bool(case.get("stats")) and i == 0)
            await node.acall(node.ipv8.start)
            node.port = 8090
            nodes.append(node)
        me = nodes[0]
        anon = next(o for o in me.ipv8.overlays if type(o).__name__ == anon_cls)
        plain = [o for o in me.ipv8.overlays if o is not anon]
        st["prefix"] = anon.get_prefix()
        st["plain_prefixes"] = {o.get_prefix() for o in plain}
        st["stack"] = []
        ep = me.ipv8.endpoint
        while ep is not None and len(st["stack"]) < 5:
            st["stack"].append(type(ep).__name__)
            ep = getattr(ep, "endpoint", None)
        world.probe("service_with_statistics" if case.get("stats") else "service_without_statistics")
        for _ in range(6):
            await asyncio.sleep(5.0)
            me.call(anon.bootstrap)
            pkt = me.call(anon.create_introduction_request, ("1.0.0.2", 8090))
            me.call(anon.endpoint.send, ("1.0.0.2", 8090), pkt)
        await asyncio.sleep(2.0)
        for n in nodes:
            await n.acall(n.ipv8.stop)

    seen_plain = {"n": 0}

    def on_send(pkt, fate) -> None:  # noqa: ANN001
        if pkt.src_node == "n0" and st.get("prefix") and pkt.data[:22] == st["prefix"]:
            c.violate("never_raw", "anonymized_packet_sent_on_raw_socket",
                      f"ipv8_service.IPv8 (statistics {'on' if case.get('stats') else 'off'}, endpoint stack {st.get('stack')}): a datagram "
                      f"with the prefix of the overlay configured with anonymize=True left {pkt.src} towards {pkt.dst}")
        elif pkt.src_node == "n0" and pkt.data[:22] in st.get("plain_prefixes", ()):
            seen_plain["n"] += 1
    net.on_send.append(on_send)
    world.run(main())
    if not seen_plain["n"]:
        c.violate("plain_unaffected", "plain_overlay_traffic_altered", "the overlays that did not ask for anonymity sent nothing at all")
    else:
        world.probe("plain_raw_ok")
    c.nontrivial(f"service/{bool(case.get('stats'))}/{anon_cls}")
    world.trace.event("c07svc", None, (bool(case.get("stats")), seen_plain["n"] > 0))
    c.sample = {"scenario": "service", "statistics": bool(case.get("stats")), "endpoint_stack": st.get("stack"), "anonymized": anon_cls}
    del TunnelEndpoint
    return c.result(evaluations=6)


def execute(case: dict) -> dict:
    if case["scenario"] == "service":
        return run_service(Case(case, net=True, first_only=False), case)
    if case["scenario"] == "api":
        c = Case(case, first_only=False)
        return run_api(c, case)
    c = Case(case, net=True, first_only=False)
    return run_net(c, case)
