"""
C16 - a token tree only ever holds its owner's signed chain, in any order (mode (a): receiver fed directly).

A source ``TokenTree(private_key=owner)`` is grown into a given shape (``shape[i]`` = index of the parent of token
``i`` or -1 for the genesis pointer, so forks, forests, chains and stars are all expressible).  A receiver
``TokenTree(public_key=owner.pub())`` is then offered an explicit *arrival schedule* (``case["order"]``): receiver-side
clones built from the 128-byte wire form of

    ["tok", i] / ["dup", i]      the owner's token i (``dup`` is the same thing, the label only documents intent)
    ["dupc", i, ok]              token i carrying right (ok) / wrong content (``Token.from_database_tuple``)
    ["forged", i, bit]           token i with one bit of its wire form flipped (default: first signature bit)
    ["foreign", i, kind]         validly signed by ANOTHER key: "sib" points where token i points (genesis / parent of
                                 i), "child" points at token i, "own" is token i of the foreign key's own chain
    ["dangling", j]              validly signed by the owner, parent never deliverable (0: nowhere, 1: child of 0,
                                 2: child of forged token 0, 3: child of foreign sibling 0, >=4: nowhere-j)
    ["content", i, ok]           ``receive_content`` with right / wrong content on the receiver's token i
    ["garbage", g]               bytes pushed through ``unserialize_public`` (random, truncated, token + partial tail)

either through ``gather_token`` (feed "gather"), one ``unserialize_public`` call per item ("wire1") or one call per
run of consecutive items ("wirebatch").

The oracle is a reference closure that the harness computes from the offered multiset only (validity is known by
construction, connectivity from the previous-hash pointers), evaluated after every arrival (monotone invariant) and
at the end; the same multiset is additionally fed to a second receiver in a canonical parents-first order and the two
outcomes (element hashes, waiting hashes) are compared.
"""
from __future__ import annotations

import hashlib
import itertools
import random

from simkit.scenario import Case

PROPERTY = "C16"
LEVEL = "exploration"
BUDGET = {"quick": 25, "thorough": 420}
CHUNK = 40
ENUMERATED = {"quick": False, "thorough": False}   # the enumerated part is followed by an endless seeded stream
RULE = ("case = (shape, explicit arrival list, feed mode, waiting-area bound). Enumerated part: every unordered rooted "
        "forest shape with <= 6 tokens (84 shapes: chains, forks, wide, deep, several genesis children) x EVERY "
        "permutation of arrival (thorough: n<=6, 37205 cases; quick: n<=5 + 12 seeded permutations per 6-token shape), "
        "then per shape seeded permutations mixed with duplicates, content-carrying duplicates, bit-flipped (forged) "
        "tokens, tokens of another key (sibling/child impostors, foreign chain), dangling tokens, right/wrong content, "
        "garbage through unserialize_public, withheld tokens; then an endless stream of random trees (quick <= 12, "
        "thorough <= 40 tokens; chain/star/binary/caterpillar/recursive/forest) with reversed / post-order / "
        "deepest-first / shuffled arrival and the same mix-ins, plus waiting-area overflow cases (default bound 100 "
        "and lowered bounds). Non-trivial = at least one valid owner token arrives before its parent; distinct = "
        "distinct (shape, order, feed).")
COMPONENTS = {"real": ["ipv8.attestation.tokentree.tree.TokenTree (add, add_by_hash, gather_token, verify, get_root_path, "
                       "serialize_public, unserialize_public, unchained)",
                       "ipv8.attestation.tokentree.token.Token (unserialize, from_database_tuple, create, receive_content)",
                       "ipv8.attestation.signed_object.AbstractSignedObject", "ipv8.keyvault (curve25519 sign / verify)"],
              "stub": ["key generation (seeded per case through simkit.seams)"]}
ASSUMPTIONS = ["Ed25519 signing/verification of ipv8.keyvault is trusted: a token is 'signed by the tree's key' iff it was "
               "built with the owner's private key and its 128 wire bytes were not altered (validity by construction)",
               "SHA3-256 collisions do not occur; a token's identity is SHA3-256(previous || content hash || signature)",
               "mode (b) (delivery through IdentityCommunity messages) is not covered by this module",
               "token objects with a content attribute written directly (bypassing Token's constructor / "
               "receive_content) are out of scope",
               "trees deeper than 40 tokens (recursion in the chain reaction, verify maxdepth) are out of scope"]
REACH = ["fork_children_before_parent", "chain_reversed", "forged_rejected", "foreign_rejected",
         "dangling_kept_unchained", "duplicate_ignored", "content_wrong_rejected", "content_right_attached",
         "content_via_token_attached", "roundtrip_ok", "upto_roundtrip_ok", "garbage_unserialize_raised",
         "garbage_ignored", "waiting_area_overflow", "wire_feed", "token_withheld", "token_object_shared_between_trees", "big_tree_roundtrip_ok", "full_waiting_area_woken_at_once", "statement_signed_twice_distinct_tokens"]
SHRINK_FIELDS = ("order",)

FORGE_BIT = 512          # first bit of the signature in the 128-byte wire form
_SHAPES: dict = {}


def _sha3(b: bytes) -> bytes:
    return hashlib.sha3_256(b).digest()


# --------------------------------------------------------------------------- shapes
def _canon(parents) -> tuple:  # noqa: ANN001
    ch: dict = {i: [] for i in range(-1, len(parents))}
    for i, p in enumerate(parents):
        ch[p].append(i)

    def enc(v: int) -> tuple:
        return tuple(sorted(enc(x) for x in ch[v]))
    return enc(-1)


def shapes(n: int) -> list:
    """Every unordered rooted forest with n tokens (genesis = root), as a parent-index list with parent[i] < i."""
    if n not in _SHAPES:
        seen: dict = {}
        for par in itertools.product(*[range(-1, i) for i in range(n)]):
            seen.setdefault(_canon(par), list(par))
        _SHAPES[n] = list(seen.values())
    return _SHAPES[n]


def _random_shape(rng: random.Random, n: int) -> list:
    style = rng.choice(["chain", "star", "recursive", "recursive", "binary", "caterpillar", "forest", "broom"])
    if style == "chain":
        return [i - 1 for i in range(n)]
    if style == "star":
        return [-1] + [0] * (n - 1)
    if style == "binary":
        return [(i - 1) // 2 if i else -1 for i in range(n)]
    if style == "caterpillar":   # spine with one leaf hanging off every spine node
        return [-1] + [(i - 2) if i % 2 == 0 else (i - 1 - (i - 1) % 2) for i in range(1, n)]
    if style == "forest":
        return [rng.choice([-1, -1, *range(i)]) for i in range(n)]
    if style == "broom":         # chain followed by a wide fork at its end
        k = max(1, n // 2)
        return [i - 1 for i in range(k)] + [k - 1] * (n - k)
    return [rng.randrange(-1, i) if i else -1 for i in range(n)]


def _depths(shape: list) -> list:
    d: list = []
    for p in shape:
        d.append(0 if p < 0 else d[p] + 1)
    return d


def _post_order(shape: list) -> list:
    ch: dict = {i: [] for i in range(-1, len(shape))}
    for i, p in enumerate(shape):
        ch[p].append(i)
    out: list = []
    stack = [(-1, False)]
    while stack:
        v, done = stack.pop()
        if done:
            if v >= 0:
                out.append(v)
            continue
        stack.append((v, True))
        stack.extend((x, False) for x in reversed(ch[v]))
    return out


def _base_order(rng: random.Random, shape: list) -> list:
    n = len(shape)
    style = rng.choice(["shuffle", "shuffle", "reversed", "post", "deepest", "inorder", "swaps"])
    idx = list(range(n))
    if style == "shuffle":
        rng.shuffle(idx)
    elif style == "reversed":
        idx.reverse()
    elif style == "post":
        idx = _post_order(shape)
    elif style == "deepest":
        d = _depths(shape)
        rng.shuffle(idx)
        idx.sort(key=lambda i: -d[i])
    elif style == "swaps":
        for _ in range(max(1, n // 3)):
            a, b = rng.randrange(n), rng.randrange(n)
            idx[a], idx[b] = idx[b], idx[a]
    return [["tok", i] for i in idx]


def _mix(rng: random.Random, n: int, order: list, extras: int, twins: bool = False) -> list:
    order = list(order)
    if rng.random() < 0.2 and len(order) > 1:
        del order[rng.randrange(len(order))]          # withheld token: its subtree must stay in the waiting area
    for _ in range(extras):
        i = rng.randrange(n)
        kind = rng.choices(["dup", "dupc", "forged", "foreign", "dangling", "content", "garbage", "twin"],
                           [18, 8, 20, 20, 12, 16, 6, 8 if twins else 0])[0]
        if kind == "dup":
            item = ["dup", i]
        elif kind == "twin":
            item = ["twin", i]
        elif kind == "dupc":
            item = ["dupc", i, rng.random() < 0.7]
        elif kind == "forged":
            item = ["forged", i, rng.choice([FORGE_BIT, FORGE_BIT, 1023, 767, 0, 255, 256, 511, rng.randrange(1024)])]
        elif kind == "foreign":
            item = ["foreign", i, rng.choice(["sib", "child", "own"])]
        elif kind == "dangling":
            item = ["dangling", rng.randrange(4)]
        elif kind == "content":
            item = ["content", i, rng.random() < 0.5]
        else:
            item = ["garbage", rng.randrange(64)]
        order.insert(rng.randrange(len(order) + 1), item)
    return order


def _case(scn: str, seed: int, shape: list, order: list, feed: str = "gather", umax=None) -> dict:  # noqa: ANN001
    return {"scenario": scn, "seed": seed, "shape": list(shape), "order": order, "feed": feed, "umax": umax}


def _mixed_case(seed: int, shape: list) -> dict:
    rng = random.Random(f"c16/mixed/{seed}")
    n = len(shape)
    ecdsa = rng.random() < 0.25
    order = _mix(rng, n, _base_order(rng, shape), rng.choice([1, 2, 3, 5, 8]), twins=ecdsa)
    case = _case("mixed", seed, shape, order, rng.choice(["gather", "gather", "wire1", "wirebatch"]),
                 rng.choice([None, None, None, None, 2, 4]))
    if ecdsa:
        case["curve"] = "very-low"
    if case["feed"] == "gather" and rng.random() < 0.35:
        # the application tracks a second identity and offers every Token OBJECT to both trees (alternating which one first)
        case["shared"] = True
    return case


def _random_case(seed: int, nmax: int) -> dict:
    rng = random.Random(f"c16/random/{seed}")
    n = rng.choice([7, 8, 9, 10, 12, 16, 24, 32, 40])
    n = min(n, nmax) if rng.random() < 0.8 else rng.randrange(2, nmax + 1)
    shape = _random_shape(rng, n)
    order = _base_order(rng, shape)
    roll = rng.random()
    if roll < 0.12:
        # waiting-area overflow: more simultaneously waiting tokens than the bound
        umax = rng.choice([None, None, 1, 3, 8])
        bound = 100 if umax is None else umax
        extra = [["dangling", 4 + k] for k in range(bound + rng.randrange(1, 12))]
        pos = rng.randrange(len(order) + 1)
        order = order[:pos] + extra + order[pos:]
        order = _mix(rng, n, order, rng.choice([0, 2, 5]))
        return _case("overflow", seed, shape, order, rng.choice(["gather", "wirebatch"]), umax)
    ecdsa = rng.random() < 0.25
    order = _mix(rng, n, order, rng.choice([0, 0, 2, 4, 8, 16]), twins=ecdsa)
    case = _case("random", seed, shape, order, rng.choice(["gather", "gather", "gather", "wire1", "wirebatch"]),
                 rng.choice([None] * 9 + [3]))
    if ecdsa:
        case["curve"] = "very-low"
    return case


def cases(tier: str, base_seed: int):  # noqa: ANN201
    thorough = tier == "thorough"
    seq = itertools.count(1)
    full_to = 6 if thorough else 5
    for n in range(1, full_to + 1):
        for shape in shapes(n):
            for perm in itertools.permutations(range(n)):
                yield _case("perm", next(seq), shape, [["tok", i] for i in perm])
    if not thorough:
        for si, shape in enumerate(shapes(6)):
            rng = random.Random(f"c16/perm6/{si}")
            for k in range(12):
                perm = list(range(6))
                if k == 0:
                    perm.reverse()
                else:
                    rng.shuffle(perm)
                yield _case("perm", next(seq), shape, [["tok", i] for i in perm])
    for k, (kind, n) in enumerate((("chain", 90), ("chain", 260), ("chain", 1100), ("deep", 400), ("random", 500)) if not thorough else
                                  (("chain", 90), ("chain", 260), ("chain", 1000), ("deep", 400), ("deep", 1500), ("random", 500),
                                   ("random", 2000))):
        yield {"scenario": "bigtree", "seed": base_seed + k, "kind": kind, "n": n}
    per_shape = 60 if thorough else 6
    for k in range(per_shape):
        for n in range(1, 7):
            for si, shape in enumerate(shapes(n)):
                yield _mixed_case(base_seed * 1000003 + (n * 100 + si) * 1000 + k, shape)
    nmax = 40 if thorough else 12
    for i in itertools.count():
        yield _random_case(base_seed + i, nmax)


def _compact(case: dict) -> dict | None:
    """Drop the tokens of the shape that the order does not name (keeping ancestors and token 0), relabel."""
    shape = case["shape"]
    named = ("tok", "dup", "dupc", "forged", "foreign", "content", "twin")
    used = {0} | {it[1] for it in case["order"] if it[0] in named}
    for i in sorted(used, reverse=True):
        p = shape[i]
        while p >= 0 and p not in used:
            used.add(p)
            p = shape[p]
    if len(used) >= len(shape):
        return None
    keep = sorted(used)
    new = {old: k for k, old in enumerate(keep)}
    order = [[it[0], new[it[1]], *it[2:]] if it[0] in named else list(it) for it in case["order"]]
    return dict(case, shape=[new[shape[o]] if shape[o] >= 0 else -1 for o in keep], order=order)


def simplify(case: dict):  # noqa: ANN201
    """
    Candidates tried by the runner after ddmin (a later accepted candidate replaces an earlier one, and every candidate
    derives from the case given here, so they go from least to most simplified).
    """
    if case.get("scenario") == "bigtree":
        for n in (150, 101, 60):
            if n < case.get("n", 0):
                yield dict(case, n=n)
        return
    steps = []
    if case.get("feed", "gather") != "gather":
        steps.append(lambda cs: dict(cs, feed="gather"))
    if case.get("umax") is not None:
        steps.append(lambda cs: dict(cs, umax=None))
    steps.append(lambda cs: _compact(cs) or cs)
    for r in range(1, len(steps) + 1):
        for combo in itertools.combinations(steps, r):
            cand = case
            for f in combo:
                cand = f(cand)
            if cand is not case and cand != case:
                yield cand


# --------------------------------------------------------------------------- execution
def execute_big(case: dict) -> dict:
    """A tree with (many) more tokens than the waiting area holds: its public serialisation reloads to the same tree."""
    from ipv8.attestation.tokentree.tree import TokenTree
    from ipv8.keyvault.crypto import default_eccrypto

    c = Case(case, first_only=False)
    rng = random.Random(f"c16/big/{case['seed']}")
    key = default_eccrypto.generate_key("curve25519")
    src = TokenTree(private_key=key)
    n, kind = case["n"], case["kind"]
    toks: list = []
    for i in range(n):
        if kind == "chain" or not toks:
            after = toks[-1] if toks else None
        elif kind == "deep":
            after = toks[max(0, len(toks) - 1 - rng.randrange(3))]
        else:
            after = rng.choice(toks)
        toks.append(src.add(b"big-%d" % i, after=after))
    blob = src.serialize_public()
    rx = TokenTree(public_key=key.pub())
    try:
        rx.unserialize_public(blob)
    except Exception as e:  # noqa: BLE001
        c.violate("roundtrip", "unserialize_public_raised", f"{type(e).__name__}: {e}")
    want, got = set(src.elements), set(rx.elements)
    if want != got:
        c.violate("roundtrip", "serialize_roundtrip_differs",
                  f"{kind} tree of {n} tokens: the reloaded tree holds {len(got)} of them ({len(rx.unchained)} left waiting)")
    else:
        c.probe("big_tree_roundtrip_ok")
    leaf = toks[-1]
    rx2 = TokenTree(public_key=key.pub())
    rx2.unserialize_public(src.serialize_public(leaf))
    path, cur = set(), leaf          # (walked by hand: get_root_path gives up beyond maxdepth = 1000)
    while cur is not None:
        path.add(cur.get_hash())
        cur = src.elements.get(cur.previous_token_hash)
    if set(rx2.elements) != path:
        c.violate("roundtrip", "serialize_upto_roundtrip_differs",
                  f"{kind} tree of {n} tokens: serialize_public(up_to=leaf) reloads to {len(rx2.elements)} of {len(path)} path tokens")
    if kind == "chain":
        # arrival order, at the edge of the caveat: a chain of (waiting area + 1) tokens can never have more tokens waiting than the
        # area holds, whatever the order - leaf first is the extreme case (everything waits, the root wakes the whole line)
        rx3 = TokenTree(public_key=key.pub())
        line = toks[: rx3.unchained_max_size + 1]
        from ipv8.attestation.tokentree.token import Token
        try:
            for t in reversed(line):
                rx3.gather_token(Token.unserialize(t.get_plaintext_signed(), key.pub()))
        except Exception as e:  # noqa: BLE001
            c.violate("order_independence", "gather_token_raised", f"leaf-first delivery of a chain of {len(line)} tokens: {type(e).__name__}")
        if set(rx3.elements) != {t.get_hash() for t in line}:
            c.violate("order_independence", "order_dependent_elements",
                      f"chain of {len(line)} tokens (waiting area {rx3.unchained_max_size}) delivered leaf first: {len(rx3.elements)} chained, "
                      f"{len(rx3.unchained)} left waiting")
        else:
            c.probe("full_waiting_area_woken_at_once")
    c.nontrivial(f"big/{kind}/{n}")
    c.world.trace.event("c16big", None, (kind, n, len(got)))
    c.sample = {"scenario": "bigtree", "kind": kind, "tokens": n, "reloaded": len(got)}
    return c.result(evaluations=2)


def execute(case: dict) -> dict:  # noqa: C901, PLR0912, PLR0915
    if case.get("scenario") == "bigtree":
        return execute_big(case)
    from ipv8.attestation.tokentree.token import Token
    from ipv8.attestation.tokentree.tree import TokenTree
    from ipv8.keyvault.crypto import default_eccrypto

    c = Case(case, first_only=False)
    # ("very-low" is an ECDSA curve: its signatures are randomised, so the owner signing one statement twice yields two tokens)
    key = default_eccrypto.generate_key(case.get("curve") or "curve25519")
    fkey = default_eccrypto.generate_key(case.get("curve") or "curve25519")      # (same wire size as the owner's tokens)
    while fkey.pub().key_to_bin() == key.pub().key_to_bin():                      # (the simulator draws ECDSA keys from a small pool)
        fkey = default_eccrypto.generate_key(case.get("curve") or "curve25519")
    pub = key.pub()
    shape = case["shape"]
    order = [list(it) for it in case["order"]]
    feed = case.get("feed", "gather")
    n = len(shape)
    chunk = 64 + pub.get_signature_length()

    # ---- source trees (owner, foreign)
    src = TokenTree(private_key=key)
    genesis = src.genesis_hash
    contents = [b"content-%d" % i for i in range(n)]
    toks: list = []
    for i, p in enumerate(shape):
        after = toks[p] if p >= 0 else None
        toks.append(src.add_by_hash(_sha3(contents[i]), after=after) if i % 2 else src.add(contents[i], after=after))
    wires = [t.get_plaintext_signed() for t in toks]
    hashes = [_sha3(w) for w in wires]
    if len(src.elements) != n or any(t.get_hash() != h for t, h in zip(toks, hashes)) or \
            genesis != _sha3(pub.key_to_bin()) or any(len(w) != chunk for w in wires):
        c.violate("source", "source_tree_malformed", f"owner tree of shape {shape} has {len(src.elements)} elements / "
                                                     f"unexpected hashes or wire size")
    ftree = TokenTree(private_key=fkey)
    fown: list = []

    def flip(w: bytes, bit: int) -> bytes:
        bit %= len(w) * 8
        b = bytearray(w)
        b[bit // 8] ^= 1 << (bit % 8)
        return bytes(b)

    def foreign_wire(i: int, kind: str) -> bytes:
        if kind == "sib":
            return Token(wires[i][:32], content=b"foreign-sib-%d" % i, private_key=fkey).get_plaintext_signed()
        if kind == "child":
            return Token.create(toks[i], b"foreign-child-%d" % i, fkey).get_plaintext_signed()
        while len(fown) <= i:
            fown.append(ftree.add(b"foreign-own-%d" % len(fown), after=fown[-1] if fown else None))
        return fown[i].get_plaintext_signed()

    dang_cache: dict = {}
    twin_cache: dict = {}

    def dangling_wire(j: int) -> bytes:
        if j not in dang_cache:
            if j == 1:
                prev = _sha3(dangling_wire(0))
            elif j == 2:
                prev = _sha3(flip(wires[0], FORGE_BIT))
            elif j == 3:
                prev = _sha3(foreign_wire(0, "sib"))
            else:
                prev = _sha3(b"nowhere-%d" % j)
            dang_cache[j] = Token(prev, content=b"dangling-%d" % j, private_key=key).get_plaintext_signed()
        return dang_cache[j]

    def garbage_blob(g: int) -> tuple:
        """-> (bytes, [(wire, valid, kind, label) for every complete chunk])."""
        rng = random.Random(f"c16/garbage/{g}")
        kind = g % 4
        if kind == 0:
            blob = rng.randbytes(rng.choice([0, 1, 31, 63, 64, 65, 127, 129, 200, 255, 257, 700]))
        elif kind == 1:
            blob = wires[(g // 4) % n][:(g * 37) % chunk]
        elif kind == 2:
            blob = rng.randbytes(chunk * rng.choice([1, 2, 3, 5]))
        else:
            blob = wires[(g // 4) % n] + rng.randbytes(rng.randrange(1, chunk))
        offered = []
        for o in range(0, len(blob) - chunk + 1, chunk):
            w = blob[o:o + chunk]
            if kind == 3 and o == 0:
                offered.append((w, True, "tok", f"tok{(g // 4) % n}"))
            else:
                offered.append((w, False, "garbage", f"garbage{g}.{o // chunk}"))
        return blob, offered

    def material(it: list) -> tuple:
        """-> (wire, valid, kind, label)."""
        k = it[0]
        if k in ("tok", "dup", "dupc"):
            return wires[it[1]], True, "tok", f"tok{it[1]}"
        if k == "forged":
            bit = it[2] if len(it) > 2 else FORGE_BIT
            return flip(wires[it[1]], bit), False, "forged", f"forged{it[1]}@{bit}"
        if k == "foreign":
            fk = it[2] if len(it) > 2 else "sib"
            return foreign_wire(it[1], fk), False, "foreign", f"foreign-{fk}{it[1]}"
        if k == "dangling":
            return dangling_wire(it[1]), True, "dangling", f"dangling{it[1]}"
        if k == "twin":
            # the owner issued the statement of token i (same parent, same content pointer) a second time: with randomised
            # signatures a second, equally valid token; with deterministic ones the very same bytes (a duplicate)
            if it[1] not in twin_cache:
                w0 = wires[it[1]]
                twin_cache[it[1]] = Token(w0[:32], content_hash=w0[32:64], private_key=key).get_plaintext_signed()
            w2 = twin_cache[it[1]]
            if w2 != wires[it[1]]:
                c.probe("statement_signed_twice_distinct_tokens")
            return w2, True, "tok", f"twin{it[1]}" if w2 != wires[it[1]] else f"tok{it[1]}"
        raise ValueError(f"unknown schedule item {it!r}")

    # ---- reference model: a pure function of the offered multiset
    valid: dict = {}      # hash -> previous hash        (distinct offered tokens signed by the owner)
    invalid: dict = {}    # hash -> kind                 (forged / foreign / garbage)
    label: dict = {}
    wire_of: dict = {}
    first: dict = {}      # hash -> index of first offer
    first_step: dict = {}  # hash -> number of the arrival step of the first offer
    entered: dict = {}    # hash -> number of the arrival step after which it was first seen in elements
    cur_step = [0]
    count: dict = {}      # hash -> multiplicity
    offers = [0]
    waiting_peak = [0]

    def lab(h: bytes) -> str:
        return label.get(h, "unoffered:" + h.hex()[:10])

    def closure() -> set:
        ch: dict = {}
        for h, p in valid.items():
            ch.setdefault(p, []).append(h)
        out: set = set()
        stack = [genesis]
        while stack:
            for h in ch.get(stack.pop(), ()):
                if h not in out:
                    out.add(h)
                    stack.append(h)
        return out

    def offer(w: bytes, ok: bool, kind: str, lbl: str) -> bytes:
        h = _sha3(w)
        offers[0] += 1
        if h not in first:
            first[h] = offers[0]
            first_step[h] = cur_step[0]
            label[h] = lbl
            wire_of[h] = w
        count[h] = count.get(h, 0) + 1
        if ok:
            if h not in valid:
                valid[h] = w[:32]
                waiting_peak[0] = max(waiting_peak[0], len(valid) - len(closure()))
        else:
            invalid[h] = kind
        return h

    def ref_path(h: bytes) -> list:
        out = [h]
        while valid[out[-1]] != genesis:
            out.append(valid[out[-1]])
        return out

    # ---- receiver under test
    rx = TokenTree(public_key=pub)
    shared = bool(case.get("shared")) and feed == "gather"
    rx2 = TokenTree(public_key=fkey.pub()) if shared else None
    if case.get("umax") is not None:
        rx.unchained_max_size = int(case["umax"])
    bound = rx.unchained_max_size
    fork_lost: set = set()
    st = {"relaxed": False, "content_ok": {}}

    def find_token(tree, h: bytes):  # noqa: ANN001, ANN202
        t = tree.elements.get(h)
        if t is None:
            for u in tree.unchained:
                if u.get_hash() == h:
                    return u
        return t

    def deliver_content(tree, it: list, observe: bool) -> None:  # noqa: ANN001
        i, ok = it[1], bool(it[2])
        t = find_token(tree, hashes[i])
        if t is None:
            if observe:
                c.probe("content_for_unknown_token")
            return
        data = contents[i] if ok else b"wrong-" + contents[i]
        before = t.content
        rv = t.receive_content(data)
        if not observe:
            return
        if ok and rv is True:
            note_attached(hashes[i], contents[i])
        if ok:
            if rv is not True or t.content != contents[i]:
                c.violate("content", "content_right_rejected", f"receive_content(right content) on tok{i} returned {rv!r}, "
                                                               f"content={t.content!r}")
            else:
                c.probe("content_right_attached")
        elif rv is not False or t.content != before:
            c.violate("content", "content_attached_wrong_hash", f"receive_content(wrong content) on tok{i} returned {rv!r}, "
                                                                f"content {before!r} -> {t.content!r}")
        else:
            c.probe("content_wrong_rejected")

    attached: dict = {}     # hash -> content that was accepted for the token the tree holds under that hash
    was_element: set = set()  # ... and that was seen in elements with that content after an earlier arrival step

    def note_attached(h: bytes, data: bytes) -> None:
        t = find_token(rx, h)
        if t is not None and t.content == data:
            attached[h] = data

    def check_attached(when: str) -> None:
        for h, data in list(attached.items()):
            t = find_token(rx, h)
            if t is None:
                del attached[h]        # pushed out of the bounded waiting area: if it is offered again it starts afresh
                was_element.discard(h)
                continue
            if h not in rx.elements or h not in was_element:
                # a WAITING token may be pushed out and offered again (without content) within one arrival step; elements never are
                if t.content != data:
                    del attached[h]
                elif h in rx.elements:
                    was_element.add(h)
                continue
            if t.content != data:
                c.violate("content", "attached_content_lost",
                          f"{when}: {lab(h)} had its content attached (it hashes to the content pointer) and the tree's token now "
                          f"carries {t.content!r}")
                attached[h] = t.content
                return

    def shadow(clo: set) -> set:
        """Tokens of the closure that are a fork-lost token or descend from one."""
        out = set()
        for h in clo:
            x = h
            while x != genesis:
                if x in fork_lost:
                    out.add(h)
                    break
                x = valid[x]
        return out

    def check(step_no: int, what: str) -> None:
        els = rx.elements
        e_set = set(els)
        u_set = {t.get_hash() for t in rx.unchained}
        clo = closure()
        for h in e_set:
            entered.setdefault(h, step_no)
        if len(valid) - len(clo) > bound or waiting_peak[0] > bound:
            if not st["relaxed"]:
                c.probe("waiting_area_overflow")
            st["relaxed"] = True
        for h in sorted(e_set - clo):
            if h in invalid:
                k = {"forged": "forged_token_in_elements", "foreign": "foreign_token_in_elements"}.get(
                    invalid[h], "garbage_added_elements")
            elif h in valid:
                k = "dangling_token_in_elements"
            else:
                k = "unoffered_token_in_elements"
            c.violate("closure", k, f"after arrival #{step_no} ({what}): {lab(h)} is in elements but is not an offered, "
                                    f"owner-signed token connected to genesis; shape={shape} order={order[:24]}")
        for h, t in els.items():
            if t.get_hash() != h or _sha3(t.get_plaintext_signed()) != h:
                c.violate("closure", "element_key_mismatch", f"elements[{h.hex()[:10]}] holds {lab(t.get_hash())}")
        for h in sorted(u_set):
            if h in invalid or h not in valid:
                c.violate("waiting", f"{invalid.get(h, 'unoffered')}_token_in_unchained",
                          f"after arrival #{step_no} ({what}): {lab(h)} sits in the waiting area")
        if len(rx.unchained) > bound:
            c.violate("waiting", "waiting_area_over_bound", f"{len(rx.unchained)} waiting tokens > bound {bound}")
        if st["relaxed"]:
            return
        # completeness: every offered valid token whose ancestors have all arrived is an element (and no longer waits)
        for h in sorted((clo - e_set) | (clo & u_set & e_set), key=lambda x: first[x]):
            par = valid[h]
            if par != genesis and par not in e_set:
                continue            # downstream of another missing token
            absent = h not in e_set
            sibs = [s for s in e_set if s != h and valid.get(s) == par and par in entered and first_step[s] <= entered[par]]
            if par != genesis and sibs and first_step[h] <= entered[par]:
                # h was already waiting when its parent entered the tree, and another waiting child was woken instead
                fork_lost.add(h)
                c.violate("closure", "fork_before_parent_loses_branch",
                          f"after arrival #{step_no} ({what}): {lab(h)} is validly signed and its parent {lab(par)} is in "
                          f"elements, yet it {'is not in elements' if absent else 'was left behind in the waiting area'} "
                          f"while its sibling {lab(min(sibs, key=lambda s: first[s]))} (same parent) was chained: it was "
                          f"waiting when the parent was chained; shape={shape} order={order[:24]} "
                          f"elements={sorted(map(lab, e_set))} unchained={sorted(map(lab, u_set))}")
            elif absent and h not in fork_lost:
                c.violate("closure", "connected_token_missing",
                          f"after arrival #{step_no} ({what}): {lab(h)} (parent "
                          f"{'genesis' if par == genesis else lab(par)} present) is not in elements; shape={shape} "
                          f"order={order[:24]} elements={sorted(map(lab, e_set))} unchained={sorted(map(lab, u_set))}")
        sh = shadow(clo) if fork_lost else set()
        for h in sorted(u_set & clo, key=lambda x: first[x]):
            if h not in sh:
                c.violate("waiting", "unchained_holds_connected_token",
                          f"after arrival #{step_no} ({what}): {lab(h)} is connected to genesis through offered tokens but "
                          f"still waits; shape={shape} order={order[:24]}")
        if not fork_lost:
            for h in sorted(set(valid) - clo - u_set, key=lambda x: first[x]):
                c.violate("waiting", "waiting_token_dropped",
                          f"after arrival #{step_no} ({what}): valid dangling {lab(h)} is neither in elements nor waiting "
                          f"(peak waiting {waiting_peak[0]} <= bound {bound}); shape={shape} order={order[:24]}")

    def clone(w: bytes):  # noqa: ANN202
        return Token.unserialize(w, pub)

    # ---- steps
    steps: list = []
    for it in order:
        if it[0] == "content":
            steps.append(("content", [it]))
        elif feed == "wirebatch" and steps and steps[-1][0] == "wire":
            steps[-1][1].append(it)
        else:
            steps.append(("wire" if feed != "gather" else "gather", [it]))
    if feed != "gather":
        c.probe("wire_feed")

    log: list = []
    for no, (mode, items) in enumerate(steps, 1):
        cur_step[0] = no
        what = "+".join("/".join(map(str, it)) for it in items)[:80]
        if mode == "content":
            deliver_content(rx, items[0], True)
            check(no, what)
            continue
        blob = b""
        outcome = None
        direct = False
        for it in items:
            if it[0] == "garbage":
                gb, offered = garbage_blob(it[1])
                for w, ok, kind, lbl in offered:
                    offer(w, ok, kind, lbl)
                if len(items) > 1:
                    # inside a batch only a whole number of chunks may be followed by more data
                    blob += gb[:len(gb) - len(gb) % chunk]
                    continue
                direct = True
                before = (set(rx.elements), {t.get_hash() for t in rx.unchained})
                try:
                    outcome = rx.unserialize_public(gb)
                except Exception as e:  # noqa: BLE001
                    c.probe("garbage_unserialize_raised")
                    outcome = type(e).__name__
                if it[1] % 4 != 3:
                    after = (set(rx.elements), {t.get_hash() for t in rx.unchained})
                    if after[0] != before[0]:
                        c.violate("garbage", "garbage_added_elements",
                                  f"unserialize_public({len(gb)} garbage bytes) changed elements: "
                                  f"{sorted(map(lab, after[0] ^ before[0]))}")
                    elif after[1] != before[1]:
                        c.violate("garbage", "garbage_added_unchained",
                                  f"unserialize_public({len(gb)} garbage bytes) changed the waiting area")
                    else:
                        c.probe("garbage_ignored")
                continue
            w, ok, kind, lbl = material(it)
            h = offer(w, ok, kind, lbl)
            if mode == "gather":
                if it[0] == "dupc":
                    good = bool(it[2]) if len(it) > 2 else True
                    t = Token.from_database_tuple(w[:32], w[64:], w[32:64], contents[it[1]] if good else b"wrong-" + contents[it[1]])
                    if (t.content is not None) != good:
                        c.violate("content", "content_attached_wrong_hash" if not good else "content_right_rejected",
                                  f"Token.from_database_tuple with {'right' if good else 'wrong'} content -> {t.content!r}")
                else:
                    t = clone(w)
                was_el = h in rx.elements
                if shared and no % 2 == 0:
                    rx2.gather_token(t)           # the other identity's tree sees this very object first
                try:
                    rv = rx.gather_token(t)
                except Exception as e:  # noqa: BLE001
                    c.violate("feed", "gather_token_raised", f"gather_token({lbl}) raised {type(e).__name__}: {e}")
                    rv = None
                if shared and no % 2:
                    rx2.gather_token(t)
                    c.probe("token_object_shared_between_trees")
                outcome = None if rv is None else "tok"
                if not ok and rv is None and h not in rx.elements:
                    c.probe("forged_rejected" if kind == "forged" else "foreign_rejected")
                if ok and was_el and rv is not None and rv is not t:
                    c.probe("duplicate_ignored")
                if it[0] == "dupc" and len(it) > 2 and it[2] and h in rx.elements and rx.elements[h].content == contents[it[1]]:
                    c.probe("content_via_token_attached")
                if it[0] == "dupc" and len(it) > 2 and it[2] and not shared:
                    note_attached(h, contents[it[1]])
            else:
                blob += w
        if mode == "wire" and not direct:
            try:
                outcome = rx.unserialize_public(blob)
            except Exception as e:  # noqa: BLE001
                c.violate("feed", "unserialize_public_raised", f"unserialize_public of {len(blob) // chunk} well-formed chunks "
                                                               f"raised {type(e).__name__}: {e}")
        check(no, what)
        check_attached(f"after arrival #{no} ({what})")
        log.append((what, str(outcome), len(rx.elements), len(rx.unchained)))
        c.world.trace.event("arrive", None, what, f"{outcome}|{len(rx.elements)}|{len(rx.unchained)}")

    # ---- schedule properties (reach / non-triviality)
    tok_first = {i: first[hashes[i]] for i in range(n) if hashes[i] in first}
    early = [i for i in tok_first if shape[i] >= 0 and tok_first[i] < tok_first.get(shape[i], 1 << 60)]
    if len(tok_first) < n:
        c.probe("token_withheld")
    kids: dict = {}
    for i in early:
        if shape[i] in tok_first:
            kids.setdefault(shape[i], []).append(i)
    if any(len(v) >= 2 for v in kids.values()):
        c.probe("fork_children_before_parent")
    if any(shape[i] in early and shape[i] in tok_first and shape[shape[i]] in tok_first for i in early):
        c.probe("chain_reversed")
    if early:
        c.nontrivial(hashlib.sha1(repr((shape, order, feed, case.get("umax"))).encode()).hexdigest()[:20])  # noqa: S324

    # ---- final oracles
    if shared:
        # the second tree belongs to the foreign key: whatever it holds must be signed by that key
        fpub = fkey.pub()
        for h2, t2 in list(rx2.elements.items()) + [(t.get_hash(), t) for t in rx2.unchained]:
            fresh = Token.unserialize(t2.get_plaintext_signed(), fpub)
            if not fresh.verify(fpub):
                c.violate("exact_content", "second_tree_holds_token_of_other_key",
                          f"the tree of the second identity holds {h2.hex()[:12]} which is not signed by its key "
                          f"(the same Token object was offered to the owner's tree)")
    e_final = set(rx.elements)
    u_final = {t.get_hash() for t in rx.unchained}
    clo = closure()
    if not st["relaxed"] and u_final and (set(valid) - clo) and u_final >= (set(valid) - clo):
        c.probe("dangling_kept_unchained")

    # forged / foreign / dangling tokens are not reported as part of the tree; elements are
    rng = c.world.stream("sample")
    in_tree = sorted(clo & e_final, key=lambda x: first[x])
    if len(in_tree) > 10:
        in_tree = rng.sample(in_tree, 10)
    for h in sorted(first, key=lambda x: first[x]):
        if h in clo:
            continue
        t = clone(wire_of[h])
        try:
            ver, path = rx.verify(t), rx.get_root_path(t)
        except Exception as e:  # noqa: BLE001
            c.violate("report", "verify_raised", f"verify/get_root_path({lab(h)}) raised {type(e).__name__}: {e}")
            continue
        if ver or path:
            k = invalid.get(h, "dangling")
            c.violate("report", f"{k}_token_verified", f"{lab(h)} is not part of the tree, yet verify()={ver} "
                                                       f"get_root_path()={[lab(p.get_hash()) for p in path]}; shape={shape} "
                                                       f"order={order[:24]}")
    for h in in_tree:
        want = ref_path(h)
        if not all(x in e_final for x in want):
            continue
        t = clone(wire_of[h])
        try:
            ver, path = rx.verify(t), [p.get_hash() for p in rx.get_root_path(t)]
        except Exception as e:  # noqa: BLE001
            c.violate("report", "verify_raised", f"verify/get_root_path({lab(h)}) raised {type(e).__name__}: {e}")
            continue
        if not ver:
            c.violate("report", "element_not_verified", f"{lab(h)} is an element with a complete root path but verify() is False")
        if path != want:
            c.violate("report", "root_path_wrong", f"get_root_path({lab(h)}) = {list(map(lab, path))}, expected "
                                                   f"{list(map(lab, want))}")

    # content binding
    for t in list(rx.elements.values()) + list(rx.unchained):
        if t.content is not None and _sha3(t.content) != t.content_hash:
            c.violate("content", "content_attached_wrong_hash", f"{lab(t.get_hash())} carries content {t.content!r} that does "
                                                                f"not hash to its content pointer")

    # public serialisation reloads to the same tree
    try:
        data = rx.serialize_public()
        fresh = TokenTree(public_key=pub)
        fresh.unserialize_public(data)
        if set(fresh.elements) != e_final or len(data) != chunk * len(e_final):
            c.violate("roundtrip", "serialize_roundtrip_differs",
                      f"reloaded tree has {sorted(map(lab, set(fresh.elements)))}, receiver has {sorted(map(lab, e_final))}; "
                      f"shape={shape} order={order[:24]}")
        else:
            c.probe("roundtrip_ok")
        upto = sorted(e_final & clo, key=lambda x: first[x])
        if len(upto) > 6:
            upto = rng.sample(upto, 6)
        for h in upto:
            want = set(ref_path(h))
            if not want <= e_final:
                continue
            part = TokenTree(public_key=pub)
            part.unserialize_public(rx.serialize_public(up_to=rx.elements[h]))
            if set(part.elements) != want:
                c.violate("roundtrip", "serialize_upto_roundtrip_differs",
                          f"serialize_public(up_to={lab(h)}) reloads to {sorted(map(lab, set(part.elements)))}, expected the "
                          f"root path {sorted(map(lab, want))}")
            else:
                c.probe("upto_roundtrip_ok")
    except Exception as e:  # noqa: BLE001
        c.violate("roundtrip", "serialize_roundtrip_raised", f"{type(e).__name__}: {e}")
        data = b""

    # order independence: the same multiset, parents first
    if not st["relaxed"]:
        canon = TokenTree(public_key=pub)
        canon.unchained_max_size = bound
        seq: list = []
        done: set = set()
        queue = [genesis]
        ch: dict = {}
        for h, p in valid.items():
            ch.setdefault(p, []).append(h)
        while queue:
            for h in sorted(ch.get(queue.pop(0), ()), key=lambda x: label[x]):
                seq.append(h)
                done.add(h)
                queue.append(h)
        rest = sorted((h for h in first if h not in done), key=lambda x: label[x])
        seq += rest
        seq += [h for h in sorted(first, key=lambda x: label[x]) for _ in range(count[h] - 1)]
        for h in seq:
            canon.gather_token(clone(wire_of[h]))
        e_canon = set(canon.elements)
        u_canon = {t.get_hash() for t in canon.unchained}
        sh = shadow(clo) if fork_lost else set()
        if e_canon != e_final and not (e_canon ^ e_final) <= sh:
            c.violate("order", "order_dependent_elements",
                      f"same multiset, parents-first order gives elements {sorted(map(lab, e_canon))}, this order gives "
                      f"{sorted(map(lab, e_final))}; shape={shape} order={order[:24]}")
        if u_canon != u_final and not (u_canon ^ u_final) <= sh:
            c.violate("order", "order_dependent_unchained",
                      f"same multiset, parents-first order leaves {sorted(map(lab, u_canon))} waiting, this order leaves "
                      f"{sorted(map(lab, u_final))}; shape={shape} order={order[:24]}")

    # arbitrary bytes through unserialize_public add nothing
    grng = c.world.stream("garbage")
    blobs = [grng.randbytes(grng.choice([1, 17, 64, 127, 128, 129, 256, 300, 640])),
             data[:grng.randrange(len(data))] if data else b"\x00",
             b"".join(flip(data[o:o + chunk], grng.randrange(chunk * 8)) for o in range(0, len(data), chunk)),
             wires[0][:grng.randrange(1, chunk)]]
    for gb in blobs:
        try:
            rx.unserialize_public(gb)
        except Exception:  # noqa: BLE001
            c.probe("garbage_unserialize_raised")
        e_now = set(rx.elements)
        u_now = {t.get_hash() for t in rx.unchained}
        if e_now != e_final:
            c.violate("garbage", "garbage_added_elements", f"unserialize_public({len(gb)} garbage/truncated bytes) changed "
                                                           f"elements by {sorted(map(lab, e_now ^ e_final))}")
        elif u_now != u_final:
            c.violate("garbage", "garbage_added_unchained", f"unserialize_public({len(gb)} garbage/truncated bytes) changed "
                                                            f"the waiting area")
        else:
            c.probe("garbage_ignored")

    digest = hashlib.sha256(b"".join(sorted(e_final)) + b"|" + b"".join(sorted(u_final))).hexdigest()[:16]
    c.world.trace.event("final", None, digest, f"{sorted(map(lab, e_final))}|{sorted(map(lab, u_final))}")
    c.sample = {"scenario": case["scenario"], "shape": shape, "order": order[:16], "feed": feed, "umax": case.get("umax"),
                "arrivals": [list(x) for x in log[:16]], "elements": sorted(map(lab, e_final)),
                "unchained": sorted(map(lab, u_final)), "relaxed": st["relaxed"]}
    return c.result()
