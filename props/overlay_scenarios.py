"""
Scripted multi-node protocol runs for every overlay class shipped with ipv8 (used by C01, C03, C11 and in-situ C12).

Each scenario builds N SimNodes carrying the *real* overlay with default settings on the real UDPEndpoint over SimNet
and drives the protocol far enough that every message id the overlay registers is sent at least once.  ``step`` is an
async callback invoked between script steps (C11 unloads there, C03 injects there).
"""
from __future__ import annotations

import asyncio
from binascii import unhexlify
from typing import Any, Callable

from simkit.node import SimNode

BONEH_SK = ("01064c65dcb113f901064228da3ea57101064793a4f9c77901062b083e"
            "8690fb0106408293c67e9f010601d1a9d3744901030f4243")


async def _nop(i: int, what: str) -> None:
    pass


class Scenario:
    name = "?"
    n_nodes = 3
    endpoint_kind = "udp"
    # handler function names that the honest, loss-free script must enter at least once (non-vacuity of C01)
    expect_handlers: tuple = ()

    def overlay_class(self):  # noqa: ANN201
        raise NotImplementedError

    def settings(self, node: SimNode, i: int) -> Any:  # noqa: ANN401
        return None

    async def build(self, c, n: int | None = None) -> list[SimNode]:  # noqa: ANN001
        nodes = []
        cls = self.overlay_class()
        for i in range(n or self.n_nodes):
            node = SimNode(c.world, f"n{i}", f"1.0.0.{i + 1}", ip6=f"fd00::{i + 1}")
            await node.open(self.endpoint_kind)
            node.ov = node.add(cls, self.settings(node, i))
            self.post_build(node, i)
            nodes.append(node)
        return nodes

    def post_build(self, node: SimNode, i: int) -> None:
        pass

    async def introduce(self, nodes: list[SimNode], wait: float = 0.5, rounds: int = 2) -> None:
        for _ in range(rounds):
            for a in nodes:
                for b in nodes:
                    if a is not b:
                        a.call(a.ov.walk_to, b.address)
            await asyncio.sleep(wait)

    async def script(self, c, nodes: list[SimNode], step: Callable = _nop) -> None:  # noqa: ANN001
        await self.introduce(nodes)
        await step(0, "introduced")

    async def teardown(self, nodes: list[SimNode]) -> None:
        for n in nodes:
            if n.name not in n.world.loop.dead:
                await n.stop()


class BaseCommunityScn(Scenario):
    name = "community"
    # "a|b": either spelling counts (which one is used depends on when peers switch to new-style introductions)
    expect_handlers = ("on_old_introduction_request", "on_old_introduction_response", "on_puncture|on_new_puncture",
                       "on_old_puncture_request|on_new_puncture_request", "on_new_introduction_request",
                       "on_new_introduction_response")

    def overlay_class(self):  # noqa: ANN201
        from ipv8.community import Community

        class PlainCommunity(Community):
            community_id = unhexlify("aa" * 20)
        return PlainCommunity

    async def script(self, c, nodes, step=_nop) -> None:  # noqa: ANN001
        a, b, cc = nodes[:3]
        b.call(b.ov.walk_to, a.address)
        cc.call(cc.ov.walk_to, a.address)
        await asyncio.sleep(0.5)
        await step(0, "two walked to a")
        b.call(b.ov.walk_to, a.address)      # a now introduces cc to b and asks cc to puncture
        await asyncio.sleep(0.5)
        await step(1, "introduction + puncture")
        for _ in range(3):
            for n in nodes:
                for addr in n.call(n.ov.get_walkable_addresses):
                    n.call(n.ov.walk_to, addr)
                for p in n.call(n.ov.get_peers):
                    n.call(n.ov.send_introduction_request, p)
            await asyncio.sleep(0.5)
        await step(2, "walked to introduced, old-style rounds")
        # new-style request
        pkt = cc.call(cc.ov.create_introduction_request, b.address, new_style=True)
        cc.call(cc.ov.endpoint.send, b.address, pkt)
        await asyncio.sleep(0.5)
        await step(3, "new style")
        for _ in range(3):
            for n in nodes:
                for p in n.call(n.ov.get_peers):
                    n.call(n.ov.send_introduction_request, p)
            await asyncio.sleep(0.5)
        await step(4, "more rounds")


class BroadcastBootstrapScn(BaseCommunityScn):
    """
    The plain Community with the (non-default) UDPBroadcastBootstrapper configured; every node's walkers ask for a bootstrap twice in
    one tick, as RandomWalk + EdgeWalk scheduled back-to-back by IPv8.on_tick do.
    """

    name = "bcast"
    expect_handlers = ()

    async def script(self, c, nodes, step=_nop) -> None:  # noqa: ANN001
        from ipv8.bootstrapping.udpbroadcast.bootstrapper import UDPBroadcastBootstrapper
        for n in nodes:
            n.ov.bootstrappers.append(n.call(UDPBroadcastBootstrapper))
        for n in nodes:
            n.call(n.ov.bootstrap)
            n.call(n.ov.bootstrap)
        c.probe("bootstrap_requested_twice_in_one_tick")
        await step(0, "two bootstrap requests in one tick")
        await asyncio.sleep(0.5)
        await step(1, "broadcast socket open")
        await super().script(c, nodes, lambda i, what: step(i + 2, what))


class DiscoveryScn(Scenario):
    name = "discovery"
    expect_handlers = ("on_similarity_request", "on_similarity_response", "on_ping", "on_pong",
                       "on_old_introduction_response")

    def overlay_class(self):  # noqa: ANN201
        from ipv8.peerdiscovery.community import DiscoveryCommunity
        return DiscoveryCommunity

    async def script(self, c, nodes, step=_nop) -> None:  # noqa: ANN001
        await self.introduce(nodes, rounds=1)
        await step(0, "introduced (similarity exchanged)")
        for n in nodes:
            for p in n.call(n.ov.get_peers):
                n.call(n.ov.send_ping, p)
        await asyncio.sleep(0.5)
        await step(1, "pinged")
        await self.introduce(nodes, rounds=1)
        await step(2, "second round")


class DHTScn(Scenario):
    name = "dht"
    n_nodes = 4
    expect_handlers = ("on_ping_request", "on_ping_response", "on_store_request", "on_store_response",
                       "on_find_request", "on_find_response")

    def overlay_class(self):  # noqa: ANN201
        from ipv8.dht.community import DHTCommunity
        return DHTCommunity

    async def script(self, c, nodes, step=_nop) -> None:  # noqa: ANN001
        await self.introduce(nodes)
        await step(0, "introduced (pings sent)")
        a, b = nodes[0], nodes[1]
        key = b"\x11" * 20
        try:
            await a.acall(a.ov.store_value, key, b"value-unsigned", False)
            await step(1, "stored unsigned")
            await b.acall(b.ov.store_value, key, b"value-signed", True)
            await step(2, "stored signed")
            vals = await nodes[2].acall(nodes[2].ov.find_values, key)
            c.probe("dht_values_found", len(vals))
            await step(3, "found values")
            await nodes[3].acall(nodes[3].ov.find_nodes, b"\x22" * 20)
        except Exception as e:  # noqa: BLE001
            c.probe("dht_script_exception:" + type(e).__name__)
        await step(4, "found nodes")


class DHTDiscoveryScn(DHTScn):
    name = "dhtdiscovery"
    expect_handlers = (*DHTScn.expect_handlers, "on_store_peer_request", "on_store_peer_response",
                       "on_connect_peer_request", "on_connect_peer_response")

    def overlay_class(self):  # noqa: ANN201
        from ipv8.dht.discovery import DHTDiscoveryCommunity
        return DHTDiscoveryCommunity

    n_nodes = 5

    async def script(self, c, nodes, step=_nop) -> None:  # noqa: ANN001
        late = nodes[4]
        await super().script(c, nodes[:4], step)
        a, b = nodes[0], late
        try:
            await a.acall(a.ov.store_peer)
            await step(5, "stored peer")
            for _ in range(2):
                for n in nodes[1:4]:
                    late.call(late.ov.walk_to, n.address)
                await asyncio.sleep(0.5)
            res = await b.acall(b.ov.connect_peer, a.my_peer.mid)
            c.probe("dht_connect_peer_nodes", len(res))
        except Exception as e:  # noqa: BLE001
            c.probe("dhtdisc_script_exception:" + type(e).__name__)
        await step(6, "connected peer")


def tunnel_settings(cls, i: int, exit_node: bool):  # noqa: ANN001, ANN201
    from ipv8.messaging.anonymization.tunnel import (PEER_FLAG_EXIT_BT, PEER_FLAG_EXIT_IPV8, PEER_FLAG_RELAY,
                                                      PEER_FLAG_SPEED_TEST)
    s = cls.settings_class()
    flags = {PEER_FLAG_RELAY, PEER_FLAG_SPEED_TEST}
    if exit_node:
        flags |= {PEER_FLAG_EXIT_BT, PEER_FLAG_EXIT_IPV8}
    s.peer_flags = flags     # fresh set per node: the class-level default set is shared and mutable
    return s


class TunnelScn(Scenario):
    name = "tunnel"
    n_nodes = 4
    expect_handlers = ("on_destroy",)

    def overlay_class(self):  # noqa: ANN201
        from ipv8.messaging.anonymization.community import TunnelCommunity
        return TunnelCommunity

    def settings(self, node, i):  # noqa: ANN001, ANN201
        return tunnel_settings(self.overlay_class(), i, exit_node=i >= 2)

    async def script(self, c, nodes, step=_nop) -> None:  # noqa: ANN001
        from ipv8.messaging.interfaces.udp.endpoint import UDPv4Address
        await self.introduce(nodes)
        await step(0, "introduced")
        o = nodes[0]
        circ = None
        for _ in range(4):
            circ = o.call(o.ov.create_circuit, 2)
            await asyncio.sleep(2)
            if circ is not None and circ.state == "READY":
                break
        await step(1, "circuit built")
        if circ is not None and circ.state == "READY":
            c.probe("circuit_ready")
            for k in range(3):
                o.call(o.ov.send_data, circ.hop.address, circ.circuit_id, UDPv4Address("9.9.9.9", 99), ("0.0.0.0", 0),
                       b"\x00\x02" + bytes([k]) * 30)
                await asyncio.sleep(0.3)
            await step(2, "data sent")
            await asyncio.sleep(8)       # pings
            await step(3, "pinged")
            o.call(o.ov.remove_circuit, circ.circuit_id, "test", destroy=1)
            await asyncio.sleep(8)
        await step(4, "destroyed")


class ExitRaceScn(TunnelScn):
    """
    remove_tunnel_delay = 0 (a configuration the library's own tests use): a 1-hop circuit ends at the node that will be unloaded; its
    very first data packet (which makes the exit open its outside sockets, two awaited steps) is followed by the unload after
    ``case["gap"]`` virtual seconds plus ``case["iters"]`` loop iterations.
    """

    name = "exitrace"
    n_nodes = 3
    expect_handlers = ()

    def settings(self, node, i):  # noqa: ANN001, ANN201
        st = tunnel_settings(self.overlay_class(), i, exit_node=True)
        st.remove_tunnel_delay = 0
        return st

    async def script(self, c, nodes, step=_nop) -> None:  # noqa: ANN001
        from ipv8.messaging.interfaces.udp.endpoint import UDPv4Address
        from ipv8.peer import Peer
        await self.introduce(nodes)
        await step(0, "introduced")
        case = getattr(c, "case", {})
        x = nodes[case.get("node", 0) % len(nodes)]
        o = next(n for n in nodes if n is not x)
        circ = None
        for _ in range(3):
            circ = o.call(o.ov.create_circuit, 1, required_exit=Peer(x.my_peer.public_key.key_to_bin(), x.address))
            await asyncio.sleep(1.0)
            if circ is not None and circ.state == "READY":
                break
        if circ is None or circ.state != "READY":
            c.probe("exitrace_no_circuit")
            await step(1, "no circuit")
            return
        o.call(o.ov.send_data, circ.hop.address, circ.circuit_id, UDPv4Address("9.9.9.9", 99), ("0.0.0.0", 0), b"d" + b"5:first" + b"e")
        # exactly the one-way latency later the exit starts opening its sockets
        await asyncio.sleep(c.net.lat_min + case.get("gap", 0.0))
        for _ in range(int(case.get("iters", 0))):
            await asyncio.sleep(0)
        c.probe("unload_right_behind_first_data_packet")
        await step(1, "first data packet arriving")
        await asyncio.sleep(2.0)
        await step(2, "later")


class HiddenScn(TunnelScn):
    name = "hidden"

    def overlay_class(self):  # noqa: ANN201
        from ipv8.messaging.anonymization.hidden_services import HiddenTunnelCommunity
        return HiddenTunnelCommunity


class PexScn(BaseCommunityScn):
    name = "pex"

    def overlay_class(self):  # noqa: ANN201
        from ipv8.messaging.anonymization.pex import PexCommunity
        return PexCommunity

    def settings(self, node, i):  # noqa: ANN001, ANN201
        from ipv8.messaging.anonymization.pex import PexSettings
        s = PexSettings()
        s.info_hash = b"\x42" * 20
        return s


class AttestationScn(Scenario):
    name = "attestation"
    n_nodes = 2
    expect_handlers = ("on_request_attestation", "on_attestation_chunk", "on_verify_attestation_request",
                       "on_challenge", "on_challenge_response")

    def overlay_class(self):  # noqa: ANN201
        from ipv8.attestation.wallet.community import AttestationCommunity
        return AttestationCommunity

    def settings(self, node, i):  # noqa: ANN001, ANN201
        from ipv8.attestation.wallet.community import AttestationSettings
        return AttestationSettings(working_directory=":memory:")

    async def script(self, c, nodes, step=_nop) -> None:  # noqa: ANN001
        from ipv8.attestation.wallet.primitives.structs import BonehPrivateKey
        from ipv8.util import succeed
        sk = BonehPrivateKey.unserialize(unhexlify(BONEH_SK))
        await self.introduce(nodes)
        await step(0, "introduced")
        a, b = nodes[0], nodes[1]
        got = {}
        a.call(a.ov.set_attestation_request_callback, lambda peer, name, md: succeed(b"2168897456"))
        a.call(a.ov.set_attestation_request_complete_callback,
               lambda peer, name, h, fmt, p2=None: got.setdefault("hash", h))
        b.call(b.ov.request_attestation, a.ov.my_peer if False else _peer_of(b, a), "MyAttribute", sk)
        await asyncio.sleep(3)
        await step(1, "attestation requested")
        if "hash" in got:
            c.probe("attestation_made")
            done = {}
            a.call(a.ov.verify_attestation_values, b.address, got["hash"], [b"2168897456"],
                   lambda h, vals: done.setdefault("v", vals), "id_metadata")
            await asyncio.sleep(5)
            if "v" in done:
                c.probe("attestation_verified")
        await step(2, "verified")


class SlowAttestationScn(AttestationScn):
    """
    The attesting application takes its time (its attestation_request_callback returns a future that completes seconds later - a
    user clicking "allow"), while the requester repeats its request: several asynchronous handlers of one message type from one
    sender are suspended at the attester at once.
    """

    name = "attest_slow"
    expect_handlers = ("on_request_attestation",)

    async def script(self, c, nodes, step=_nop) -> None:  # noqa: ANN001
        from ipv8.attestation.wallet.primitives.structs import BonehPrivateKey
        sk = BonehPrivateKey.unserialize(unhexlify(BONEH_SK))
        await self.introduce(nodes)
        await step(0, "introduced")
        a, b = nodes[0], nodes[1]
        delay = float(c.case.get("answer_delay", 2.0))
        loop = asyncio.get_event_loop()

        def slow(peer, name, md):  # noqa: ANN001, ANN202
            fut = loop.create_future()
            loop.call_later(delay, lambda: fut.done() or fut.set_result(b"2168897456"))
            c.probe("attestation_callback_pending")
            return fut
        a.call(a.ov.set_attestation_request_callback, slow)
        a.call(a.ov.set_attestation_request_complete_callback, lambda *args: None)
        for k in range(int(c.case.get("repeats", 2))):
            b.call(b.ov.request_attestation, _peer_of(b, a), f"MyAttribute{k % 2}", sk)
            await asyncio.sleep(0.1)
        await asyncio.sleep(0.3)
        await step(1, "requests being handled")
        await asyncio.sleep(delay + 3.0)
        await step(2, "answered")


def _peer_of(me: SimNode, other: SimNode):  # noqa: ANN202
    """The Peer object that ``me`` holds for ``other`` (falls back to a fresh Peer with the right address)."""
    from ipv8.peer import Peer
    p = me.ov.network.get_verified_by_public_key_bin(other.my_peer.public_key.key_to_bin())
    return p or Peer(other.my_peer.public_key.key_to_bin(), other.address)


class IdentityScn(Scenario):
    name = "identity"
    n_nodes = 3
    expect_handlers = ("on_disclosure", "on_attest", "on_request_missing", "on_missing_response")

    def overlay_class(self):  # noqa: ANN201
        from ipv8.attestation.identity.community import IdentityCommunity
        return IdentityCommunity

    def settings(self, node, i):  # noqa: ANN001, ANN201
        from ipv8.attestation.identity.community import IdentitySettings
        from ipv8.attestation.identity.manager import IdentityManager
        return IdentitySettings(identity_manager=node.call(IdentityManager, ":memory:"))

    async def script(self, c, nodes, step=_nop) -> None:  # noqa: ANN001
        await self.introduce(nodes)
        await step(0, "introduced")
        subj, auth = nodes[0], nodes[1]
        h = b"a" * 32
        # a long chain first, so that the disclosure does not fit and missing tokens are requested
        for i in range(39):
            subj.call(subj.ov.self_advertise, h[:-1] + bytes([i]), f"attribute{i}")
        auth.call(auth.ov.add_known_hash, h[:-1] + bytes([39]), "attribute39", subj.my_peer.public_key.key_to_bin())
        subj.call(subj.ov.request_attestation_advertisement, _peer_of(subj, auth), h[:-1] + bytes([39]), "attribute39")
        await asyncio.sleep(2)
        await step(1, "attested (long chain)")
        auth.call(auth.ov.add_known_hash, h[:-1] + b"z", "attrz", subj.my_peer.public_key.key_to_bin(), {"a": "b"})
        subj.call(subj.ov.request_attestation_advertisement, _peer_of(subj, auth), h[:-1] + b"z", "attrz", "id_metadata",
                  {"a": "b"})
        await asyncio.sleep(2)
        await step(2, "attested with metadata")


SCENARIOS = {s.name: s for s in (BaseCommunityScn(), BroadcastBootstrapScn(), ExitRaceScn(), DiscoveryScn(), DHTScn(), DHTDiscoveryScn(), TunnelScn(),
                                 HiddenScn(), PexScn(), AttestationScn(), IdentityScn())}


# ------------------------------------------------------------------------------------------------ multiplexed node
class NodeView:
    """Presents one overlay of a multi-overlay node as ``.ov`` so that the single-overlay scripts can drive it."""

    def __init__(self, node: SimNode, ov) -> None:  # noqa: ANN001
        self.node = node
        self.ov = ov
        self.name = node.name
        self.world = node.world
        self.my_peer = node.my_peer

    @property
    def address(self) -> tuple:
        return self.node.address

    def call(self, fn, *a, **k):  # noqa: ANN001, ANN002, ANN003, ANN201
        return self.node.call(fn, *a, **k)

    def acall(self, fn, *a, **k):  # noqa: ANN001, ANN002, ANN003, ANN201
        return self.node.acall(fn, *a, **k)


class MultiScn(Scenario):
    """
    Several overlays multiplexed on one real UDPEndpoint per node, sharing one Network, the way ipv8_service.IPv8
    loads them: Discovery + DHTDiscovery + HiddenTunnel + Attestation + Identity.
    """

    name = "multi"
    n_nodes = 4
    parts = ("discovery", "dhtdiscovery", "hidden", "attestation", "identity")

    async def build(self, c, n: int | None = None) -> list[SimNode]:  # noqa: ANN001
        nodes = []
        for i in range(n or self.n_nodes):
            node = SimNode(c.world, f"n{i}", f"1.0.0.{i + 1}", ip6=f"fd00::{i + 1}")
            # "tunnel": the endpoint is wrapped in a TunnelEndpoint, as ipv8_service does as soon as one overlay asks for anonymity
            await node.open(getattr(c, "case", {}).get("ep_kind", "udp"))
            node.ovs = {}
            for part in self.parts:
                scn = SCENARIOS[part]
                node.ovs[part] = node.add(scn.overlay_class(), scn.settings(node, i))
            node.ov = node.ovs["discovery"]
            if getattr(c, "case", {}).get("offer_all"):
                # the overlays are (also) registered as plain listeners (Endpoint.add_listener): the endpoint offers every datagram to
                # every one of them, and each overlay's own prefix test is what keeps foreign datagrams out.  (Up to the repair of
                # TunnelEndpoint.remove_listener this is what happened behind a TunnelEndpoint anyway.)
                for ov in node.ovs.values():
                    node.raw_endpoint.add_listener(ov)
            nodes.append(node)
        return nodes

    async def script(self, c, nodes, step=_nop) -> None:  # noqa: ANN001
        k = 0
        for part in self.parts:
            scn = SCENARIOS[part]
            views = [NodeView(n, n.ovs[part]) for n in nodes]
            if part == "dhtdiscovery":
                # the late-joiner trick of the stand-alone script needs a 5th node; reuse the 4-node DHT script
                await DHTScn.script(scn, c, views[:4], step)
            else:
                await scn.script(c, views[:scn.n_nodes], step)
            k += 1
            await step(100 + k, f"part {part} done")


SCENARIOS["multi"] = MultiScn()
SCENARIOS["attest_slow"] = SlowAttestationScn()


# ------------------------------------------------------------------------------------------------ full ipv8_service.IPv8
class ServiceScn(Scenario):
    """
    Unmodified ``ipv8_service.IPv8`` instances with the DEFAULT configuration of ``ConfigBuilder`` (DiscoveryCommunity +
    HiddenTunnelCommunity (build_tunnels(1) on start) + DHTDiscoveryCommunity, RandomWalk / RandomChurn / PeriodicSimilarity /
    PingChurn strategies ticked by IPv8's own ticker, DispersyBootstrapper pointed at node 0), on DispatcherEndpoint over SimNet.
    """

    name = "service"
    n_nodes = 5

    async def build(self, c, n: int | None = None) -> list[SimNode]:  # noqa: ANN001
        from ipv8.configuration import ConfigBuilder
        from ipv8_service import IPv8
        nodes = []
        for i in range(n or self.n_nodes):
            node = SimNode(c.world, f"n{i}", f"1.0.0.{i + 1}", ip6=f"fd00::{i + 1}")
            cfg = ConfigBuilder().finalize()
            cfg["logger"] = {"level": "CRITICAL"}
            cfg["keys"][0]["file"] = None
            if c.case.get("walk_interval"):
                # a tuning knob of the service: with an interval of at least one second per strategy the ticker spreads the
                # strategies' steps over the interval, i.e. it suspends BETWEEN two strategies of one tick
                cfg["walker_interval"] = float(c.case["walk_interval"])
            for o in cfg["overlays"]:
                for bs in o["bootstrappers"]:
                    bs["init"] = {"ip_addresses": [("1.0.0.1", 8090)], "dns_addresses": [], "bootstrap_timeout": 30.0}
                if o["class"] == "HiddenTunnelCommunity":
                    o["initialize"] = dict(o["initialize"])
                    o["initialize"]["peer_flags"] = {1, 2, 4, 8} if i in (1, 2) else {1, 8}
            node.ipv8 = node.call(IPv8, cfg)
            await node.acall(node.ipv8.start)
            node.endpoint = node.ipv8.endpoint
            node.raw_endpoint = node.ipv8.endpoint.interfaces["UDPIPv4"]
            node.port = node.raw_endpoint.get_address()[1]
            node.my_peer = node.ipv8.keys["anonymous id"]
            node.network = node.ipv8.network
            node.overlays = node.ipv8.overlays
            node.ovs = {type(o).__name__: o for o in node.ipv8.overlays}
            node.ov = node.ipv8.overlays[0]
            node.unload_overlay = node.ipv8.unload_overlay
            nodes.append(node)
        return nodes

    async def script(self, c, nodes, step=_nop) -> None:  # noqa: ANN001
        for k in range(6):
            await asyncio.sleep(10.0)
            await step(k, f"t={10 * (k + 1)}s of default IPv8 operation")

    async def teardown(self, nodes) -> None:  # noqa: ANN001
        for n in nodes:
            if n.name not in n.world.loop.dead:
                await n.acall(n.ipv8.stop)


SCENARIOS["service"] = ServiceScn()


class DHTCrawlScn(DHTScn):
    """
    A DHT lookup in progress towards mostly unreachable nodes: node 0 knows 8 nodes, 6 of which go offline; its application
    then runs find_nodes(), which keeps MAX_CRAWL_TASKS requests outstanding and more candidates to contact.
    """

    name = "dhtcrawl"
    n_nodes = 9
    expect_handlers = ()

    async def script(self, c, nodes, step=_nop) -> None:  # noqa: ANN001
        await self.introduce(nodes)
        await step(0, "introduced")
        for n in nodes[3:]:
            n.crash()
        a = nodes[0]
        await step(1, "six of eight known nodes went offline")
        try:
            await a.acall(a.ov.find_nodes, b"\x33" * 20)
        except Exception as e:  # noqa: BLE001
            c.probe("dhtcrawl_exception:" + type(e).__name__)
        await step(2, "crawl finished")


SCENARIOS["dhtcrawl"] = DHTCrawlScn()
