"""
C06 - an exit node never emits traffic its exit policy forbids.

One real exit node per flag set at the end of real 1-2 hop circuits on SimNet, with *real* TunnelExitSocket transports
(simulated sockets, not the mock used by the repository's tests).  The originator pushes a sweep of payloads through
the circuit towards IPv4 / IPv6 / domain / null destinations, the outside world pushes the same sweep at the exit's
outside sockets, and a colluding sender that knows the exit-side circuit id and the exit layer's key sends a correctly
encrypted data cell straight to the exit from a foreign IP.  The oracle is an independent classifier written from the
property statement, applied to everything the simulated network sees leaving the exit.
"""
from __future__ import annotations

import asyncio
import itertools
import random
import struct

from simkit.scenario import Case

from .tunnel_lib import TunnelWorld, cell_parts

PROPERTY = "C06"
LEVEL = "exploration"
BUDGET = {"quick": 35, "thorough": 600}
CHUNK = 2
CASE_WALL = {"quick": 180, "thorough": 900}
ENUMERATED = {"quick": False, "thorough": False}
SHRINK_FIELDS = ()
RULE = ("case = (exit flag set: 4 subsets of {EXIT_BT, EXIT_IPV8} x with/without RELAY, hop count 1..2, destination kinds, "
        "payload plan, seed). Plans: 'sweep2' = all 256 second bytes for a block of first bytes (thorough covers all 65536 "
        "two-byte heads per flag set), 'grid' = action words at offsets 0 and 8 around the 0..3 boundary x lengths 0..64, "
        "uTP type/version/extension nibbles, d..e framing, IPv8 heads 00 01/02 with lengths around 23 and the tunnel "
        "overlay's own prefix, 'sample' = seeded payloads; explicit 'payloads' lists when replayed. Every payload goes out "
        "through the circuit, and comes back from the outside towards the exit's sockets. Non-trivial = payload that "
        "reached the exit's policy gate; distinct by (flag set, direction, classifier verdicts (bt, ipv8, own prefix), "
        "length bucket, destination kind).")
COMPONENTS = {"real": ["TunnelExitSocket (enable, sendto, datagram_received, is_allowed, resolve, queue)", "DataChecker",
                       "TunnelCommunity.on_data / exit_data", "PythonCryptoEndpoint", "circuit construction"],
              "stub": ["UDP/IP (SimNet) incl. IPv6 hosts", "DNS (seeded latency / failure)", "outside servers", "wall clock"]}
ASSUMPTIONS = ["'BitTorrent-shaped' and 'IPv8-shaped' are read from the property statement / protocol documents: uTP header "
               "rule, UDP tracker action rule, bencoded dictionary; IPv8 = at least 23 bytes starting 00 01 or 00 02",
               "once the outside socket is open, data cells from other IPs that carry the right keys are not restricted by the "
               "statement (only the *opening* is)"]
REACH = ["emitted_allowed", "blocked_forbidden_outbound", "blocked_forbidden_inbound", "inbound_tunnelled_allowed",
         "null_destination_dropped", "domain_resolved", "domain_failed", "ipv6_emitted", "colluder_refused", "queued_before_open", "null_destination_as_host_name", "reentry_through_own_circuit", "lookalike_twins_back_to_back", "previous_hop_known_under_another_address", "outside_socket_open_failed", "colluder_refused_after_failed_open", "exit_flags_changed_at_run_time", "circuit_idle_for_more_than_unstable_timeout",
         "flagset:0", "flagset:bt", "flagset:ipv8", "flagset:bt+ipv8"]

BT, IPV8F, RELAY, SPEED = 2, 4, 1, 8


# ------------------------------------------------------------------ independent classifier (from the statement)
def is_utp(d: bytes) -> bool:
    return len(d) >= 20 and (d[0] >> 4) <= 4 and (d[0] & 15) == 1 and d[1] <= 3


def is_tracker(d: bytes) -> bool:
    return (len(d) >= 8 and struct.unpack_from("!I", d, 0)[0] <= 3) or (len(d) >= 12 and struct.unpack_from("!I", d, 8)[0] <= 3)


def is_bdict(d: bytes) -> bool:
    return len(d) > 1 and d[:1] == b"d" and d[-1:] == b"e"


def is_bt(d: bytes) -> bool:
    return is_utp(d) or is_tracker(d) or is_bdict(d)


def is_ipv8(d: bytes) -> bool:
    return len(d) >= 23 and d[0] == 0 and d[1] in (1, 2)


def allowed(flags: set, d: bytes, own_prefix: bytes) -> bool:
    return (is_bt(d) and BT in flags) or (is_ipv8(d) and IPV8F in flags) or (is_ipv8(d) and d[:22] == own_prefix)


FLAGSETS = [(), (BT,), (IPV8F,), (BT, IPV8F)]


def grid_payloads(rng: random.Random, own_prefix: bytes) -> list:
    out = []
    for v in (0, 1, 2, 3, 4, 5, 0x100, 0xffffffff):
        for ln in (0, 4, 7, 8, 9, 11, 12, 13, 19, 20, 21, 22, 23, 24, 64):
            for off in (0, 8):
                b = bytearray(rng.randbytes(ln))
                if ln >= off + 4:
                    b[0:1] = b"\x7f"            # make the other rules miss
                    b[off:off + 4] = struct.pack("!I", v)
                    if off == 8:
                        b[0:4] = b"\x7f\x7f\x7f\x7f"
                out.append(bytes(b))
    for typ in range(7):
        for ver in (0, 1, 2):
            for ext in (0, 3, 4, 255):
                for ln in (19, 20, 21, 40):
                    b = bytearray(rng.randbytes(ln))
                    b[0] = (typ << 4) | ver
                    if ln > 1:
                        b[1] = ext
                    out.append(bytes(b))
    for body in (b"", b"x", b"1:a1:b", rng.randbytes(30)):
        out += [b"d" + body + b"e", b"d" + body, body + b"e", b"d" + body + b"e\n", b"D" + body + b"e", b"de"[:1], b"de"]
    for head in (b"\x00\x01", b"\x00\x02", b"\x00\x03", b"\x00\x00", b"\x01\x02", b"\x00"):
        for ln in (2, 21, 22, 23, 24, 60):
            out.append((head + b"\x99" * ln)[:ln] if ln >= len(head) else head[:ln])
    for ln in (22, 23, 40):
        out.append((own_prefix + b"\x01" + rng.randbytes(40))[:ln])
        out.append((own_prefix[:21] + b"\xee" + b"\x01" + rng.randbytes(40))[:ln])
    return out


def cases(tier: str, base_seed: int):  # noqa: ANN201
    n = 0
    for relay in (True, False):
        for fs in range(4):
            for hops in (1, 2):
                n += 1
                yield {"seed": base_seed + n, "knobs": {}, "flagset": fs, "relay": relay, "hops": hops, "plan": {"mode": "grid"}}
    blocks = range(0, 256, 16) if tier == "thorough" else ()
    for fs in range(4):
        for b0 in blocks:
            n += 1
            yield {"seed": base_seed + n, "knobs": {}, "flagset": fs, "relay": True, "hops": 1,
                   "plan": {"mode": "sweep2", "lo": b0, "hi": b0 + 16}}
    if tier == "quick":
        for fs in range(4):
            n += 1
            yield {"seed": base_seed + n, "knobs": {}, "flagset": fs, "relay": True, "hops": 1,
                   "plan": {"mode": "sweep2", "lo": 0, "hi": 6}}      # 0x00..0x05 heads: tracker / IPv8 / uTP-type-0 region
    for fs in range(4):
        for hops in (1, 2):
            n += 1
            yield {"seed": base_seed + n, "knobs": {}, "flagset": fs, "relay": True, "hops": hops, "plan": {"mode": "grid"},
                   "open_fails": 1 + (fs + hops) % 2}
    for fs in (1, 2, 3):
        for new_fs in range(4):
            if new_fs != fs:
                n += 1
                yield {"seed": base_seed + n, "knobs": {}, "flagset": fs, "relay": True, "hops": 1 + (fs + new_fs) % 2,
                       "plan": {"mode": "sample", "n": 20}, "reflag": new_fs}
    for fs in (1, 3):
        for hops in (1, 2):
            n += 1
            yield {"seed": base_seed + n, "knobs": {}, "flagset": fs, "relay": True, "hops": hops, "plan": {"mode": "sample", "n": 20},
                   "idle_first": True}
    for i in itertools.count():
        seed = base_seed + 5000 + i
        rng = random.Random(f"c06/{seed}")
        yield {"seed": seed, "flagset": rng.randrange(4), "relay": rng.random() < 0.7, "hops": rng.choice([1, 2]),
               "knobs": {"lat_jit": rng.choice([0.0, 0.02]), "dup": rng.choice([0.0, 0.05]), "dns_latency": (0.001, rng.choice([0.05, 3.0]))},
               "plan": {"mode": "sample", "n": rng.choice([50, 200, 600])}, "open_fails": rng.choice([0, 0, 0, 0, 1, 2]),
               "reflag": rng.choice([None, None, None, 0, 1, 2, 3]), "idle_first": rng.random() < 0.1}


def execute(case: dict) -> dict:  # noqa: C901, PLR0915
    from ipv8.messaging.interfaces.udp.endpoint import DomainAddress, UDPv4Address, UDPv6Address

    c = Case(case, net=True, first_only=False)
    world, net = c.world, c.net
    rng = world.stream("c06")
    fs = set(FLAGSETS[case["flagset"]])
    flags = set(fs) | ({RELAY} if case["relay"] else set()) | {SPEED}
    hops = case["hops"]
    world.probe("flagset:" + ("+".join(n for n, f in (("bt", BT), ("ipv8", IPV8F)) if f in fs) or "0"))
    # nodes: 0 originator, 1 relay, 2 exit under test, 3 colluder (plain node), 4 a second exit (for a circuit the node under test builds
    # for itself)
    tw = TunnelWorld(c, n=5, exits=(), flags={0: {RELAY, SPEED}, 1: {RELAY, SPEED}, 2: flags, 3: {SPEED}, 4: {RELAY, BT, IPV8F, SPEED}})
    st: dict = {}

    async def main() -> None:  # noqa: C901, PLR0912, PLR0915
        await tw.build()
        await tw.introduce()
        o, r, x, col, y = tw.nodes
        own_prefix = x.ov.get_prefix()
        st["own_prefix"] = own_prefix
        w4 = tw.add_outside("w4", "9.9.9.9", 7000, ip6="2001:db8::9")
        w4.reply = None
        world.dns["tracker.example"] = "9.9.9.9"
        world.dns_fail.add("nowhere.example")
        xpeer = next((p for p in o.ov.get_peers() if p.public_key.key_to_bin() == x.my_peer.public_key.key_to_bin()), None)
        if xpeer is None:
            world.probe("exit_not_known")
            return
        # the previous hop of the circuit-to-be is known to the exit from ANOTHER address as well (it roamed / is multi-homed): one of its
        # genuine signed overlay messages reaches the exit from there.  The create itself will come from its present address.
        prev = r if hops == 2 else o
        old_addr = ("1.0.0.77", 8090)
        olds = [p for p in tw.wire if p.src_node == prev.name and p.dst == x.address and len(p.data) > 23 and p.data[22] != 0
                and p.data[:22] == own_prefix]
        if olds and case.get("roamed", True):
            net.inject(old_addr, x.address, olds[-1].data, label="roamed_signed")
            await asyncio.sleep(0.3)
            world.probe("previous_hop_known_under_another_address")
        circ = await tw.build_circuit(o, hops, required_exit=xpeer, tries=3)
        if circ is None:
            # an exit without any flag that makes it joinable simply refuses: nothing can be emitted
            world.probe("circuit_refused")
            return
        st["circ"] = circ
        plan = case["plan"]
        if case.get("open_fails"):
            # --- fault: the operating system refuses the outside sockets (EMFILE) when the previous hop's first data enables them;
            # afterwards a correctly encrypted cell for the circuit arrives from ANOTHER address: it must not (re)open them
            from simkit.core import NODE
            exit_cid = circ.circuit_id
            if hops == 2:
                rel = r.ov.relay_from_to.get(circ.circuit_id)
                exit_cid = rel.circuit_id if rel is not None else None
            left = {"n": int(case["open_fails"])}
            orig_cde = net.create_datagram_endpoint

            def failing(factory, local_addr, sock, _o=orig_cde):  # noqa: ANN001, ANN202
                if NODE.get() == x.name and left["n"] > 0:
                    left["n"] -= 1
                    world.fault("socket_open_emfile")
                    raise OSError(24, "Too many open files")
                return _o(factory, local_addr, sock)
            net.create_datagram_endpoint = failing
            ok_payloads = [p for p in (b"d" + b"6:canary" + b"e", b"\x00\x02" + b"\x77" * 30) if allowed(fs, p, own_prefix)]
            st["payloads"] = []
            for p in ok_payloads:
                o.call(o.ov.send_data, circ.hop.address, circ.circuit_id, UDPv4Address("9.9.9.9", 7000), ("0.0.0.0", 0), p)
            await asyncio.sleep(1.0)
            es = x.ov.exit_sockets.get(exit_cid) if exit_cid is not None else None
            if es is not None and ok_payloads and world.faults.get("socket_open_emfile"):
                world.probe("outside_socket_open_failed")
                from ipv8.messaging.serialization import Serializer
                ser = Serializer()
                n_before = len([t for t in net.all_transports if t.owner == x.name and t.port != x.port])
                for k, p in enumerate(ok_payloads * 2):
                    plain = b"\x01" + ser.pack("address", ("9.9.9.9", 7000)) + ser.pack("address", ("0.0.0.0", 0)) + p
                    body = circ.hops[-1].keys.encrypt_str(plain, 0)
                    net.inject(col.address, x.address, own_prefix + b"\x00" + exit_cid.to_bytes(4, "big") + b"\x00\x00" + body,
                               delay=0.001 + 0.3 * k, label="colluder")
                await asyncio.sleep(2.5)
                opened = [t for t in net.all_transports if t.owner == x.name and t.port != x.port]
                if len(opened) > n_before:
                    c.violate("open_only_by_previous_hop", "outside_socket_opened_by_foreign_ip",
                              f"the outside sockets could not be opened when the previous hop's data arrived (EMFILE); {len(opened) - n_before} "
                              f"were opened later by a data cell from {col.address} (previous hop is {prev.address})")
                else:
                    world.probe("colluder_refused_after_failed_open")
            net.create_datagram_endpoint = orig_cde
            return
        if "payloads" in case:
            payloads = [bytes.fromhex(p) for p in case["payloads"]]
        elif plan["mode"] == "grid":
            payloads = grid_payloads(rng, own_prefix)
        elif plan["mode"] == "sweep2":
            payloads = []
            for b0 in range(plan["lo"], plan["hi"]):
                for b1 in range(256):
                    ln = rng.choice([2, 8, 12, 20, 23, 40])
                    payloads.append(bytes([b0, b1]) + rng.randbytes(ln - 2))
        else:
            payloads = []
            g = grid_payloads(rng, own_prefix)
            for _ in range(plan["n"]):
                if rng.random() < 0.5:
                    payloads.append(rng.choice(g))
                else:
                    ln = rng.choice([rng.randrange(0, 65), rng.randrange(65, 1300)])
                    b = bytearray(rng.randbytes(ln))
                    if ln >= 2 and rng.random() < 0.6:
                        b[0] = rng.choice([0, 0, 1, 0x11, 0x21, 0x41, 0x51, 100])
                        b[1] = rng.choice([0, 1, 2, 3, 4])
                    payloads.append(bytes(b))
        st["payloads"] = payloads
        st["canaries_pre"] = [b"d" + b"7:nullhst" + b"e", b"\x00\x02" + b"\x66" * 30]
        dests = [UDPv4Address("9.9.9.9", 7000), UDPv6Address("2001:db8::9", 7000), DomainAddress("tracker.example", 7000),
                 DomainAddress("nowhere.example", 7000), ("0.0.0.0", 0)]
        if case.get("idle_first"):
            # the circuit stays idle (keep-alive pings only) for longer than the exit's unstable_timeout (60 s) before anything is sent:
            # no timer may open the outside socket either
            await asyncio.sleep(66.0)
            world.probe("circuit_idle_for_more_than_unstable_timeout")
            es_i = next(iter(x.ov.exit_sockets.values()), None)
            opened_i = [t for t in net.all_transports if t.owner == x.name and t.port != x.port and not t.closed]
            if (es_i is not None and es_i.enabled) or opened_i:
                c.violate("open_only_by_previous_hop", "outside_socket_opened_without_data",
                          f"exit socket enabled={es_i.enabled if es_i else None}, transports={len(opened_i)} after 66 s without any data on the circuit")
        # --- colluder first: the outside socket must not be opened by data from a foreign IP
        exit_cid = circ.circuit_id
        if hops == 2:
            rel = r.ov.relay_from_to.get(circ.circuit_id)
            exit_cid = rel.circuit_id if rel is not None else None
        good = b"d" + b"colluder" + b"e"
        if exit_cid is not None and olds and case.get("roamed", True):
            # a correctly encrypted data cell arriving from that OTHER address must not open the outside socket
            from ipv8.messaging.serialization import Serializer
            ser0 = Serializer()
            plain0 = b"\x01" + ser0.pack("address", ("9.9.9.9", 7000)) + ser0.pack("address", ("0.0.0.0", 0)) + b"d" + b"6:roamer" + b"e"
            body0 = circ.hops[-1].keys.encrypt_str(plain0, 0)
            net.inject(old_addr, x.address, own_prefix + b"\x00" + exit_cid.to_bytes(4, "big") + b"\x00\x00" + body0, label="roamer")
            await asyncio.sleep(1.0)
            es0 = x.ov.exit_sockets.get(exit_cid)
            opened0 = [t for t in net.all_transports if t.owner == x.name and t.port != x.port and not t.closed]
            if (es0 is not None and es0.enabled) or opened0:
                c.violate("open_only_by_previous_hop", "outside_socket_opened_by_foreign_ip",
                          f"exit socket enabled={es0.enabled if es0 else None}, transports={len(opened0)} after a data cell from {old_addr}, an "
                          f"address the previous hop was once seen at; the create came from {prev.address}")
        if exit_cid is not None and hops == 2:
            from ipv8.messaging.serialization import Serializer
            ser = Serializer()
            plain = b"\x01" + ser.pack("address", ("9.9.9.9", 7000)) + ser.pack("address", ("0.0.0.0", 0)) + good
            body = circ.hops[-1].keys.encrypt_str(plain, 0)
            cell = own_prefix + b"\x00" + exit_cid.to_bytes(4, "big") + b"\x00\x00" + body
            net.inject(col.address, x.address, cell, label="colluder")
            await asyncio.sleep(1.0)
            es = x.ov.exit_sockets.get(exit_cid)
            opened = [t for t in net.all_transports if t.owner == x.name and t.port != x.port]
            if (es is not None and es.enabled) or opened:
                c.violate("open_only_by_previous_hop", "outside_socket_opened_by_foreign_ip",
                          f"exit socket enabled={es.enabled if es else None}, transports={len(opened)} after a data cell from "
                          f"{col.address} (previous hop is {r.address})")
            else:
                world.probe("colluder_refused")
        # --- re-entry: the node under test is also the ORIGINATOR of a circuit of its own (through the second exit).  An outside host
        # answers into that circuit with a datagram that looks like a data message of the tunnel overlay, naming the id of the circuit
        # the node is EXIT for (whose outside socket nobody has opened yet): it does not come from that circuit's previous hop
        ypeer = next((p for p in x.ov.get_peers() if p.public_key.key_to_bin() == y.my_peer.public_key.key_to_bin()), None)
        if exit_cid is not None and ypeer is not None and case.get("reentry", True):
            from ipv8.messaging.serialization import Serializer
            ser2 = Serializer()
            circ_c = await tw.build_circuit(x, 1, required_exit=ypeer, tries=2)
            if circ_c is not None:
                w5 = tw.add_outside("w5", "9.9.8.8", 7001)
                w5.reply = None
                x.call(x.ov.send_data, circ_c.hop.address, circ_c.circuit_id, UDPv4Address("9.9.8.8", 7001), ("0.0.0.0", 0),
                       b"d" + b"4:open" + b"e")
                await asyncio.sleep(1.0)
                nested = own_prefix + b"\x01" + exit_cid.to_bytes(4, "big") + ser2.pack("address", ("9.9.9.9", 7000)) + \
                    ser2.pack("address", ("0.0.0.0", 0)) + b"d" + b"7:reentry" + b"e"
                for src in sorted({s5 for _t, _d, s5 in w5.received}):
                    w5.transport.sendto(nested, src)
                    world.probe("reentry_through_own_circuit")
                await asyncio.sleep(1.5)
                es = x.ov.exit_sockets.get(exit_cid)
                opened = [t for t in net.all_transports if t.owner == x.name and t.port != x.port and not t.closed]
                if (es is not None and es.enabled) or opened:
                    c.violate("open_only_by_previous_hop", "outside_socket_opened_by_foreign_ip",
                              f"exit socket enabled={es.enabled if es else None}, transports={len(opened)} after a data message that "
                              f"re-entered through the node's own circuit from an outside host (previous hop is {r.address if hops == 2 else o.address})")
                x.call(x.ov.remove_circuit, circ_c.circuit_id, "c06 re-entry done", destroy=1)
        # --- outbound sweep (first burst lands while the transports are still being created: queue of 10)
        k = 0
        for p in payloads:
            k += 1
            dest = dests[k % len(dests)] if k % 3 == 0 else dests[0]
            o.call(o.ov.send_data, circ.hop.address, circ.circuit_id, dest, ("0.0.0.0", 0), p)
            if k == 12:
                world.probe("queued_before_open")
                await asyncio.sleep(0.5)
            elif k % 25 == 0:
                await asyncio.sleep(0.02)
        await asyncio.sleep(4.0)
        # --- destinations the library's own packer would never produce: the null address spelt as a HOST NAME ("0.0.0.0", port 0), and an
        # ordinary host name with port 0.  Hand-made data cells, correctly encrypted for the circuit.
        from ipv8.messaging.anonymization.payload import CellPayload
        ce = o.ov.crypto_endpoint
        for host in (b"0.0.0.0", b"tracker.example"):
            for p in st["canaries_pre"]:
                dest = b"\x02" + len(host).to_bytes(2, "big") + host + (0).to_bytes(2, "big")
                org = b"\x01" + bytes(6)
                cellp = CellPayload(circ.circuit_id, b"\x01" + dest + org + p, False, False)
                ce.encrypt_cell(cellp, 0, *circ.hops)
                o.call(ce.endpoint.send, circ.hop.address, cellp.to_bin(ce.prefix))
                world.probe("null_destination_as_host_name")
        await asyncio.sleep(2.0)
        # canaries for non-vacuity: one plainly BitTorrent-shaped and one plainly IPv8-shaped payload to the IPv4 server
        st["canaries"] = [b"d" + b"6:canary" + b"e", b"\x00\x02" + b"\x77" * 30]
        for p in st["canaries"]:
            o.call(o.ov.send_data, circ.hop.address, circ.circuit_id, dests[0], ("0.0.0.0", 0), p)
        await asyncio.sleep(1.0)
        # --- look-alike twins, back to back: an allowed packet directly followed by a forbidden one with the same first 23 bytes and the
        # same length (a bencoded query and the same bytes with a broken end; a tracker connect and the same header with another action)
        twins = []
        q = b"d1:ad2:id20:" + bytes(range(65, 85)) + b"e1:q4:ping1:t2:aa1:y1:qe"
        twins.append((q, q[:-1] + b"x"))
        q2 = b"d1:rd2:id20:" + bytes(range(97, 117)) + b"e1:t2:bb1:y1:re"
        twins.append((q2, q2[:-2] + b"zz"))
        st["twins"] = twins
        for good_p, bad_p in twins:
            for _ in range(2):
                o.call(o.ov.send_data, circ.hop.address, circ.circuit_id, dests[0], ("0.0.0.0", 0), good_p)
                o.call(o.ov.send_data, circ.hop.address, circ.circuit_id, dests[0], ("0.0.0.0", 0), bad_p)
            world.probe("lookalike_twins_back_to_back")
        await asyncio.sleep(1.0)
        # --- inbound sweep: the outside world talks to whatever sockets the exit has open
        outs = [t for t in net.all_transports if t.owner == x.name and t.port != x.port and not t.closed]
        st["exit_ports"] = {t.port for t in outs}
        k = 0
        for t in outs:
            for p in [x for pair in st["twins"] for x in (pair[0], pair[1], pair[0], pair[1])] + payloads:
                k += 1
                if t.family == 10 or ":" in str(t.addr[0]):
                    net.inject(("2001:db8::9", 7000), t.addr, p, delay=0.001 + k * 1e-5, label="outside")
                else:
                    net.inject(("9.9.9.9", 7000), t.addr, p, delay=0.001 + k * 1e-5, label="outside")
        await asyncio.sleep(3.0)
        if case.get("reflag") is not None:
            # the operator changes the node's exit flags at run time (settings.peer_flags = ...): the circuit joined earlier is
            # filtered by the flags in force when a packet passes, in both directions
            new_fs = set(FLAGSETS[case["reflag"]])
            x.ov.settings.peer_flags = set(new_fs) | ({RELAY} if case["relay"] else set()) | {SPEED}
            st["reflag_t"] = world.loop.time()
            st["reflag_fs"] = new_fs
            world.probe("exit_flags_changed_at_run_time")
            await asyncio.sleep(0.1)
            for p in [*st["canaries"], *[pp for pair in st["twins"] for pp in pair]]:
                o.call(o.ov.send_data, circ.hop.address, circ.circuit_id, dests[0], ("0.0.0.0", 0), p)
            await asyncio.sleep(1.0)
            k = 0
            for t in outs:
                if t.closed or t.family == 10 or ":" in str(t.addr[0]):
                    continue
                for p in [*st["canaries"], *[pp for pair in st["twins"] for pp in pair]]:
                    k += 1
                    net.inject(("9.9.9.9", 7000), t.addr, p, delay=0.001 + k * 1e-5, label="outside")
            await asyncio.sleep(2.0)

    try:
        world.run(main())
    finally:
        async def down() -> None:
            await tw.teardown()
        try:
            world.run(down())
        except Exception:  # noqa: BLE001
            tw.uninstall_probes()

    if "circ" in st:
        x = tw.nodes[2]
        own = st["own_prefix"]
        sent_out = set()
        inbound: dict = {}
        for pkt in tw.wire:
            if pkt.src_node == x.name and pkt.src[1] != x.port:
                # left through an exit socket
                d = pkt.data
                sent_out.add(d)
                if pkt.dst[0] == "0.0.0.0" and pkt.dst[1] == 0:       # (the statement names exactly this address)
                    c.violate("no_null_destination", "emitted_to_null_destination", f"exit emitted {len(d)} bytes to {pkt.dst}")
                fs_now = st["reflag_fs"] if st.get("reflag_t") is not None and pkt.t >= st["reflag_t"] else fs
                if fs_now is not fs and not allowed(fs_now, d, own):
                    c.violate("outbound_policy", f"forbidden_payload_emitted_after_flags_changed:bt={is_bt(d)},ipv8={is_ipv8(d)}",
                              f"exit whose flags were changed from {sorted(fs)} to {sorted(fs_now)} emitted {d[:24].hex()} (len {len(d)}) "
                              f"{pkt.t - st['reflag_t']:.2f} s after the change")
                elif fs_now is fs and not allowed(fs, d, own):
                    c.violate("outbound_policy", f"forbidden_payload_emitted:bt={is_bt(d)},ipv8={is_ipv8(d)}",
                              f"exit with flags {sorted(fs)} emitted {d[:24].hex()} (len {len(d)}) to {pkt.dst}")
                else:
                    world.probe("emitted_allowed")
                    if ":" in pkt.dst[0]:
                        world.probe("ipv6_emitted")
                c.nontrivial(f"{sorted(fs)}/out/{d[:2].hex()}/{is_bt(d)}/{is_ipv8(d)}/{d[:22] == own}/{min(len(d), 64) // 8}")
        for pkt in net_injected(tw, net):
            inbound[pkt.id] = pkt
        for pkt in tw.wire:
            if pkt.src_node == x.name and pkt.label == "DataPayload" and pkt.cause in inbound:
                src = inbound[pkt.cause]
                d = src.data
                fs_in = st["reflag_fs"] if st.get("reflag_t") is not None and src.t >= st["reflag_t"] else fs
                if fs_in is not fs:
                    if not allowed(fs_in, d, own):
                        c.violate("inbound_policy", f"forbidden_payload_tunnelled_back_after_flags_changed:bt={is_bt(d)},ipv8={is_ipv8(d)}",
                                  f"exit whose flags were changed from {sorted(fs)} to {sorted(fs_in)} sent a data cell into the tunnel for "
                                  f"outside datagram {d[:24].hex()} (len {len(d)})")
                    continue
                if not allowed(fs, d, own):
                    c.violate("inbound_policy", f"forbidden_payload_tunnelled_back:bt={is_bt(d)},ipv8={is_ipv8(d)}",
                              f"exit with flags {sorted(fs)} sent a data cell into the tunnel for outside datagram "
                              f"{d[:24].hex()} (len {len(d)})")
                else:
                    world.probe("inbound_tunnelled_allowed")
                c.nontrivial(f"{sorted(fs)}/in/{d[:2].hex()}/{is_bt(d)}/{is_ipv8(d)}/{d[:22] == own}/{min(len(d), 64) // 8}")
        n_forb_out = sum(1 for p in st["payloads"] if not allowed(fs, p, own))
        world.probe("blocked_forbidden_outbound", sum(1 for p in st["payloads"] if not allowed(fs, p, own) and p not in sent_out))
        world.probe("blocked_forbidden_inbound", n_forb_out if st.get("exit_ports") else 0)
        world.probe("null_destination_dropped", len(st["payloads"]) // 15)
        if world.faults.get("dns_fail"):
            world.probe("domain_failed")
        if any(p.dst == ("9.9.9.9", 7000) for p in tw.wire):
            world.probe("domain_resolved")
        # non-vacuity: with a permissive flag set something allowed must have been emitted
        for p in st.get("canaries", ()):
            if allowed(fs, p, own) and p not in sent_out and not case["knobs"].get("loss") and not case["knobs"].get("dup"):
                c.violate("non_vacuity", "allowed_traffic_never_emitted",
                          f"flags {sorted(fs)}: canary {p[:8]!r} is allowed by the policy but never left the exit")
    world.trace.event("c06", None, (len(st.get("payloads", ())), len(tw.wire)))
    c.sample = {"flags": sorted(fs), "relay": case["relay"], "hops": hops, "plan": case["plan"],
                "payloads": len(st.get("payloads", ())), "examples": [p[:16].hex() for p in st.get("payloads", [])[:5]]}
    return c.result(evaluations=max(1, 2 * len(st.get("payloads", ()))))


def net_injected(tw, net):  # noqa: ANN001, ANN201
    """Injected outside datagrams are not in tw.wire (no fault routing); SimNet keeps no list, so recover them by label."""
    return getattr(net, "injected_log", [])


