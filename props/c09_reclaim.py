"""
C09 - tunnel state is always reclaimed, whatever gets lost.

Real circuits with *default* TunnelSettings (remove delay 5 s, inactivity 20 s, sweep every 5 s, ping 7.5 s) and real exit
sockets on SimNet.  The teardown is started by the originator, a middle relay or the exit, or the originator simply
crashes; at phase half-built / ready / mid-transfer.  The fault space is enumerated: every subset of <= 2 (quick) / <= 3
(thorough) of the control datagrams of the run (create / created / extend / extended / relayed handshake cells / destroy),
identified by (link, kind, k-th), is dropped.  Afterwards the virtual clock is advanced by a bound computed from the
settings, and every live node must be empty.
"""
from __future__ import annotations

import asyncio
import itertools
import random

from simkit.scenario import Case

from .tunnel_lib import TunnelWorld, cell_parts

PROPERTY = "C09"
LEVEL = "fault_enumeration"
BUDGET = {"quick": 40, "thorough": 600}
CHUNK = 6
CASE_WALL = {"quick": 120, "thorough": 600}
ENUMERATED = {"quick": False, "thorough": False}
SHRINK_FIELDS = ("drops", "extra")
RULE = ("configuration = (hops 1..3) x (teardown by originator / relay / exit / originator crash) x (phase: half-built, ready, "
        "mid-transfer). For each configuration a fault-free profile run lists the control datagrams (link, kind, k-th); the case "
        "stream then contains EVERY subset of <= 2 (quick) / <= 3 (thorough) of them as a drop set, followed by a seeded stream "
        "adding duplication, reordering, crashes of relays/exits, clock jumps, join-limit pressure (max_joined_circuits 1..3) "
        "and a greedy originator that keeps setting relay_early; plus the 'first_packet' phase (the circuit's first data packet "
        "chased by the teardown after 0 .. 50 ms, remove_tunnel_delay 0 or 5 s, 1-3 loop iterations per socket opening). Non-trivial = at least one control datagram was actually "
        "dropped or a node crashed; distinct by (configuration, drop set).")
COMPONENTS = {"real": ["TunnelCommunity do_circuits/do_remove/do_ping timers, remove_* delayed tasks, on_destroy, retry caches",
                       "PythonCryptoEndpoint relay_early accounting", "TunnelExitSocket with simulated outside transports",
                       "TaskManager / RequestCache under virtual time"],
              "stub": ["UDP/IP (SimNet)", "outside server", "wall clock (virtual; jumps injected)", "process crash = handles of the node "
                       "discarded, sockets vanish"]}
ASSUMPTIONS = ["the reclamation bound is circuit_timeout + (hops + 2) x (max_time_inactive + sweep interval + remove_tunnel_delay) "
               "+ PING_INTERVAL + backward clock jump, computed from the settings of the run",
               "crashed nodes are not inspected (their state died with them)"]
REACH = ["dropped:destroy", "dropped:CreatedPayload", "dropped:ExtendedPayload", "dropped:ExtendPayload", "dropped:CreatePayload", "dropped:relayed_handshake",
         "reclaimed_by_timeout_only", "exit_transports_closed", "originator_crash", "join_refused_at_limit",
         "relay_early_over_budget_dropped", "exit_wants_unbuildable_tunnels", "chatty_outside_peer", "phase:half", "phase:ready", "phase:transfer",
         "phase:first_packet", "teardown_right_behind_first_packet", "pool_node_wants_tunnels", "greedy_exit_burst", "data_over_half_built_circuit", "key_answer_altered_in_flight"]

DESTROY_ID = 8
CONTROL = ("CreatePayload", "CreatedPayload", "ExtendPayload", "ExtendedPayload")


def pkt_kind(pkt) -> str | None:  # noqa: ANN001
    d = pkt.data
    if len(d) > 22 and d[22] == DESTROY_ID and not cell_parts(d):
        return "destroy"
    if pkt.label in CONTROL:
        return pkt.label
    return None


def configs():  # noqa: ANN201
    for hops in (1, 2, 3):
        for who in ("originator", "relay", "exit", "crash"):
            if who == "relay" and hops < 2:
                continue
            for phase in ("half", "ready", "transfer"):
                if phase == "half" and who in ("relay", "exit"):
                    continue
                yield {"hops": hops, "who": who, "phase": phase}


_PROFILE_CACHE: dict = {}


def cases(tier: str, base_seed: int):  # noqa: ANN201
    maxk = 2 if tier == "quick" else 3
    n = 0
    plan = []
    for cfg in configs():
        base = {"seed": base_seed, "knobs": {"lat_jit": 0.0}, "cfg": cfg, "drops": [], "extra": []}
        prof = execute(dict(base, profile=True)).get("profile", [])
        plan.append((cfg, prof))
    cfgs = [cfg for cfg, _p in plan]
    for cfg in cfgs:
        if cfg["phase"] != "transfer":
            continue
        for extra in ([{"kind": "exit_wants_tunnels"}], [{"kind": "chatty_outside", "every": 5.0}]):
            for prof_cfg, prof in plan:
                if prof_cfg is cfg or prof_cfg == cfg:
                    destroys = [d for d in prof if d[2] == "destroy"]
                    for drops in ([], *[[d] for d in destroys], destroys):
                        yield {"seed": base_seed, "knobs": {"lat_jit": 0.0}, "cfg": cfg, "drops": [list(d) for d in drops],
                               "extra": extra}
    # a pool node that wants tunnels itself and cancels fresh circuits, then has to reclaim an abandoned circuit by its timers
    for hops in (1, 2):
        for node in ("exit", "hop1"):
            if node == "hop1" and hops < 2:
                continue
            for t in (0.5, 2.5):
                yield {"seed": base_seed, "knobs": {"lat_jit": 0.0}, "cfg": {"hops": hops, "who": "crash", "phase": "ready"}, "drops": [],
                       "extra": [{"kind": "hop_wants_tunnels", "node": node, "t": t}]}
    for hops in (2, 3):
        for phase in ("ready", "transfer"):
            yield {"seed": base_seed, "knobs": {"lat_jit": 0.0}, "cfg": {"hops": hops, "who": "originator", "phase": phase}, "drops": [],
                   "extra": [{"kind": "greedy_exit"}]}
            for who in ("originator", "crash"):
                yield {"seed": base_seed, "knobs": {"lat_jit": 0.0}, "cfg": {"hops": hops, "who": who, "phase": phase}, "drops": [],
                       "extra": [{"kind": "early_data"}]}
    # every key answer is altered in flight and nobody tears anything down: the retry timer is what has to give the circuit up
    for hops in (1, 2, 3):
        for nbad in (99, 1):
            for who in ("nobody", "originator"):
                if who == "nobody" and nbad == 1:
                    continue        # (the retry succeeds and nobody gives the circuit up: it legitimately lives on)
                yield {"seed": base_seed, "knobs": {"lat_jit": 0.0}, "cfg": {"hops": hops, "who": who, "phase": "ready"}, "drops": [],
                       "extra": [{"kind": "bad_answer", "n": nbad}]}
    # the first data packet chased by the teardown, with and without the removal grace period
    for hops in (1, 2):
        for who in ("originator", "exit"):
            for rtd in (0, 5):
                for gap in (0.0, 1e-6, 1e-4, 2e-3, 0.05):
                    yield {"seed": base_seed, "knobs": {"lat_jit": 0.0, "sock_open_yields": int(gap * 1e6) % 3},
                           "cfg": {"hops": hops, "who": who, "phase": "first_packet", "rtd": rtd, "gap": gap}, "drops": [], "extra": []}
    # interleave configurations so that a budget-limited run covers all of them
    streams = []
    for cfg, prof in plan:
        def gen(cfg=cfg, prof=prof):  # noqa: ANN001, ANN202
            yield []
            for k in range(1, maxk + 1):
                yield from (list(cmb) for cmb in itertools.combinations(prof, k))
        streams.append((cfg, gen()))
    alive = list(streams)
    while alive:
        for cfg, g in list(alive):
            try:
                drops = next(g)
            except StopIteration:
                alive.remove((cfg, g))
                continue
            n += 1
            yield {"seed": base_seed, "knobs": {"lat_jit": 0.0}, "cfg": cfg, "drops": [list(d) for d in drops], "extra": []}
    cfgs = list(configs())
    for i in itertools.count():
        seed = base_seed + 1 + i
        rng = random.Random(f"c09/{seed}")
        cfg = rng.choice(cfgs)
        if rng.random() < 0.15:
            cfg = {"hops": rng.choice([1, 2, 3]), "who": rng.choice(["originator", "exit", "crash"]), "phase": "first_packet",
                   "rtd": rng.choice([0, 0, 1, 5]), "gap": rng.choice([0.0, 1e-6, 1e-5, 1e-4, 1e-3, 0.02])}
        extra = []
        for _ in range(rng.choice([0, 1, 2])):
            extra.append(rng.choice([
                {"kind": "crash", "node": rng.choice(["hop1", "exit"]), "t": rng.choice([0.2, 2.0, 6.0])},
                {"kind": "jump", "node": rng.choice(["o", "hop1", "exit"]), "delta": rng.choice([-30.0, -5.0, 10.0, 120.0]),
                 "t": rng.choice([1.0, 5.0, 20.0])},
                {"kind": "greedy"}, {"kind": "greedy_exit"}, {"kind": "early_data"}, {"kind": "bad_answer", "n": rng.choice([1, 2, 99])}, {"kind": "join_limit", "limit": rng.choice([1, 2, 3])},
                {"kind": "exit_wants_tunnels"}, {"kind": "chatty_outside", "every": rng.choice([3.0, 5.0, 15.0])},
                {"kind": "hop_wants_tunnels", "node": rng.choice(["exit", "hop1"]), "t": rng.choice([0.3, 1.0, 2.5, 4.0])},
                {"kind": "stall", "node": rng.choice(["hop1", "exit"]), "t": rng.choice([0.5, 3.0]), "d": rng.choice([2.0, 30.0])}]))
        tune = {}
        if rng.random() < 0.4:
            tune = {"remove_tunnel_delay": rng.choice([0, 1, 5, 12]), "max_time_inactive": rng.choice([8, 20, 45]),
                    "next_hop_timeout": rng.choice([2, 5, 10]), "unstable_timeout": rng.choice([5, 60]),
                    "circuit_timeout": rng.choice([20, 60])}
        yield {"seed": seed, "cfg": cfg, "extra": extra, "settings": tune,
               "knobs": {"lat_jit": rng.choice([0.0, 0.05, 0.3]), "loss": rng.choice([0.0, 0.1, 0.3]), "dup": rng.choice([0.0, 0.1]),
                         "timer_jitter": rng.choice([0.0, 0.05])},
               "drops": []}


def execute(case: dict) -> dict:  # noqa: C901, PLR0915
    from ipv8.messaging.interfaces.udp.endpoint import UDPv4Address

    c = Case(case, net=True, first_only=False)
    world, net, loop = c.world, c.net, c.loop
    cfg = case["cfg"]
    hops, who, phase = cfg["hops"], cfg["who"], cfg["phase"]
    extra = case.get("extra", [])
    limit = next((e["limit"] for e in extra if e["kind"] == "join_limit"), None)
    greedy = any(e["kind"] == "greedy" for e in extra)
    settings = {}
    if limit is not None:
        settings["max_joined_circuits"] = limit
    if cfg.get("rtd") is not None:
        settings["remove_tunnel_delay"] = cfg["rtd"]      # a configuration knob of the library (its own tests run with 0)
    lonely_exit = any(e["kind"] == "exit_wants_tunnels" for e in extra)
    early_data = any(e["kind"] == "early_data" for e in extra)
    bad_answer = next((int(e.get("n", 99)) for e in extra if e["kind"] == "bad_answer"), 0)
    if early_data:
        settings["next_hop_timeout"] = 3
    # tuning knobs of the library, varied per run (the reclamation bound below is computed from the settings in force)
    settings.update({k2: v2 for k2, v2 in (case.get("settings") or {}).items() if k2 not in settings})
    # (with "exit_wants_tunnels" the world has a single exit node, which itself asks for tunnels it can never build)
    tw = TunnelWorld(c, n=hops + 3, exits=(hops + 1,) if lonely_exit else (hops + 1, hops + 2), settings=settings)
    drops = {tuple(d) for d in case.get("drops", [])}
    counts: dict = {}
    profile: list = []
    dropped: list = []
    st: dict = {"back_jump": 0.0}
    world.probe("phase:" + phase)

    def flt(pkt):  # noqa: ANN001, ANN202
        kind = pkt_kind(pkt)
        if kind is None and pkt.label == 0 and cell_parts(pkt.data) and st.get("circ") is not None \
                and st["circ"].state == "EXTENDING":
            kind = "relayed_handshake"      # extend / extended / created travelling through a relay while the circuit is built
        if kind is None or pkt.injected:
            return None
        if bad_answer and kind == "CreatedPayload" and st.get("bad_answers", 0) < bad_answer and len(pkt.data) > 75:
            # the key answer is altered in flight (one bit of its authenticator): it carries the right circuit id and identifier but
            # does not verify at the originator
            st["bad_answers"] = st.get("bad_answers", 0) + 1
            world.fault("answer_altered")
            world.probe("key_answer_altered_in_flight")
            b = bytearray(pkt.data)
            b[70] ^= 0x10
            return bytes(b)
        if early_data and kind == "CreatePayload" and pkt.src_node != "n0" and not st.get("early_dropped"):
            # the first onward create of the first hop is lost: the circuit stays half-built until the retry
            st["early_dropped"] = True
            world.fault("targeted_drop")
            return "drop"
        dstn = tw.node_of_ip(pkt.dst[0])
        key3 = (pkt.src_node, dstn.name if dstn else None, kind)
        k = counts[key3] = counts.get(key3, 0) + 1
        ident = (*key3, k)
        profile.append(ident)
        if ident in drops:
            dropped.append(ident)
            world.probe("dropped:" + kind)
            world.fault("targeted_drop")
            return "drop"
        return None
    net.filters.append(flt)

    joins: list = []

    async def main() -> None:  # noqa: C901, PLR0912, PLR0915
        await tw.build()
        w = tw.add_outside("w0", "9.9.9.9", 7000)
        await tw.introduce()
        o = tw.nodes[0]
        for node in tw.nodes:
            inner = node.ov.join_circuit

            def join(payload, addr, _inner=inner, _node=node):  # noqa: ANN001, ANN202
                before = len(_node.ov.relay_from_to) + len(_node.ov.exit_sockets)
                joins.append((_node.name, before, _node.ov.settings.max_joined_circuits))
                return _inner(payload, addr)
            node.ov.join_circuit = join
        t0 = loop.time()
        if lonely_exit:
            x0 = tw.nodes[hops + 1]
            x0.call(x0.ov.build_tunnels, 1)
            world.probe("exit_wants_unbuildable_tunnels")
        circs = [o.call(o.ov.create_circuit, hops)]
        if limit is not None:
            # pressure on the join limit: more circuits than the pool may join
            for other in (tw.nodes[0], tw.nodes[1]):
                for _ in range(limit + 1):
                    circs.append(other.call(other.ov.create_circuit, hops))
        circ = circs[0]
        if circ is None:
            world.probe("no_circuit")
            return
        st["cid"] = circ.circuit_id
        st["circ"] = circ

        def resolve(role: str):  # noqa: ANN202
            path = tw.path_of(o, circ)
            if role == "o":
                return o
            if role == "hop1":
                return path[0] if path else tw.node_of_key(circ.unverified_hop.public_key_bin) if circ.unverified_hop else None
            if role == "exit":
                return path[-1] if len(path) == hops else None
            return None

        wants = next((e for e in extra if e["kind"] == "hop_wants_tunnels"), None)
        if wants is not None:
            # a node of the pool is itself an application that wants 2-hop tunnels (quota 2), and twice it cancels a circuit it
            # has just started (a half-built teardown), 3 s apart, so that a sweep tick finds a deficit while a closing,
            # still hop-less circuit sits in its table
            z = tw.nodes[hops + 1] if wants.get("node") == "exit" else tw.nodes[1]
            st["wants_node"] = z
            z.ov.settings.max_circuits = 2
            z.call(z.ov.build_tunnels, 2)
            world.probe("pool_node_wants_tunnels")

            def cancel_fresh() -> None:
                if z.name in loop.dead:
                    return
                cz = z.call(z.ov.create_circuit, 2)
                if cz is not None:
                    z.call(z.ov.remove_circuit, cz.circuit_id, "c09: application cancels", destroy=1)
            loop.call_later(wants.get("t", 1.0), cancel_fresh)
            loop.call_later(wants.get("t", 1.0) + 3.0, cancel_fresh)
        if early_data and hops >= 2:
            # the owner already uses the circuit while only its first hop is there (the extend is being retried): that hop EXITS the
            # data, i.e. opens outside sockets, and is turned into a relay afterwards
            def send_early() -> None:
                if circ.hops and circ.state == "EXTENDING" and o.name not in loop.dead:
                    world.probe("data_over_half_built_circuit")
                    o.call(o.ov.send_data, circ.hop.address, circ.circuit_id, UDPv4Address(*w.address), ("0.0.0.0", 0), b"d" + b"5:early" + b"e")
            loop.call_later(0.5, send_early)
            loop.call_later(1.5, send_early)
        # seeded extra faults on their own timers
        for e in extra:
            if e["kind"] == "crash":
                def do_crash(e=e) -> None:  # noqa: ANN001
                    node = resolve(e["node"])
                    if node is not None and node is not o and node.name not in loop.dead:
                        node.crash()
                loop.call_later(e["t"], do_crash)
            elif e["kind"] == "jump":
                def do_jump(e=e) -> None:  # noqa: ANN001
                    node = resolve(e["node"])
                    if node is not None:
                        world.set_skew(node.name, world.skew.get(node.name, 0.0) + e["delta"])
                        world.fault("clock_jump")
                        if e["delta"] < 0:
                            st["back_jump"] += -e["delta"]
                loop.call_later(e["t"], do_jump)
            elif e["kind"] == "stall":
                def do_stall(e=e) -> None:  # noqa: ANN001
                    node = resolve(e["node"])
                    if node is not None and node.name not in loop.dead:
                        loop.stall(node.name, e["d"])
                        world.fault("stall")
                loop.call_later(e["t"], do_stall)
        if phase == "half":
            await asyncio.sleep(0.09 if hops == 1 else 0.16)
        else:
            try:
                await asyncio.wait_for(asyncio.shield(circ.ready), 70)
            except asyncio.TimeoutError:
                pass
            await asyncio.sleep(1.0)
        sender = None
        if phase == "transfer" and circ.state == "READY":
            async def pump() -> None:
                k = 0
                while loop.time() < t0 + 400 and circ.circuit_id in o.ov.circuits and o.name not in loop.dead:
                    k += 1
                    if greedy:
                        circ.relay_early_count = 0      # a misbehaving originator that keeps asking for relay_early
                    o.ov.send_data(circ.hop.address, circ.circuit_id, UDPv4Address(*w.address), ("0.0.0.0", 0),
                                   b"d" + b"%06d" % k + b"e")
                    await asyncio.sleep(0.2)
                    if k > 60:
                        break
            sender = o.call(asyncio.ensure_future, pump())
            await asyncio.sleep(1.5)
        if phase == "first_packet" and circ.state == "READY":
            # the circuit's very first data packet (it makes the exit open its outside sockets) is followed by the teardown almost
            # at once: `gap` seconds later (0 = same instant, the destroy travels right behind the data)
            world.probe("teardown_right_behind_first_packet")
            o.call(o.ov.send_data, circ.hop.address, circ.circuit_id, UDPv4Address(*w.address), ("0.0.0.0", 0), b"d" + b"first" + b"e")
            if cfg.get("gap"):
                await asyncio.sleep(cfg["gap"])
        if any(e["kind"] == "greedy_exit" for e in extra) and hops >= 2 and circ.state == "READY":
            # a misbehaving EXIT: a burst of relay_early-flagged cells travelling backwards through the relays
            from ipv8.messaging.anonymization.payload import CellPayload
            pth = tw.path_of(o, circ)
            xg = pth[-1] if len(pth) == hops else None
            if xg is not None and xg.name not in loop.dead:
                for cid_x, es in list(xg.ov.exit_sockets.items()):
                    ce = xg.ov.crypto_endpoint
                    for k in range(25):
                        cell = CellPayload(cid_x, b"\x01" + bytes(14) + b"d" + b"%03d" % k + b"e", False, True)
                        try:
                            ce.encrypt_cell(cell, 1, es.hop)
                        except Exception:  # noqa: BLE001, S112
                            continue
                        raw_cell = cell.to_bin(ce.prefix)
                        st.setdefault("crafted_cells", set()).add(raw_cell)
                        xg.call(ce.endpoint.send, es.hop.address, raw_cell)
                    world.probe("greedy_exit_burst")
                await asyncio.sleep(1.0)
        chatty = next((e for e in extra if e["kind"] == "chatty_outside"), None)
        if chatty is not None and w.received:
            # the outside world keeps talking to the exit's socket after the circuit is gone
            async def chatter() -> None:
                srcs = sorted({src for _t, _d, src in w.received})
                world.probe("chatty_outside_peer")
                while True:
                    for src in srcs:
                        w.transport.sendto(b"d" + b"3:hey" + b"e", src)
                    await asyncio.sleep(chatty["every"])
            st["chatter"] = world.loop.create_task(chatter())
        # ---------------------------------------------------------------- the teardown
        path = tw.path_of(o, circ)
        if who == "originator":
            if circ.circuit_id in o.ov.circuits:
                o.call(o.ov.remove_circuit, circ.circuit_id, "c09", destroy=1)
        elif who == "crash":
            world.probe("originator_crash")
            o.crash()
        elif who == "relay" and path and path[0] is not None and path[0].name not in loop.dead:
            r = path[0]
            ids = [cid for cid in r.ov.relay_from_to if cid == circ.circuit_id]
            for cid in ids:
                rel = r.ov.relay_from_to.get(cid)
                r.call(r.ov.remove_relay, cid, "c09", destroy=1)
                if rel is not None:
                    r.call(r.ov.remove_relay, rel.circuit_id, "c09", destroy=1)
        elif who == "exit" and len(path) == hops and path[-1] is not None and path[-1].name not in loop.dead:
            x = path[-1]
            for cid in list(x.ov.exit_sockets):
                x.call(x.ov.remove_exit_socket, cid, "c09", destroy=1)
        # circuits that only existed to press on the join limit are abandoned as well
        for extra_c in circs[1:]:
            if extra_c is None:
                continue
            for owner in (tw.nodes[0], tw.nodes[1]):
                if owner.name not in loop.dead and extra_c.circuit_id in owner.ov.circuits:
                    owner.call(owner.ov.remove_circuit, extra_c.circuit_id, "c09 extra", destroy=1)
        if st.get("wants_node") is not None:
            z = st["wants_node"]
            await asyncio.sleep(12.0)           # at least two sweep ticks with the quota in force
            if z.name not in loop.dead:
                z.ov.circuits_needed.clear()
                for cid in list(z.ov.circuits):
                    z.call(z.ov.remove_circuit, cid, "c09: application stops", destroy=1)
        if case.get("profile"):
            await asyncio.sleep(90.0)      # let destroys, retries and time-out driven teardowns happen so that the profile has them
            return
        # ---------------------------------------------------------------- advance by the sound bound
        s = tw.nodes[1].ov.settings
        bound = s.circuit_timeout + (hops + 2) * (s.max_time_inactive + 5 + s.remove_tunnel_delay) + 7.5 + st["back_jump"] + 5
        stall_extra = sum(e["d"] for e in extra if e["kind"] == "stall")
        await asyncio.sleep(bound + stall_extra + 30)
        if sender is not None:
            sender.cancel()
        if st.get("chatter") is not None:
            st["chatter"].cancel()
        # ---------------------------------------------------------------- oracle at the deadline
        left = []
        for node in tw.nodes:
            if node.name in loop.dead:
                continue
            ov = node.ov
            for tname in ("circuits", "relay_from_to", "exit_sockets"):
                for cid in getattr(ov, tname):
                    left.append((node.name, tname, cid))
            pend = [t for base in ("remove_circuit", "remove_relay", "remove_exit_socket")
                    for t in ov.get_anonymous_tasks(base) if not t.done()]
            if pend:
                c.violate("no_pending_removal", "removal_task_still_pending_at_deadline", f"{node.name}: {len(pend)} removal tasks pending")
            opent = [t for t in net.all_transports if t.owner == node.name and t.port != node.port and not t.closed]
            if opent:
                c.violate("exit_sockets_closed", "outside_transport_still_open_at_deadline",
                          f"{node.name}: {len(opent)} outside transports still open {bound:.0f} s after the teardown "
                          f"(who={who}, phase={phase}, drops={sorted(dropped)})")
        if left:
            tables = sorted({t for _n, t, _c in left})
            c.violate("state_reclaimed", f"entries_left_at_deadline:{'+'.join(tables)}",
                      f"{left[:6]} still present {bound:.0f} s after the teardown (who={who}, phase={phase}, hops={hops}, "
                      f"dropped={sorted(dropped)}, extra={extra})")
        closed = [t for t in net.all_transports if t.port != 8090 and t.closed and t.owner != "w0"]
        if closed:
            world.probe("exit_transports_closed", len(closed))
        if any(k[2] == "destroy" for k in dropped) and not left:
            world.probe("reclaimed_by_timeout_only")

    try:
        world.run(main())
    finally:
        async def down() -> None:
            await tw.teardown()
        try:
            world.run(down())
        except Exception:  # noqa: BLE001
            tw.uninstall_probes()
    if case.get("profile"):
        res = c.result()
        res["profile"] = sorted(set(profile))
        return res
    # join limit: a create is refused while the node is at its limit
    for name, before, lim in joins:
        if before >= lim:
            c.violate("join_limit", "create_accepted_at_joined_circuit_limit", f"{name} joined with {before} entries, limit {lim}")
    if limit is not None and any(before + 1 >= lim for _n, before, lim in joins):
        world.probe("join_refused_at_limit")
    # relay_early budget: per relay and outgoing circuit id, forwarded cells carrying the flag
    fw: dict = {}
    for pkt in tw.wire:
        parts = cell_parts(pkt.data)
        if parts is None or pkt.label != 0 or pkt.injected or pkt.data in st.get("crafted_cells", ()):
            continue          # label 0 = forwarded by relay_cell (cells a node originates carry their payload name)
        if parts[2]:
            key = (pkt.src_node, parts[0])
            fw[key] = fw.get(key, 0) + 1
    budget = 8
    for key, cnt in fw.items():
        if cnt > budget:
            c.violate("relay_early_budget", "relay_forwarded_too_many_relay_early_cells",
                      f"{key[0]} forwarded {cnt} relay_early cells on circuit {key[1]} (budget {budget})")
    if greedy and fw:
        world.probe("relay_early_over_budget_dropped")
    if dropped or world.faults.get("crash"):
        c.nontrivial(f"{hops}/{who}/{phase}/{sorted(dropped)}/{[e['kind'] for e in extra]}")
    world.trace.event("c09", None, (len(dropped), st.get("cid") is not None))
    c.sample = {"cfg": cfg, "drops": case.get("drops", [])[:4], "extra": extra[:3], "actually_dropped": [list(d) for d in dropped][:4]}
    return c.result()
