"""
Determinism self-test (DESIGN section 6): for each property, the first N cases are executed in separate runs with
different worker counts (hence different process assignment and order) and the per-case event digests are compared;
the run is repeated under another PYTHONHASHSEED and compared with itself.

    /venv/bin/python selftest/determinism.py [N] [ID ...]
"""
import json, os, subprocess, sys, tempfile
ROOT = os.path.dirname(os.path.dirname(os.path.abspath(__file__)))
sys.path.insert(0, ROOT)
N = int(sys.argv[1]) if len(sys.argv) > 1 else 200
ids = sys.argv[2:] or ["C01", "C03", "C04", "C05", "C06", "C07", "C08", "C09", "C10", "C11", "C12", "C13", "C14", "C15", "C16", "C17", "C19"]
bad = 0
for pid in ids:
    outs = []
    with tempfile.TemporaryDirectory() as d:
        for i, (workers, hs) in enumerate([(16, "0"), (3, "0"), (7, "1"), (2, "1")]):
            path = os.path.join(d, f"{i}.json")
            env = dict(os.environ, SIMKIT_HASHSEED=hs)
            env.pop("SIMKIT_REEXEC", None)
            p = subprocess.run([sys.executable, "-m", "simkit.run", pid, "--max-cases", str(N), "--workers", str(workers),
                                "--budget", "600", "--no-evidence", "--dump-digests", path], cwd=ROOT, env=env,
                               capture_output=True, text=True)
            if not os.path.exists(path):
                print(pid, "run failed", p.stdout[-500:], p.stderr[-500:]); bad += 1; outs.append({}); continue
            outs.append(json.load(open(path)))
    for (a, b, what) in ((0, 1, "hashseed 0: 16 vs 3 workers"), (2, 3, "hashseed 1: 7 vs 2 workers")):
        common = set(outs[a]) & set(outs[b])
        diff = [k for k in common if outs[a][k] != outs[b][k]]
        print(f"{pid} {what}: compared {len(common)} cases, {len(diff)} diverged")
        bad += len(diff)
        if not common: bad += 1
sys.exit(1 if bad else 0)
