"""
Sensitivity self-test (DESIGN section 6): every change kept under /verif/seeded/ (independently seeded by sub-agents that only
saw the property text) is applied to a scratch worktree of /repo (outside /repo and /verif, removed afterwards) and the
property's QUICK check is run against it; the check must exit 1 with a VIOLATION line.

    /venv/bin/python selftest/sensitivity.py [ID_variant ...]      e.g.  C08_B C11_A     (default: all)
"""
import glob, json, os, re, subprocess, sys
ROOT = os.path.dirname(os.path.dirname(os.path.abspath(__file__)))
names = sys.argv[1:] or sorted(os.path.basename(d) for d in glob.glob(os.path.join(ROOT, "seeded", "*")) if os.path.isdir(d))
bad = 0
for name in names:
    pid = name.split("_")[0]
    patch = os.path.join(ROOT, "seeded", name, "patch.diff")
    try:
        # a change may sit in another property's territory (recorded by tools/eval_seed.py --check-id)
        cmd = json.load(open(os.path.join(ROOT, "seeded", name, "meta.json")))["check"]["cmd"]
        pid = re.search(r"\./check (C\d\d)", cmd).group(1)
    except Exception:
        pass
    wt = f"/tmp/sens_{name}_{os.getpid()}"
    subprocess.run(["git", "-C", "/repo", "worktree", "add", "-q", "--detach", wt, "HEAD"], check=True, capture_output=True)
    try:
        a = subprocess.run(["git", "-C", wt, "apply", "--whitespace=nowarn", patch], capture_output=True, text=True)
        if a.returncode:
            print(f"{name}: patch does not apply to the current tree ({a.stderr.strip()[:100]})"); bad += 1; continue
        p = subprocess.run(["./check", pid, "--tier", "quick", "--no-evidence"], cwd=ROOT, env=dict(os.environ, VERIF_REPO=wt),
                           capture_output=True, text=True)
        keys = sorted(set(re.findall(r"key=(\S+)", p.stdout)))
        ok = p.returncode == 1 and "VIOLATION property=" in p.stdout
        meta = json.load(open(os.path.join(ROOT, "seeded", name, "meta.json")))
        neutral = meta.get("neutralised_by")
        if meta.get("not_caught_by_design"):
            print(f"{name}: {'NOT CAUGHT (by design, see meta.json)' if not ok else 'CAUGHT'} exit={p.returncode}")
            continue
        if neutral and not ok:
            # a later fix: in /repo made this change harmless: its own demonstration must now pass WITH the change applied
            d = subprocess.run(["/venv/bin/python", os.path.join(ROOT, "seeded", name, "demo.py")], cwd=wt,
                               env=dict(os.environ, PYTHONPATH=wt), capture_output=True, text=True, timeout=900)
            ok = (d.returncode == 0 or bool(meta.get("neutralised_demo_still_fails"))) and p.returncode == 0
            print(f"{name}: {'NEUTRALISED (demo passes with the change; ' + neutral[:60] + '...)' if ok else 'MISSED'} exit={p.returncode}")
        else:
            print(f"{name}: {'CAUGHT' if ok else 'MISSED'} exit={p.returncode} keys={keys[:4]}")
        bad += 0 if ok else 1
    finally:
        subprocess.run(["git", "-C", "/repo", "worktree", "remove", "--force", wt], capture_output=True)
sys.exit(1 if bad else 0)
