"""
Runner: seeded search over cases in worker processes, known-finding triage, shrinking, replay files, evidence.

    python -m simkit.run <ID> [--tier quick|thorough] [--replay FILE] [--budget S] [--workers N] [--seed N]

exit 0  property held on everything explored (KNOWN-FINDING lines allowed)
exit 1  at least one unlisted violation, each with a replay file that reproduced in a fresh interpreter
exit 2  harness error
"""
from __future__ import annotations

import os
import sys

_HS = os.environ.get("SIMKIT_HASHSEED", "0")
if os.environ.get("PYTHONHASHSEED") != _HS or os.environ.get("SIMKIT_REEXEC") != "1":
    env = dict(os.environ)
    env["PYTHONHASHSEED"] = _HS
    env["SIMKIT_REEXEC"] = "1"
    here = os.path.dirname(os.path.dirname(os.path.abspath(__file__)))
    repo = env.get("VERIF_REPO", "/repo")
    env["PYTHONPATH"] = os.pathsep.join([here, repo])
    env["PYTHONDONTWRITEBYTECODE"] = "1"
    os.execve(sys.executable, [sys.executable, "-m", "simkit.run", *sys.argv[1:]], env)  # noqa: S606

import argparse  # noqa: E402
import faulthandler  # noqa: E402
import hashlib  # noqa: E402
import importlib  # noqa: E402
import itertools  # noqa: E402
import json  # noqa: E402
import multiprocessing  # noqa: E402
import signal  # noqa: E402
import subprocess  # noqa: E402
import traceback  # noqa: E402
from concurrent.futures import FIRST_COMPLETED, ProcessPoolExecutor, wait  # noqa: E402

from simkit import boot  # noqa: E402

import warnings  # noqa: E402

warnings.filterwarnings("ignore", category=RuntimeWarning)       # "coroutine ... was never awaited" of discarded worlds
warnings.filterwarnings("ignore", category=ResourceWarning)
ROOT = os.path.dirname(os.path.dirname(os.path.abspath(__file__)))
PERF = boot.REAL_PERF

MODULES = {
    "C01": "props.c01_auth", "C03": "props.c03_rx", "C04": "props.c04_onion", "C05": "props.c05_isolation",
    "C06": "props.c06_exit", "C07": "props.c07_anon", "C08": "props.c08_keys", "C09": "props.c09_reclaim",
    "C10": "props.c10_requestcache", "C11": "props.c11_unload", "C12": "props.c12_network", "C13": "props.c13_nat",
    "C14": "props.c14_routing", "C15": "props.c15_dhtvalues", "C16": "props.c16_tokentree",
    "C17": "props.c17_consent", "C19": "props.c19_crash",
}


class CaseTimeout(Exception):
    pass


def _alarm(signum, frame) -> None:  # noqa: ANN001
    raise CaseTimeout


def run_case(mod, case: dict, wall: float) -> dict:  # noqa: ANN001
    """Execute one case with a wall-clock guard; never raises."""
    signal.signal(signal.SIGALRM, _alarm)
    signal.setitimer(signal.ITIMER_REAL, wall)
    t0 = PERF()
    try:
        res = mod.execute(case)
    except CaseTimeout:
        res = {"error": f"wall timeout {wall}s"}
    except BaseException as e:  # noqa: BLE001
        res = {"error": f"{type(e).__name__}: {e}", "traceback": traceback.format_exc()[-3000:]}
    finally:
        signal.setitimer(signal.ITIMER_REAL, 0)
        from simkit.boot import CUR
        if CUR.world is not None:
            try:
                CUR.world.close()
            except BaseException:  # noqa: BLE001, S110
                pass
    res["wall"] = PERF() - t0
    res.setdefault("violations", [])
    return res


_MOD = None


def _worker(chunk: list, wall: float) -> list:
    faulthandler.dump_traceback_later(wall * len(chunk) + 60, exit=True)
    out = []
    for case in chunk:
        res = run_case(_MOD, case, wall)
        out.append((case, res))
    faulthandler.cancel_dump_traceback_later()
    return out


def case_id(case: dict) -> str:
    return hashlib.sha1(json.dumps(case, sort_keys=True, default=repr).encode()).hexdigest()[:12]  # noqa: S324


# --------------------------------------------------------------------------- known findings
def load_known(prop: str) -> dict:
    path = os.path.join(ROOT, "known_findings.json")
    if not os.path.exists(path):
        return {}
    with open(path) as f:
        data = json.load(f)
    return {e["key"]: e for e in data.get("findings", []) if e.get("property") == prop}


# --------------------------------------------------------------------------- shrinking
def ddmin(items: list, test) -> list:  # noqa: ANN001
    n = 2
    while len(items) >= 2:
        chunk = max(1, len(items) // n)
        subsets = [items[i:i + chunk] for i in range(0, len(items), chunk)]
        reduced = False
        for i in range(len(subsets)):
            comp = [x for j, s in enumerate(subsets) if j != i for x in s]
            if test(comp):
                items = comp
                n = max(n - 1, 2)
                reduced = True
                break
        if not reduced:
            if n >= len(items):
                break
            n = min(len(items), n * 2)
    if len(items) == 1 and test([]):
        items = []
    return items


def shrink(mod, case: dict, key: str, wall_cap: float, case_wall: float) -> dict:  # noqa: ANN001
    t_end = PERF() + wall_cap
    tries = [0]

    def fails(c: dict) -> bool:
        if PERF() > t_end:
            return False
        tries[0] += 1
        r = run_case(mod, c, case_wall)
        return any(v["key"] == key for v in r["violations"])

    best = case
    if hasattr(mod, "to_explicit"):
        # turn rate-drawn faults into the explicit list of faults that fired
        r = run_case(mod, case, case_wall)
        ex = mod.to_explicit(case, r)
        if ex is not None and fails(ex):
            best = ex
    for field in getattr(mod, "SHRINK_FIELDS", ("faults", "ops")):
        if isinstance(best.get(field), list) and best[field]:
            def test(lst, field=field):  # noqa: ANN001, ANN202
                c = dict(best)
                c[field] = lst
                return fails(c)
            new = ddmin(list(best[field]), test)
            if len(new) < len(best[field]):
                best = dict(best)
                best[field] = new
    if hasattr(mod, "simplify"):
        # simplify() may itself execute cases: it runs under the same wall guard as a case
        signal.signal(signal.SIGALRM, _alarm)
        try:
            it = iter(mod.simplify(best))
            while PERF() < t_end:
                signal.setitimer(signal.ITIMER_REAL, max(1.0, case_wall))
                try:
                    cand = next(it)
                except StopIteration:
                    break
                finally:
                    signal.setitimer(signal.ITIMER_REAL, 0)
                if fails(cand):
                    best = cand
        except CaseTimeout:
            pass
        finally:
            signal.setitimer(signal.ITIMER_REAL, 0)
    best = dict(best)
    best["_shrink_tries"] = tries[0]
    return best


# --------------------------------------------------------------------------- replay
def write_replay(prop: str, case: dict, res: dict, key: str) -> str:
    d = os.path.join(ROOT, "replays", prop)
    os.makedirs(d, exist_ok=True)
    body = {"property": prop, "key": key, "case": case,
            "violation": next((v for v in res["violations"] if v["key"] == key), None),
            "digest": res.get("digest"), "pythonhashseed": os.environ.get("PYTHONHASHSEED"),
            "repo_head": _repo_head()}
    name = f"{key[:40].replace('/', '_').replace(' ', '_')}-{case_id(case)}.json"
    path = os.path.join(d, name)
    with open(path, "w") as f:
        json.dump(body, f, indent=1, default=repr)
    return path


def _repo_head() -> str:
    try:
        return subprocess.run(["git", "-C", os.environ.get("VERIF_REPO", "/repo"), "rev-parse", "HEAD"],  # noqa: S603, S607
                              capture_output=True, text=True, timeout=10).stdout.strip()
    except Exception:  # noqa: BLE001
        return "?"


def replay_main(mod, path: str) -> int:  # noqa: ANN001
    with open(path) as f:
        body = json.load(f)
    res = run_case(mod, body["case"], 600)
    if "error" in res:
        print("HARNESS-ERROR during replay:", res["error"])
        print(res.get("traceback", ""))
        return 2
    keys = [v["key"] for v in res["violations"]]
    same = body["key"] in keys
    dm = (res.get("digest") == body.get("digest"))
    print(f"REPLAY property={body['property']} key={body['key']} reproduced={'yes' if same else 'no'} "
          f"digest_match={'yes' if dm else 'no'} violations={keys}")
    for v in res["violations"]:
        print("  ", v["key"], "-", v.get("msg", "")[:300])
    return 1 if res["violations"] else 0


def verify_replay(prop: str, path: str, key: str) -> bool:
    p = subprocess.run([sys.executable, "-m", "simkit.run", prop, "--replay", path], capture_output=True, text=True,  # noqa: S603
                       timeout=900, cwd=ROOT, env=os.environ)
    return p.returncode == 1 and f"key={key} reproduced=yes" in p.stdout


# --------------------------------------------------------------------------- main search
def main() -> int:  # noqa: C901, PLR0912, PLR0915
    ap = argparse.ArgumentParser()
    ap.add_argument("prop")
    ap.add_argument("--tier", default=os.environ.get("VERIF_TIER", "quick"))
    ap.add_argument("--replay")
    ap.add_argument("--budget", type=float)
    ap.add_argument("--workers", type=int, default=int(os.environ.get("VERIF_WORKERS", "0")) or min(16, os.cpu_count() or 1))
    ap.add_argument("--seed", type=int, default=int(os.environ.get("VERIF_SEED", "20260925")))
    ap.add_argument("--max-cases", type=int, default=0)
    ap.add_argument("--no-evidence", action="store_true")
    ap.add_argument("--dump-digests", help="write {case id: digest} of every executed case (determinism self-test)")
    args = ap.parse_args()
    prop = args.prop.upper()
    if prop not in MODULES:
        print(f"unknown property {prop}")
        return 2
    sys.path.insert(0, ROOT)
    global _MOD  # noqa: PLW0603
    from simkit import seams
    seams.install()
    mod = _MOD = importlib.import_module(MODULES[prop])
    if args.replay:
        return replay_main(mod, args.replay)

    tier = args.tier
    budget = args.budget if args.budget is not None else mod.BUDGET[tier]
    case_wall = getattr(mod, "CASE_WALL", {"quick": 60, "thorough": 300})[tier]
    chunk_n = getattr(mod, "CHUNK", 8)
    t0 = PERF()
    gen = mod.cases(tier, args.seed)
    known = load_known(prop)
    print(f"[{prop}] tier={tier} seed={args.seed} workers={args.workers} budget={budget}s repo={_repo_head()[:10]}", flush=True)

    agg = {"digests": {} if args.dump_digests else None, "cases": 0, "evaluations": 0, "sim_s": 0.0, "steps": 0, "faults": {}, "probes": {}, "sigs": set(), "nt": set(),
           "errors": [], "samples": [], "viol": {}, "case_wall": 0.0}
    exhausted = False
    ctx = multiprocessing.get_context("fork")
    with ProcessPoolExecutor(max_workers=args.workers, mp_context=ctx) as pool:
        inflight = set()
        stop_submit = False
        while True:
            while not stop_submit and len(inflight) < args.workers * 2:
                if PERF() - t0 > budget or (args.max_cases and agg["cases"] + len(inflight) * chunk_n >= args.max_cases):
                    stop_submit = True
                    break
                chunk = list(itertools.islice(gen, chunk_n))
                if not chunk:
                    exhausted = True
                    stop_submit = True
                    break
                inflight.add(pool.submit(_worker, chunk, case_wall))
            if not inflight:
                break
            done, inflight = wait(inflight, return_when=FIRST_COMPLETED)
            for fut in done:
                try:
                    results = fut.result()
                except BaseException as e:  # noqa: BLE001
                    agg["errors"].append({"error": f"worker died: {type(e).__name__}: {e}"})
                    continue
                for case, res in results:
                    _absorb(agg, case, res)
            if len(agg["viol"]) >= 12 or len(agg["errors"]) >= 5 or (
                    agg["viol"] and any(k not in known for k in agg["viol"]) and PERF() - t0 > budget * 0.5):
                stop_submit = True
    search_wall = PERF() - t0

    # ---- triage
    rc = 0
    reported = []
    known_seen = []
    max_full = 6
    for key, (case, res, count) in sorted(agg["viol"].items()):
        if key not in known and len(reported) >= max_full:
            # enough fully minimised reports; the remaining distinct classes are listed without a replay file
            v = next(v for v in res["violations"] if v["key"] == key)
            print(f"ALSO-VIOLATED property={prop} key={key} cases={count}: {v.get('msg', '')[:200]}", flush=True)
            continue
        if key in known:
            known_seen.append(key)
            print(f"KNOWN-FINDING: property={prop} {key}: {known[key].get('what', '')} (seen in {count} cases)", flush=True)
            continue
        small = shrink(mod, case, key, getattr(mod, "SHRINK_WALL", {"quick": 45, "thorough": 240})[tier], case_wall)
        r2 = run_case(mod, small, case_wall)
        if not any(v["key"] == key for v in r2["violations"]):
            small, r2 = case, res
        path = write_replay(prop, small, r2, key)
        ok = verify_replay(prop, path, key)
        v = next(v for v in r2["violations"] if v["key"] == key)
        if ok:
            print(f"VIOLATION property={prop} replay={path}")
            print(f"  oracle={v.get('oracle')} key={key} cases={count}\n  {v.get('msg', '')[:600]}", flush=True)
            rc = 1
            reported.append({"key": key, "replay": path, "msg": v.get("msg", "")[:300], "cases": count})
        else:
            print(f"HARNESS-ERROR: violation {key} did not reproduce from {path} in a fresh interpreter", flush=True)
            agg["errors"].append({"error": f"non-reproducible violation {key}", "replay": path})
    for e in agg["errors"][:5]:
        print("HARNESS-ERROR:", e.get("error"), "case:", json.dumps(e.get("case"), default=repr)[:600], flush=True)
        if e.get("traceback"):
            print(e["traceback"], flush=True)
    if agg["errors"] and rc == 0:
        rc = 2

    wall = PERF() - t0
    if args.dump_digests:
        with open(args.dump_digests, "w") as f:
            json.dump(agg["digests"], f, sort_keys=True)
    if not args.no_evidence:
        _write_evidence(mod, prop, tier, args, agg, wall, search_wall, exhausted, reported, known_seen)
    print(f"[{prop}] cases={agg['evaluations']} distinct_nontrivial={len(agg['nt'])} sim_s={agg['sim_s']:.0f} "
          f"violations={len(reported)} known={len(known_seen)} errors={len(agg['errors'])} wall={wall:.1f}s "
          f"exhausted={exhausted} exit={rc}", flush=True)
    return rc


def _absorb(agg: dict, case: dict, res: dict) -> None:
    if agg["digests"] is not None:
        agg["digests"][case_id(case)] = res.get("digest") or res.get("error")
    agg["evaluations"] += res.get("evaluations", 1)
    agg["cases"] += 1
    agg["case_wall"] += res.get("wall", 0.0)
    if "error" in res:
        e = dict(res)
        e["case"] = case
        agg["errors"].append(e)
        return
    agg["sim_s"] += res.get("sim_s", 0.0)
    agg["steps"] += res.get("steps", 0)
    for k, v in res.get("faults", {}).items():
        agg["faults"][k] = agg["faults"].get(k, 0) + v
    for k, v in res.get("probes", {}).items():
        agg["probes"][k] = agg["probes"].get(k, 0) + v
    if res.get("sig"):
        agg["sigs"].add(res["sig"])
    for k in res.get("nt_keys", ()):
        agg["nt"].add(k)
    if len(agg["samples"]) < 3 and res.get("sample") is not None:
        agg["samples"].append(res["sample"])
    for v in res["violations"]:
        cur = agg["viol"].get(v["key"])
        if cur is None:
            agg["viol"][v["key"]] = (case, res, 1)
        else:
            agg["viol"][v["key"]] = (cur[0], cur[1], cur[2] + 1)


def _write_evidence(mod, prop, tier, args, agg, wall, search_wall, exhausted, reported, known_seen) -> None:  # noqa: ANN001
    d = os.path.join(ROOT, "evidence")
    os.makedirs(d, exist_ok=True)
    runs_per_hour = agg["evaluations"] / search_wall * 3600 if search_wall > 0 else 0
    cov = {
        "evaluations": agg["evaluations"],
        "cases_executed": agg["cases"],
        "distinct_nontrivial": len(agg["nt"]),
        "rule": mod.RULE,
        "samples": agg["samples"] or [{"note": "no sample recorded"}],
        "exhaustive": bool(exhausted and getattr(mod, "ENUMERATED", {}).get(tier, False)),
        "case_stream_exhausted": exhausted,
        "simulated_seconds": round(agg["sim_s"], 3),
        "loop_steps": agg["steps"],
        "runs_per_hour_this_run": round(runs_per_hour),
        "workers": args.workers,
        "faults_fired": dict(sorted(agg["faults"].items())),
        "reach_probes": dict(sorted(agg["probes"].items())),
        "distinct_event_order_signatures": len(agg["sigs"]),
        "components": getattr(mod, "COMPONENTS", {}),
        "known_findings_seen": known_seen,
        "violations_reported": reported,
        "harness_errors": len(agg["errors"]),
        "pythonhashseed": os.environ.get("PYTHONHASHSEED"),
        "repo_head": _repo_head(),
    }
    zero = [k for k in getattr(mod, "REACH", ()) if not agg["probes"].get(k)]
    if zero:
        cov["reach_probes_stuck_at_zero"] = zero
        print(f"WARNING: reach probes at zero: {zero}", flush=True)
    ev = {"property_id": prop, "tier": tier, "seed": args.seed, "level": mod.LEVEL, "coverage": cov,
          "assumptions": list(getattr(mod, "ASSUMPTIONS", [])), "wall_s": round(wall, 2), "violations": len(reported)}
    with open(os.path.join(d, f"{prop}.json"), "w") as f:
        json.dump(ev, f, indent=1, default=repr)


if __name__ == "__main__":
    sys.exit(main())
