"""
Seams taken from outside /repo (DESIGN 2.1).  ``install()`` is idempotent and runs once per process, after
``simkit.boot`` and before overlay modules are imported; ``reset_for_world()`` runs at the start of every World.
"""
from __future__ import annotations

import logging
import socket as real_socket

from .boot import CUR, NODE

_installed = False
ON_RESET: list = []      # undo callbacks of per-case monkeypatches that a crashed case may have left behind
KEY_POOL: dict[str, list[bytes]] = {}


# ---------------------------------------------------------------------------- fake socket module for UDPEndpoint
class FakeSock:
    """Stands in for socket.socket in UDPEndpoint.open(): records bind(), nothing else."""

    def __init__(self, family=real_socket.AF_INET, type_=real_socket.SOCK_DGRAM, *a) -> None:  # noqa: ANN001, ANN002
        self.family = family
        self.addr = None
        self.closed = False

    def setsockopt(self, *a) -> None:  # noqa: ANN002
        pass

    def setblocking(self, b) -> None:  # noqa: ANN001
        pass

    def bind(self, addr) -> None:  # noqa: ANN001
        w = CUR.world
        self.addr = w.net.bind(NODE.get(), (addr[0] or "0.0.0.0", addr[1]), self.family)  # noqa: S104

    def sendto(self, data, addr) -> int:  # noqa: ANN001
        # used by the broadcast bootstrapper only (beacons to 255.255.255.255:<every port>): nobody listens for broadcasts in
        # the simulated world, the datagrams are counted and dropped
        w = CUR.world
        if w is not None:
            w.broadcasts = getattr(w, "broadcasts", 0) + 1
        return len(data)

    def getsockname(self):  # noqa: ANN201
        return self.addr

    def close(self) -> None:
        self.closed = True

    def fileno(self) -> int:
        return -1


class FakeSocketModule:
    def __getattr__(self, n):  # noqa: ANN001, ANN204
        return getattr(real_socket, n)

    socket = FakeSock


# ---------------------------------------------------------------------------- LAN address provider
class SimAddressProvider:
    """Answers with the LAN address of the simulated machine that is currently executing."""

    def get_addresses_buffered(self) -> set:
        w = CUR.world
        n = NODE.get()
        if w is None or w.net is None or n is None:
            return set()
        h = w.net.hosts.get(n)
        return {h.ip} if h is not None else set()

    def get_addresses(self) -> set:
        return self.get_addresses_buffered()

    def discover_addresses(self, min_interval: float = 10.0) -> None:
        pass


# ---------------------------------------------------------------------------- secrets stand-in
class _Secrets:
    def randbelow(self, n: int) -> int:
        return CUR.world.stream("secrets").randrange(n)

    def token_bytes(self, n: int = 32) -> bytes:
        return CUR.world.stream("secrets").randbytes(n)

    def __getattr__(self, name):  # noqa: ANN001, ANN204
        import secrets
        return getattr(secrets, name)


def _generate(curve_name: str):  # noqa: ANN202
    from ipv8.keyvault.private.openssl import OpenSSLSK
    w = CUR.world
    if w is None:
        return _ORIG_GENERATE(curve_name)
    if curve_name == "curve25519":
        return OpenSSLSK(b"LibNaCLSK:" + w.stream("keygen").randbytes(64))
    pool = KEY_POOL.get(curve_name)
    if not pool:
        # no pre-generated pool for this curve: fall back to the OS RNG (signatures of these curves are random anyway)
        return _ORIG_GENERATE(curve_name)
    return OpenSSLSK(pool[w.stream("keygen").randrange(len(pool))])


_ORIG_GENERATE = None


def install() -> None:
    global _installed, _ORIG_GENERATE  # noqa: PLW0603
    if _installed:
        return
    _installed = True
    logging.disable(logging.CRITICAL)
    from . import probes
    probes.install()
    from ipv8.keyvault.private.openssl import OpenSSLSK
    import json
    import os
    pool_path = os.path.join(os.path.dirname(os.path.dirname(os.path.abspath(__file__))), "keys", "pool.json")
    if os.path.exists(pool_path):
        with open(pool_path) as f:
            for curve, keys in json.load(f).items():
                KEY_POOL[curve] = [bytes.fromhex(k) for k in keys]
    _ORIG_GENERATE = OpenSSLSK.generate
    OpenSSLSK.generate = staticmethod(_generate)

    import ipv8.messaging.interfaces.udp.endpoint as udpmod
    udpmod.socket = FakeSocketModule()

    import ipv8.bootstrapping.udpbroadcast.bootstrapper as bcast
    bcast.socket = FakeSock

    import ipv8.messaging.interfaces.lan_addresses.interfaces as lanif
    provs = lanif.get_providers()
    provs.clear()
    provs.append(SimAddressProvider())

    import ipv8.messaging.anonymization.caches as caches
    caches.secrets = _Secrets()


def reset_for_world(world) -> None:  # noqa: ANN001
    """Reset process-global state that ipv8 mutates, so that a run does not depend on the runs before it."""
    if not _installed:
        return
    from . import probes
    from .net import LABEL
    probes.reset()
    LABEL[0] = None
    while ON_RESET:
        try:
            ON_RESET.pop()()
        except Exception:  # noqa: BLE001, S110
            pass
    import ipv8.bootstrapping.udpbroadcast.bootstrapper as bcast
    bcast.socket = FakeSock

    import ipv8.messaging.interfaces.lan_addresses.interfaces as lanif
    provs = lanif.get_providers()
    if len(provs) != 1 or not isinstance(provs[0], SimAddressProvider):
        provs.clear()
        provs.append(SimAddressProvider())
    try:
        import ipv8.database as dbmod
        if hasattr(dbmod, "db_locks"):
            dbmod.db_locks.clear()
    except Exception:  # noqa: BLE001, S110
        pass
