"""
First import of every simulated process.  Replaces the process-global sources
of nondeterminism that ipv8 modules bind *at import time*:

* ``time.time``     -> virtual wall clock of the current World (+ per-node skew)
* ``os.urandom``    -> seeded stream of the current World

Nothing from ``ipv8`` may be imported before this module.
"""
from __future__ import annotations

import contextvars
import os
import sys
import time

assert not any(m == "ipv8" or m.startswith("ipv8.") for m in sys.modules), \
    "simkit.boot must be imported before ipv8"

REAL_TIME = time.time
REAL_PERF = time.perf_counter
REAL_URANDOM = os.urandom

# Which simulated machine is executing.  Set while a node is constructed and while a datagram is delivered to it;
# asyncio copies the context into every Task / Handle created from there.
NODE: contextvars.ContextVar = contextvars.ContextVar("simkit_node", default=None)
# Id of the datagram whose delivery (transitively) caused the code now running.
CAUSE: contextvars.ContextVar = contextvars.ContextVar("simkit_cause", default=None)


class _Current:
    world = None


CUR = _Current()


def _sim_time() -> float:
    w = CUR.world
    if w is None:
        return REAL_TIME()
    return w.wall_time()


def _sim_urandom(n: int) -> bytes:
    w = CUR.world
    if w is None:
        return REAL_URANDOM(n)
    return w.stream("urandom").randbytes(n)


time.time = _sim_time
os.urandom = _sim_urandom
