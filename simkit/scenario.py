"""Per-case helper shared by the property modules: world construction, violation list, result dict."""
from __future__ import annotations

import json
from typing import Any

from .core import World


class Case:
    def __init__(self, case: dict, keep_events: int = 0, net: bool = False, first_only: bool = True) -> None:
        self.case = case
        self.first_only = first_only
        self.world = World(int(case.get("seed", 0)), case.get("knobs"), keep_events)
        self.loop = self.world.loop
        self.violations: list[dict] = []
        self.nt_keys: set[str] = set()
        self._seen: set = set()
        self.sample: Any = None
        if net:
            from .net import SimNet
            SimNet(self.world)
        self.net = self.world.net

    def violate(self, oracle: str, key: str, msg: str) -> None:
        if key in self._seen or (self.first_only and self.violations):
            return
        self._seen.add(key)
        self.violations.append({"oracle": oracle, "key": key, "msg": msg})

    def nontrivial(self, key: Any) -> None:  # noqa: ANN401
        self.nt_keys.add(key if isinstance(key, str) else json.dumps(key, sort_keys=True, default=repr))

    def probe(self, name: str, n: int = 1) -> None:
        self.world.probe(name, n)

    def result(self, **extra: Any) -> dict:  # noqa: ANN401
        w = self.world
        res = {
            "violations": self.violations,
            "sim_s": w.loop.time(),
            "steps": w.loop.steps,
            "faults": dict(w.faults),
            "probes": dict(w.probes),
            "sig": w.trace.signature,
            "digest": w.trace.digest,
            "nt_keys": sorted(self.nt_keys),
            "sample": self.sample,
            "fired": list(w.net.fired) if w.net is not None else [],
        }
        res.update(extra)
        w.close()
        return res


def sched_knobs(rng) -> dict:  # noqa: ANN001
    """Swarm-style scheduler knobs."""
    return {"timer_jitter": rng.choice([0.0, 0.0, 0.001, 0.05, 0.5])}


def net_knobs(rng, lossy: bool = True) -> dict:  # noqa: ANN001
    k = {"lat_min": rng.choice([0.001, 0.005, 0.02]), "lat_jit": rng.choice([0.0, 0.01, 0.05, 0.2])}
    if lossy:
        k["loss"] = rng.choice([0.0, 0.0, 0.02, 0.05, 0.1])
        k["dup"] = rng.choice([0.0, 0.0, 0.02, 0.05])
        k["tail_p"] = rng.choice([0.0, 0.0, 0.02])
    return k
