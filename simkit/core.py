"""
World + SimLoop: the virtual-time asyncio event loop and the seeded PRNG streams.
"""
from __future__ import annotations

import asyncio
import contextvars
import hashlib
import heapq
import random
from collections import deque
from typing import Any, Callable

from . import boot
from .boot import CAUSE, CUR, NODE

EPOCH = 1_700_000_000.0


class HarnessError(Exception):
    """Something went wrong in the simulator itself (never reported as a property violation)."""


class StepCap(HarnessError):
    pass


class SimDeadlock(HarnessError):
    pass


class SimLoop(asyncio.BaseEventLoop):
    """
    asyncio loop with a virtual clock.

    Scheduling decisions (DESIGN 2.2): call_soon FIFO is kept; a timer never fires early; timers armed by one callback
    keep their arming order; everything else (lateness of timers, cost of callbacks, hence order of independently
    armed deadlines) is drawn from the ``sched`` stream.
    """

    def __init__(self, world: World) -> None:
        super().__init__()
        self.world = world
        self._vt = 0.0
        self.rng = world.stream("sched")
        self.jitter = float(world.knobs.get("timer_jitter", 0.0))
        self.cost_lo, self.cost_hi = world.knobs.get("exec_cost", (1e-6, 50e-6))
        self.steps = 0
        self.max_steps = int(world.knobs.get("max_steps", 5_000_000))
        self.dead: set = set()
        self.stalled: dict = {}
        self._stallq: dict = {}
        self.graveyard: list = []
        self.on_step: Callable | None = None
        self._cur_late = 0.0
        self._arm_k = 0
        self._exc_log: list = []
        self.set_exception_handler(self._on_exception)

    # ---------------------------------------------------------------- clock
    def time(self) -> float:
        return self._vt

    # ---------------------------------------------------------------- timers
    def call_at(self, when, callback, *args, context=None):  # noqa: ANN001
        self._arm_k += 1
        # lateness is shared by all timers armed from the callback now executing; arming order breaks exact ties
        when = when + self._cur_late + self._arm_k * 1e-9
        return super().call_at(when, callback, *args, context=context)

    def call_soon_threadsafe(self, callback, *args, context=None):  # noqa: ANN001
        return self.call_soon(callback, *args, context=context)

    # ---------------------------------------------------------------- core
    def _node_of(self, handle) -> Any:  # noqa: ANN001
        ctx = handle._context
        if ctx is None:
            return None
        return ctx.get(NODE)

    def _run_once(self) -> None:
        sched = self._scheduled
        while sched and sched[0]._cancelled:
            h = heapq.heappop(sched)
            h._scheduled = False
        self._timer_cancelled_count = 0
        if not self._ready:
            if sched:
                if sched[0]._when > self._vt:
                    self._vt = sched[0]._when
            else:
                msg = "nothing runnable and no timer armed while the main coroutine is not finished"
                raise SimDeadlock(msg)
        while sched and sched[0]._when <= self._vt:
            h = heapq.heappop(sched)
            h._scheduled = False
            if not h._cancelled:
                self._ready.append(h)
        ready = self._ready
        for _ in range(len(ready)):
            h = ready.popleft()
            if h._cancelled:
                continue
            if self.dead or self.stalled:
                node = self._node_of(h)
                if node is not None:
                    if node in self.dead:
                        self.graveyard.append(h)
                        continue
                    until = self.stalled.get(node)
                    if until is not None:
                        if until > self._vt:
                            self._stallq[node].append(h)
                            continue
                        self._release(node)
            self.steps += 1
            if self.steps > self.max_steps:
                msg = f"step cap {self.max_steps} exceeded at vt={self._vt:.3f}"
                raise StepCap(msg)
            self._cur_late = self.rng.random() * self.jitter if self.jitter else 0.0
            self._arm_k = 0
            h._run()
            self._vt += self.cost_lo + self.rng.random() * (self.cost_hi - self.cost_lo)
            if self.on_step is not None:
                self.on_step(h)
        self._cur_late = 0.0

    # ---------------------------------------------------------------- node control
    def stall(self, node, duration: float) -> None:  # noqa: ANN001
        """Postpone every callback of ``node`` for ``duration`` virtual seconds (a SIGSTOPped / swapped-out process)."""
        until = self._vt + duration
        if node in self.stalled:
            self.stalled[node] = max(self.stalled[node], until)
            return
        self.stalled[node] = until
        self._stallq[node] = deque()
        ctx = contextvars.Context()
        super().call_at(until + 1e-9, self._release_if_due, node, context=ctx)

    def _release_if_due(self, node) -> None:  # noqa: ANN001
        until = self.stalled.get(node)
        if until is None:
            return
        if until > self._vt:
            super().call_at(until + 1e-9, self._release_if_due, node, context=contextvars.Context())
            return
        self._release(node)

    def _release(self, node) -> None:  # noqa: ANN001
        self.stalled.pop(node, None)
        q = self._stallq.pop(node, ())
        # keep their relative order, run them before anything that became ready later
        self._ready.extend(q)

    def crash(self, node) -> None:  # noqa: ANN001
        """Nothing of ``node`` ever runs again; no cleanup code (finally blocks, close()) executes."""
        self.dead.add(node)
        self.stalled.pop(node, None)
        self.graveyard.extend(self._stallq.pop(node, ()))
        for t in asyncio.all_tasks(self):
            try:
                if t.get_context().get(NODE) == node:
                    self.graveyard.append(t)
            except Exception:  # noqa: BLE001, S110
                pass

    # ---------------------------------------------------------------- unused selector plumbing
    def _process_events(self, event_list) -> None:  # noqa: ANN001
        pass

    def _write_to_self(self) -> None:
        pass

    # ---------------------------------------------------------------- executor / dns / sockets
    def run_in_executor(self, executor, func, *args):  # noqa: ANN001
        fut = self.create_future()
        lo, hi = self.world.knobs.get("executor_latency", (0.0005, 0.02))
        delay = lo + self.world.stream("executor").random() * (hi - lo)

        def _run() -> None:
            if fut.cancelled():
                return
            try:
                fut.set_result(func(*args))
            except Exception as e:  # noqa: BLE001
                fut.set_exception(e)
        self.call_later(delay, _run)
        return fut

    async def getaddrinfo(self, host, port, *, family=0, type=0, proto=0, flags=0):  # noqa: A002, ANN001
        return await self.world.resolve(host, port)

    async def create_datagram_endpoint(self, protocol_factory, local_addr=None, remote_addr=None, *, sock=None, **kw):  # noqa: ANN001
        net = self.world.net
        if net is None:
            msg = "no SimNet in this world"
            raise OSError(msg)
        res = net.create_datagram_endpoint(protocol_factory, local_addr, sock)
        # asyncio opens and binds the socket, then waits one loop iteration for connection_made() before it returns (and closes the
        # transport again if the caller is cancelled meanwhile).  The window between "socket exists" and "caller knows" is real.
        try:
            for _ in range(1 + int(self.world.knobs.get("sock_open_yields", 0))):
                await asyncio.sleep(0)
        except BaseException:
            res[0].close()
            raise
        return res

    # ---------------------------------------------------------------- errors
    def _on_exception(self, loop, context) -> None:  # noqa: ANN001
        exc = context.get("exception")
        self._exc_log.append((self._vt, NODE.get(), context.get("message"), repr(exc)))
        self.world.trace.event("loop_exception", NODE.get(), type(exc).__name__ if exc else context.get("message"))


class Trace:
    """Event log: a rolling digest (for determinism) and an order signature (for the distinct-interleaving measure)."""

    def __init__(self, world: World, keep: int = 0) -> None:
        self.world = world
        self._full = hashlib.sha256()
        self._order = hashlib.sha256()
        self.n = 0
        self.keep = keep
        self.events: list = []

    def event(self, kind: str, node: Any = None, what: Any = None, extra: Any = None) -> None:  # noqa: ANN401
        self.n += 1
        t = self.world.loop.time() if self.world.loop else 0.0
        self._full.update(f"{t:.9f}|{node}|{kind}|{what}|{extra}\n".encode())
        self._order.update(f"{node}|{kind}|{what}\n".encode())
        if self.keep and len(self.events) < self.keep:
            self.events.append((round(t, 6), node, kind, what, extra))

    @property
    def digest(self) -> str:
        return self._full.hexdigest()[:24]

    @property
    def signature(self) -> str:
        return self._order.hexdigest()[:24]


class World:
    """One simulated run: loop + PRNG streams + (optionally) a SimNet; a pure function of (seed, knobs, code)."""

    def __init__(self, seed: int, knobs: dict | None = None, keep_events: int = 0) -> None:
        self.seed = seed
        self.knobs = dict(knobs or {})
        self._streams: dict[str, random.Random] = {}
        self.skew: dict = {}
        self.net = None
        self.loop = None
        self.trace = Trace(self, keep_events)
        self.dns: dict = {}
        self.dns_fail: set = set()
        self.faults: dict[str, int] = {}
        self.probes: dict[str, int] = {}
        CUR.world = self
        random.seed(f"{seed}/global-random")
        self.loop = SimLoop(self)
        asyncio.set_event_loop(self.loop)
        from . import seams
        seams.reset_for_world(self)

    # -------------------------------------------------- randomness
    def stream(self, name: str) -> random.Random:
        r = self._streams.get(name)
        if r is None:
            r = self._streams[name] = random.Random(f"{self.seed}/{name}")
        return r

    # -------------------------------------------------- clocks
    def wall_time(self) -> float:
        t = EPOCH + (self.loop._vt if self.loop is not None else 0.0)
        if self.skew:
            t += self.skew.get(NODE.get(), 0.0)
        return t

    def set_skew(self, node: Any, offset: float) -> None:  # noqa: ANN401
        self.skew[node] = offset

    # -------------------------------------------------- counters
    def fault(self, kind: str, n: int = 1) -> None:
        self.faults[kind] = self.faults.get(kind, 0) + n

    def probe(self, name: str, n: int = 1) -> None:
        self.probes[name] = self.probes.get(name, 0) + n

    # -------------------------------------------------- dns
    async def resolve(self, host: str, port: int) -> list:
        lo, hi = self.knobs.get("dns_latency", (0.001, 0.3))
        await asyncio.sleep(lo + self.stream("dns").random() * (hi - lo))
        if host in self.dns_fail or (host not in self.dns and not _looks_like_ip(host)):
            self.fault("dns_fail")
            import socket
            raise socket.gaierror(-2, "Name or service not known")
        ip = self.dns.get(host, host)
        import socket
        fam = socket.AF_INET6 if ":" in ip else socket.AF_INET
        return [(fam, socket.SOCK_DGRAM, 17, "", (ip, port))]

    # -------------------------------------------------- running
    def run(self, coro, timeout_steps: int | None = None) -> Any:  # noqa: ANN001, ANN401
        if timeout_steps is not None:
            self.loop.max_steps = timeout_steps
        try:
            return self.loop.run_until_complete(coro)
        finally:
            pass

    def close(self) -> None:
        loop = self.loop
        try:
            # drop whatever is left without running it: the run is over
            loop._ready.clear()
            loop._scheduled.clear()
            for t in asyncio.all_tasks(loop):
                t._log_destroy_pending = False
            loop.close()
        finally:
            asyncio.set_event_loop(None)
            CUR.world = None

    def as_node(self, node: Any) -> _AsNode:  # noqa: ANN401
        return _AsNode(node)

    def node_context(self, node: Any, cause: Any = None) -> contextvars.Context:  # noqa: ANN401
        ctx = contextvars.Context()
        ctx.run(_set_ctx, node, cause)
        return ctx


def _set_ctx(node, cause) -> None:  # noqa: ANN001
    NODE.set(node)
    CAUSE.set(cause)


def _looks_like_ip(host: str) -> bool:
    import ipaddress
    try:
        ipaddress.ip_address(host)
    except ValueError:
        return False
    return True


class _AsNode:
    def __init__(self, node: Any) -> None:  # noqa: ANN401
        self.node = node
        self.tok = None

    def __enter__(self) -> None:
        self.tok = NODE.set(self.node)

    def __exit__(self, *a: object) -> None:
        NODE.reset(self.tok)


__all__ = ["CAUSE", "EPOCH", "NODE", "HarnessError", "SimDeadlock", "SimLoop", "StepCap", "Trace", "World", "boot"]
