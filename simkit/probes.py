"""
Observation probes installed from outside /repo (DESIGN 2.1).  Installed by ``seams.install()`` *before* any overlay
module is imported, by wrapping whatever decorator objects ``ipv8.lazy_community`` exports; an edited /repo is what
runs.
"""
from __future__ import annotations

import functools
from typing import Callable

# Hook called at the entry of the *inner* (user) function of a lazy-wrapped handler:
#   f(overlay, func_name, decorator_name, raw_datagram, peer_or_address, args)
on_handler_entry: list[Callable] = []
# Raw datagram stack of lazy wrappers currently executing
_CUR: list = []
_installed = False

DECORATORS = (("lazy_wrapper", True), ("lazy_wrapper_wd", True), ("lazy_wrapper_unsigned", False),
              ("lazy_wrapper_unsigned_wd", False))


def install() -> None:
    global _installed  # noqa: PLW0603
    if _installed:
        return
    _installed = True
    import sys
    assert "ipv8.community" not in sys.modules, "probes must be installed before ipv8.community is imported"
    import ipv8.lazy_community as lc

    def wrap_decorator(name: str, signed: bool) -> None:
        orig = getattr(lc, name)

        def traced(*payloads):  # noqa: ANN002, ANN202
            dec = orig(*payloads)

            def decorator(func):  # noqa: ANN001, ANN202
                if func.__name__ == "inner_wrapper":
                    return dec(func)

                @functools.wraps(func)
                def inner(self, peer_or_addr, *a, **k):  # noqa: ANN001, ANN002, ANN003, ANN202
                    if on_handler_entry:
                        data = _CUR[-1] if _CUR else None
                        for f in on_handler_entry:
                            f(self, func.__name__, name, data, peer_or_addr, a)
                    return func(self, peer_or_addr, *a, **k)
                outer = dec(inner)

                @functools.wraps(outer)
                def outer2(self, source_address, data):  # noqa: ANN001, ANN202
                    _CUR.append(data)
                    try:
                        return outer(self, source_address, data)
                    finally:
                        _CUR.pop()
                outer2._simkit_signed = signed  # noqa: SLF001
                outer2._simkit_decorator = name  # noqa: SLF001
                return outer2
            return decorator
        traced.__name__ = name
        traced._simkit_orig = orig  # noqa: SLF001
        setattr(lc, name, traced)

    for n, s in DECORATORS:
        wrap_decorator(n, s)


def reset() -> None:
    on_handler_entry.clear()
    _CUR.clear()
