"""
SimNet: an in-memory IP network of hosts, NAT boxes and links with seeded faults (DESIGN 2.3).

Every datagram consumes the same number of draws from the ``net`` stream whatever the fault decisions are, so a
run in *rate mode* (faults drawn from rates) and its re-execution in *explicit mode* (the recorded list of fired
faults, rates ignored) are the same execution; the explicit list is what the shrinker minimises.
"""
from __future__ import annotations

import asyncio
import hashlib
import socket as real_socket
from typing import Any, Callable

from .boot import CAUSE, NODE

LABEL: list = [None]   # label of the message now being sent (set by probes around send paths); read synchronously


class Pkt:
    __slots__ = ("cause", "data", "dst", "dup", "fate", "id", "injected", "label", "orig", "src", "src_node", "t", "wire_src")

    def __init__(self, pid, t, src, dst, data, src_node, label, cause, injected=False) -> None:  # noqa: ANN001
        self.id = pid
        self.t = t
        self.src = src            # address of the sending socket as the sender knows it
        self.wire_src = src       # address as seen by the receiver (after NAT)
        self.dst = dst
        self.data = data
        self.src_node = src_node
        self.label = label
        self.cause = cause
        self.injected = injected
        self.dup = False
        self.fate = None
        self.orig = None          # bytes before an in-flight alteration

    def __repr__(self) -> str:
        return f"<Pkt {self.id} {self.src}->{self.dst} {len(self.data)}B {self.label}>"


class Nat:
    """Cone NAT with endpoint-independent mapping. kind: full | addr | port."""

    def __init__(self, wan_ip: str, kind: str, timeout: float | None = None) -> None:
        self.wan_ip = wan_ip
        self.kind = kind
        self.timeout = timeout
        self.map: dict = {}
        self.rev: dict = {}
        self.allowed: dict = {}
        self.last: dict = {}
        self.nextp = 40000
        self.drops: list = []

    def out(self, src, dst, now):  # noqa: ANN001, ANN201
        p = self.map.get(src)
        if p is not None and self.timeout is not None and now - self.last[p] > self.timeout:
            del self.map[src], self.rev[p], self.allowed[p]
            p = None
        if p is None:
            self.nextp += 1
            p = self.map[src] = self.nextp
            self.rev[p] = src
            self.allowed[p] = set()
        self.allowed[p].add(dst)
        self.last[p] = now
        return (self.wan_ip, p)

    def inn(self, src, port, now):  # noqa: ANN001, ANN201
        if port not in self.rev:
            self.drops.append(("nomap", src, port))
            return None
        if self.timeout is not None and now - self.last[port] > self.timeout:
            self.drops.append(("expired", src, port))
            return None
        al = self.allowed[port]
        ok = (self.kind == "full"
              or (self.kind == "addr" and any(a[0] == src[0] for a in al))
              or (self.kind == "port" and src in al))
        if not ok:
            self.drops.append((self.kind, src, port))
            return None
        return self.rev[port]


class Host:
    def __init__(self, name, ip: str, nat: Nat | None = None, ip6: str | None = None) -> None:  # noqa: ANN001
        self.name = name
        self.ip = ip
        self.ip6 = ip6
        self.nat = nat
        self.next_port = 20000
        self.transports: dict = {}
        self.bind_failures = 0

    def alloc_port(self) -> int:
        self.next_port += 1
        while self.next_port in self.transports:
            self.next_port += 1
        return self.next_port


class _SockInfo:
    def __init__(self, addr) -> None:  # noqa: ANN001
        self._addr = addr

    def getsockname(self):  # noqa: ANN201
        return self._addr


class SimTransport(asyncio.DatagramTransport):
    def __init__(self, net, host, port, sockname, proto, family) -> None:  # noqa: ANN001
        super().__init__()
        self.net = net
        self.host = host
        self.port = port
        self.sockname = sockname
        self.proto = proto
        self.family = family
        self.closed = False
        self.opened_at = net.world.loop.time()
        self.owner = None
        self.sent = 0
        self.received = 0
        host.transports[port] = self
        net.all_transports.append(self)

    @property
    def addr(self):  # noqa: ANN201
        return ((self.host.ip6 if self.family == real_socket.AF_INET6 else self.host.ip), self.port)

    def sendto(self, data, addr=None) -> None:  # noqa: ANN001
        if self.closed:
            return
        if not isinstance(data, (bytes, bytearray, memoryview)):
            msg = f"data argument must be a bytes-like object, not {type(data).__name__!r}"
            raise TypeError(msg)
        if addr is None or len(addr) < 2 or not isinstance(addr[0], str) or not isinstance(addr[1], int):
            msg = f"bad address {addr!r}"
            raise ValueError(msg)
        self.sent += 1
        self.net.send(self, bytes(data), (addr[0], addr[1]))

    def get_extra_info(self, name, default=None):  # noqa: ANN001, ANN201
        if name == "socket":
            return _SockInfo(self.sockname)
        if name == "sockname":
            return self.sockname
        return default

    def is_closing(self) -> bool:
        return self.closed

    def close(self) -> None:
        if self.closed:
            return
        self.closed = True
        self.closed_at = self.net.world.loop.time()
        if self.host.transports.get(self.port) is self:
            del self.host.transports[self.port]

    def abort(self) -> None:
        self.close()


class SimNet:
    def __init__(self, world, **kw) -> None:  # noqa: ANN001, ANN003
        self.world = world
        world.net = self
        self.loop = world.loop
        self.rng = world.stream("net")
        self.hosts: dict = {}
        self.by_ip: dict = {}
        self.nats: dict = {}
        self.all_transports: list = []
        k = world.knobs
        self.loss = float(k.get("loss", 0.0))
        self.dup = float(k.get("dup", 0.0))
        self.corrupt = float(k.get("corrupt", 0.0))
        self.lat_min = float(k.get("lat_min", 0.005))
        self.lat_jit = float(k.get("lat_jit", 0.045))
        self.tail_p = float(k.get("tail_p", 0.0))
        self.tail_max = float(k.get("tail_max", 2.0))
        self.hash_payloads = bool(k.get("trace_payload_hash", True))
        # explicit mode: set of (send index, kind) that fire, rates ignored
        ex = k.get("explicit_faults")
        self.explicit = None if ex is None else {(int(n), kind) for n, kind in ex}
        self.fired: list = []
        self.partitions: list = []            # list of (set_a, set_b) of node names that cannot talk
        self.filters: list[Callable] = []      # f(pkt) -> None | "drop" | bytes (replacement payload); evaluated at send
        self.on_send: list[Callable] = []      # observers f(pkt) after fault decisions (pkt, fate)
        self.on_deliver: list[Callable] = []   # observers f(pkt, transport) just before delivery
        self.n_sent = 0
        self.n_delivered = 0
        self.pid = 0
        self.log_unroutable: list = []
        self.injected_log: list = []
        self.receive_errors: list = []

    # ----------------------------------------------------------- topology
    def add_host(self, name, ip: str, nat: Nat | None = None, ip6: str | None = None) -> Host:  # noqa: ANN001
        h = Host(name, ip, nat, ip6)
        self.hosts[name] = h
        self.by_ip[ip] = h
        if ip6:
            self.by_ip[ip6] = h
        return h

    def add_nat(self, wan_ip: str, kind: str, timeout: float | None = None) -> Nat:
        n = Nat(wan_ip, kind, timeout)
        self.nats[wan_ip] = n
        return n

    def bind(self, node, addr, family=real_socket.AF_INET):  # noqa: ANN001, ANN201
        host = self.hosts[node]
        if host.bind_failures > 0:
            host.bind_failures -= 1
            self.world.fault("bind_fail")
            raise OSError(98, "Address already in use")
        port = addr[1]
        if port == 0:
            port = host.alloc_port()
        elif port in host.transports:
            raise OSError(98, "Address already in use")
        return (addr[0], port)

    def create_datagram_endpoint(self, protocol_factory, local_addr, sock):  # noqa: ANN001, ANN201
        node = NODE.get()
        host = self.hosts[node]
        family = real_socket.AF_INET
        if sock is not None:
            sockname = sock.getsockname()
            family = getattr(sock, "family", real_socket.AF_INET)
        else:
            ip = local_addr[0] if local_addr else "0.0.0.0"  # noqa: S104
            if ":" in ip:
                family = real_socket.AF_INET6
                if host.ip6 is None:
                    raise OSError(97, "Address family not supported by protocol")
            sockname = self.bind(node, (ip, local_addr[1] if local_addr else 0), family)
        proto = protocol_factory()
        tr = SimTransport(self, host, sockname[1], sockname, proto, family)
        tr.owner = node
        self.world.trace.event("open", node, sockname[1])
        proto.connection_made(tr)
        return tr, proto

    # ----------------------------------------------------------- partitions
    def partition(self, a: set, b: set) -> tuple:
        p = (set(a), set(b))
        self.partitions.append(p)
        return p

    def heal(self, p=None) -> None:  # noqa: ANN001
        if p is None:
            self.partitions.clear()
        elif p in self.partitions:
            self.partitions.remove(p)

    def _partitioned(self, a, b) -> bool:  # noqa: ANN001
        for pa, pb in self.partitions:
            if (a in pa and b in pb) or (a in pb and b in pa):
                return True
        return False

    # ----------------------------------------------------------- sending
    def _decide(self, n: int, kind: str, u: float, rate: float) -> bool:
        if self.explicit is not None:
            hit = (n, kind) in self.explicit
        else:
            hit = u < rate
        if hit:
            self.fired.append((n, kind))
            self.world.fault(kind)
        return hit

    def send(self, tr: SimTransport, data: bytes, dst: tuple) -> None:
        label = LABEL[0]
        if label is None and len(data) > 22:
            label = data[22]
        pkt = self._mk(tr.addr, dst, data, tr.host.name, label, CAUSE.get())
        self._route(pkt, tr.host)

    def inject(self, src: tuple, dst: tuple, data: bytes, delay: float | None = None, label: Any = "inject",  # noqa: ANN401
               faults: bool = False) -> Pkt:
        """A datagram put on the wire by the harness/adversary, appearing to come from ``src``."""
        pkt = self._mk(src, dst, data, None, label, None, injected=True)
        self.injected_log.append(pkt)
        if faults:
            self._route(pkt, None)
        else:
            self.world.trace.event("inject", None, label, len(data))
            d = self.lat_min if delay is None else delay
            self.loop.call_at(self.loop.time() + d, self._deliver, pkt, context=self.world.node_context(None))
        return pkt

    def _mk(self, src, dst, data, node, label, cause, injected=False) -> Pkt:  # noqa: ANN001
        self.pid += 1
        return Pkt(self.pid, self.loop.time(), src, dst, data, node, label, cause, injected)

    def _route(self, pkt: Pkt, host: Host | None) -> None:
        rng = self.rng
        self.n_sent += 1
        n = self.n_sent
        u_loss, u_dup, u_cor, l1, l2, u_tail, u_pos = (rng.random(), rng.random(), rng.random(), rng.random(),
                                                      rng.random(), rng.random(), rng.random())
        self.world.trace.event("send", pkt.src_node, pkt.label, (pkt.dst, len(pkt.data), self._h(pkt.data)))
        dst = pkt.dst
        # NAT / LAN routing at the source
        if host is not None and host.nat is not None:
            dh = self.by_ip.get(dst[0])
            if dh is not None and dh.nat is host.nat:
                pass   # same LAN segment
            elif _private(dst[0]):
                self.log_unroutable.append((pkt.src, dst))
                self.world.probe("unroutable")
                self._notify(pkt, "unroutable")
                return
            else:
                pkt.wire_src = host.nat.out(pkt.src, dst, self.loop.time())
        elif _private(dst[0]) and not (host is not None and _private(host.ip)):
            dh = self.by_ip.get(dst[0])
            if dh is None or dh.nat is not None:
                self.log_unroutable.append((pkt.src, dst))
                self.world.probe("unroutable")
                self._notify(pkt, "unroutable")
                return
        for f in self.filters:
            r = f(pkt)
            if r == "drop":
                self._notify(pkt, "filtered")
                return
            if isinstance(r, (bytes, bytearray)):
                pkt.orig = pkt.data
                pkt.data = bytes(r)
        if self._decide(n, "loss", u_loss, self.loss):
            self._notify(pkt, "lost")
            return
        if self._decide(n, "corrupt", u_cor, self.corrupt) and pkt.data:
            b = bytearray(pkt.data)
            i = int(u_pos * len(b)) % len(b)
            b[i] ^= 1 << (int(u_pos * 8191) % 8)
            pkt.data = bytes(b)
        lat = self.lat_min + l1 * self.lat_jit
        if u_tail < self.tail_p:
            lat += l2 * self.tail_max
            self.world.fault("long_delay")
        self._notify(pkt, "ok")
        self._schedule(pkt, lat)
        if self._decide(n, "dup", u_dup, self.dup):
            p2 = self._mk(pkt.src, pkt.dst, pkt.data, pkt.src_node, pkt.label, pkt.cause, pkt.injected)
            p2.wire_src = pkt.wire_src
            p2.dup = True
            self._notify(p2, "dup")
            self._schedule(p2, self.lat_min + l2 * (self.lat_jit + lat))

    def _schedule(self, pkt: Pkt, lat: float) -> None:
        self.loop.call_at(self.loop.time() + lat, self._deliver, pkt, context=self.world.node_context(None))

    def _notify(self, pkt: Pkt, fate: str) -> None:
        for f in self.on_send:
            f(pkt, fate)

    # ----------------------------------------------------------- delivery
    def _deliver(self, pkt: Pkt) -> None:
        dst = pkt.dst
        now = self.loop.time()
        nat = self.nats.get(dst[0])
        if nat is not None:
            inner = nat.inn(pkt.wire_src, dst[1], now)
            if inner is None:
                self.world.probe("nat_drop")
                self.world.trace.event("natdrop", None, pkt.label)
                return
            dst = inner
        h = self.by_ip.get(dst[0])
        tr = h.transports.get(dst[1]) if h is not None else None
        if tr is None or tr.closed or h.name in self.loop.dead:
            self.world.probe("no_listener")
            return
        if self.partitions and pkt.src_node is not None and self._partitioned(pkt.src_node, h.name):
            self.world.fault("partition_drop")
            return
        # deliver as a callback that belongs to the destination node (so stalls / crashes apply to it)
        ctx = self.world.node_context(h.name, pkt.id)
        self.loop.call_soon(self._hand_over, pkt, tr, context=ctx)

    def _hand_over(self, pkt: Pkt, tr: SimTransport) -> None:
        if tr.closed:
            return
        self.n_delivered += 1
        tr.received += 1
        self.world.trace.event("recv", tr.host.name, pkt.label, (pkt.wire_src, len(pkt.data), self._h(pkt.data)))
        for f in self.on_deliver:
            f(pkt, tr)
        try:
            tr.proto.datagram_received(pkt.data, pkt.wire_src)
        except Exception as e:  # noqa: BLE001
            # An exception out of datagram_received is what asyncio would log as "Fatal error on transport" (C03).
            import traceback
            tb = traceback.extract_tb(e.__traceback__)
            where = [(f.filename.rsplit("/ipv8/", 1)[-1], f.name) for f in tb if "/ipv8/" in f.filename]
            self.receive_errors.append({"node": tr.host.name, "exc": type(e).__name__, "msg": str(e)[:120],
                                        "where": where[-3:], "data": pkt.data, "src": pkt.wire_src, "pkt": pkt.id,
                                        "injected": pkt.injected})
            self.world.trace.event("recv_exception", tr.host.name, type(e).__name__)

    def _h(self, data: bytes) -> str:
        # ECDSA signatures are randomised inside the Rust extension: runs using those curves switch payload hashing off
        return _h(data) if self.hash_payloads else ""

    # ----------------------------------------------------------- crash support
    def kill_host(self, name) -> None:  # noqa: ANN001
        """The machine's process died: its sockets vanish without close()."""
        h = self.hosts[name]
        for tr in list(h.transports.values()):
            tr.closed = True
            tr.killed = True
        h.transports.clear()

    def open_transports(self, node=None) -> list:  # noqa: ANN001
        return [t for t in self.all_transports if not t.closed and (node is None or t.owner == node)]


def _h(data: bytes) -> str:
    return hashlib.sha1(data).hexdigest()[:10]  # noqa: S324


def _private(ip: str) -> bool:
    return ip.startswith(("10.", "192.168.")) or (ip.startswith("172.") and 16 <= int(ip.split(".")[1]) <= 31)
