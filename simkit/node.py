"""Node builders: real ipv8 endpoints / overlays placed on SimNet hosts."""
from __future__ import annotations

import asyncio
from typing import Any

from .boot import NODE


class SimNode:
    """
    One simulated machine: a SimNet host + a real UDPEndpoint (optionally wrapped in the real TunnelEndpoint or the
    real DispatcherEndpoint) + a Network + any number of real overlays sharing them, the way ipv8_service.IPv8 does.
    """

    def __init__(self, world, name: Any, ip: str, port: int = 8090, nat=None, ip6: str | None = None,  # noqa: ANN001, ANN401
                 curve: str = "curve25519") -> None:
        from ipv8.keyvault.crypto import default_eccrypto
        from ipv8.peer import Peer
        from ipv8.peerdiscovery.network import Network
        self.world = world
        self.name = name
        self.ip = ip
        self.port = port
        self.host = world.net.add_host(name, ip, nat, ip6)
        with world.as_node(name):
            self.key = default_eccrypto.generate_key(curve)
            self.my_peer = Peer(self.key)
            self.network = Network()
        self.endpoint = None
        self.raw_endpoint = None
        self.overlays: list = []
        self.strategies: list = []

    @property
    def address(self) -> tuple:
        return (self.ip, self.port)

    async def open(self, kind: str = "udp") -> None:
        from ipv8.messaging.interfaces.udp.endpoint import UDPEndpoint
        tok = NODE.set(self.name)
        try:
            if kind == "dispatcher":
                from ipv8.messaging.interfaces.dispatcher.endpoint import DispatcherEndpoint
                ep = DispatcherEndpoint(["UDPIPv4"], UDPIPv4={"port": self.port, "ip": "0.0.0.0"})  # noqa: S104
                await ep.open()
                self.raw_endpoint = ep.interfaces["UDPIPv4"]
                self.endpoint = ep
            else:
                raw = UDPEndpoint(port=self.port, ip="0.0.0.0")  # noqa: S104
                await raw.open()
                self.raw_endpoint = raw
                self.endpoint = raw
                if kind == "tunnel":
                    from ipv8.messaging.anonymization.endpoint import TunnelEndpoint
                    self.endpoint = TunnelEndpoint(raw)
            self.port = self.raw_endpoint.get_address()[1]
        finally:
            NODE.reset(tok)

    def add(self, cls, settings=None, **kw):  # noqa: ANN001, ANN003, ANN201
        """Instantiate a real overlay on this node."""
        tok = NODE.set(self.name)
        try:
            st = settings if settings is not None else cls.settings_class()
            st.my_peer = kw.pop("my_peer", self.my_peer)
            st.endpoint = kw.pop("endpoint", self.endpoint)
            st.network = kw.pop("network", self.network)
            for k, v in kw.items():
                setattr(st, k, v)
            ov = cls(st)
            self.overlays.append(ov)
            return ov
        finally:
            NODE.reset(tok)

    def call(self, fn, *a, **k):  # noqa: ANN001, ANN002, ANN003, ANN201
        """Run fn as code of this node (tasks/timers it creates belong to the node)."""
        tok = NODE.set(self.name)
        try:
            return fn(*a, **k)
        finally:
            NODE.reset(tok)

    async def acall(self, coro_fn, *a, **k):  # noqa: ANN001, ANN002, ANN003, ANN201
        """Await a coroutine function as a task of this node."""
        tok = NODE.set(self.name)
        try:
            t = asyncio.ensure_future(coro_fn(*a, **k))
        finally:
            NODE.reset(tok)
        return await t

    def start_strategy(self, strategy, interval: float = 0.5, target_peers: int = -1) -> None:  # noqa: ANN001
        """Tick a DiscoveryStrategy the way ipv8_service.IPv8 does (simplified: one timer per strategy)."""
        loop = self.world.loop

        def tick() -> None:
            if self.name in loop.dead or getattr(strategy.overlay, "_shutdown", False):
                return
            try:
                peers = len(strategy.overlay.get_peers()) if hasattr(strategy.overlay, "get_peers") else 0
                if target_peers == -1 or peers < target_peers:
                    strategy.take_step()
            except Exception:  # noqa: BLE001
                self.world.probe("strategy_exception")
            h = loop.call_later(interval, tick)
            self.strategies.append(h)
        self.call(loop.call_later, interval, tick)

    async def stop(self) -> None:
        tok = NODE.set(self.name)
        try:
            for ov in self.overlays:
                await ov.unload()
            if self.endpoint is not None:
                r = self.endpoint.close()
                if asyncio.iscoroutine(r):
                    await r
        finally:
            NODE.reset(tok)

    def crash(self) -> None:
        self.world.loop.crash(self.name)
        self.world.net.kill_host(self.name)
        self.world.fault("crash")
