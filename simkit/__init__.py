"""simkit - deterministic simulation kit for py-ipv8 (see /verif/DESIGN.md section 2).

Import order matters: ``simkit.boot`` must be imported before anything from
``ipv8`` so that modules doing ``from time import time`` / ``from os import
urandom`` bind the simulated versions.
"""
