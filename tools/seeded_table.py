"""Print the markdown table of /verif/seeded (DESIGN.md 10.6) from the meta.json files."""
import glob
import json
import os

ROOT = os.path.dirname(os.path.dirname(os.path.abspath(__file__)))
rows = []
for d in sorted(glob.glob(os.path.join(ROOT, "seeded", "*"))):
    m = json.load(open(os.path.join(d, "meta.json")))
    name = os.path.basename(d)
    summ = (m.get("summary") or m.get("agent_meta", {}).get("summary") or "").replace("|", "/").replace("\n", " ")
    if len(summ) > 230:
        summ = summ[:227] + "..."
    keys = m.get("check", {}).get("violation_keys", [])
    ks = ", ".join(k if len(k) < 60 else k[:57] + "..." for k in keys[:3]) + (f" (+{len(keys) - 3})" if len(keys) > 3 else "")
    first = m.get("first_run_result")
    if m.get("neutralised_by"):
        first = (first or "caught as built") + "; NOW NEUTRALISED by fix " + m["neutralised_by"]
    rows.append(f"| {name} | {summ} | {'yes' if m.get('check', {}).get('caught') else ('no (by design)' if m.get('not_caught_by_design') else '**NO**')} | {ks} | {first or 'caught as built'} |")
print("| change | what it does | caught | violation keys | first run |")
print("|---|---|---|---|---|")
print("\n".join(rows))
