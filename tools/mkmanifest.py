"""Regenerates /verif/MANIFEST.json from the table below (kept in one place so that it is always valid)."""
import json
import os
import sys

ROOT = os.path.dirname(os.path.dirname(os.path.abspath(__file__)))

TECH = "deterministic simulation with fault injection"
CHECKS = {
    "C10": dict(
        level="exploration", design="DESIGN.md 4/C10",
        technique=TECH + ": real RequestCache/TaskManager on a seeded virtual-time asyncio loop, lock-step reference model, "
                         "enumerated timing grid + seeded random op schedules, ddmin-shrunk replay files",
        text="Seeded search over operation schedules of the real RequestCache on a virtual-time loop whose timer lateness and "
             "callback cost are drawn from the seed, so pop/expiry/shutdown/clear land in the same loop iteration in both orders; "
             "a lock-step model decides exactly-once resolution, duplicate refusal, future completion and the shutdown gate. "
             "Sampling, plus an enumerated grid of tie patterns for 1..3 caches; a clean run is evidence, not proof.",
        note="Trusts CPython asyncio Task/Future semantics and simkit's loop (FIFO call_soon, timers never early). "
             "Single-threaded: the caches' thread locks are never contended."),
}

NOT_APPLICABLE = {
    "C02": "pure function of its input (codec round trip over field values/offsets/classes): no schedule, clock, fault or "
           "second party for a simulator to control; see DESIGN.md 4/C02",
    "C18": "pure functions of (value, key, challenge set, operands) incl. a symbolic clause; commutative aggregation, not a "
           "schedule; the time/fault-dependent protocol part is C10/C11 territory; see DESIGN.md 4/C18",
    "C20": "equivalence of three pure code paths over definitions x instances; no time, I/O, concurrency or second party; "
           "see DESIGN.md 4/C20",
}
NOT_YET = "check not built yet in this session (planned, see DESIGN.md section 9); not claimed until it exists"
ALL = [f"C{i:02d}" for i in range(1, 21)]


def main() -> None:
    checks = []
    for pid in ALL:
        c = CHECKS.get(pid)
        if not c or not os.path.exists(os.path.join(ROOT, "props")):
            continue
        checks.append({
            "property_id": pid,
            "quick_cmd": f"timeout 900 ./check {pid} --tier quick",
            "thorough_cmd": f"timeout 7200 ./check {pid} --tier thorough",
            "evidence_file": f"/verif/evidence/{pid}.json",
            "replay_cmd_template": f"./check {pid} --replay {{path}}",
            "engine": "simkit",
            "level_claimed": {"category": c["level"], "text": c["text"], "design_ref": c["design"]},
            "level_note": c["note"],
            "technique": c["technique"],
        })
    na = [{"property_id": p, "reason": r} for p, r in NOT_APPLICABLE.items()]
    na += [{"property_id": p, "reason": NOT_YET} for p in ALL if p not in CHECKS and p not in NOT_APPLICABLE]
    na.sort(key=lambda e: e["property_id"])
    m = {
        "version": 1,
        "setup_cmd": "/venv/bin/python -c \"import sys; sys.path.insert(0, '/verif'); import simkit.boot\"",
        "hooks": {
            "guard": "IPV8_VERIF",
            "enable": "no source hooks exist: every seam is taken from outside /repo by simkit (module attributes, event loop "
                      "interface); IPV8_VERIF is reserved and read by nothing in /repo",
            "baseline_off_cmd": "cd /repo && /venv/bin/python -m pytest -ra -q -p no:cacheprovider --timeout=900 "
                                "--continue-on-collection-errors",
            "source_commits": [],
            "add_only": True,
        },
        "engines": [{"name": "simkit", "path": "/verif/simkit", "serves_properties": sorted(CHECKS),
                     "kind_free_text": "deterministic discrete-event simulator for asyncio programs: virtual-time BaseEventLoop "
                                       "subclass, in-memory IP network with NATs and seeded faults, seeded PRNG streams, replay "
                                       "files, ddmin shrinker, 16-process seed sweep"}],
        "checks": checks,
        "not_applicable": na,
        "notes": "All checks: cwd=/verif, import ipv8 from /repo's working tree (PYTHONPATH), re-exec with PYTHONHASHSEED=0. "
                 "Exit 0 held / 1 VIOLATION with reproduced replay / 2 harness error. known_findings.json lists genuine defects "
                 "recorded rather than repaired; 'fixed:' entries suppress nothing.",
    }
    with open(os.path.join(ROOT, "MANIFEST.json"), "w") as f:
        json.dump(m, f, indent=1)
    try:
        import jsonschema
        jsonschema.validate(m, json.load(open("/root/.vp/MANIFEST.schema.json")))
        print("MANIFEST valid;", len(checks), "checks")
    except ImportError:
        print("jsonschema not available; not validated")


if __name__ == "__main__":
    sys.exit(main())
