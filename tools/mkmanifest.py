"""Regenerates /verif/MANIFEST.json from the table below (kept in one place so that it is always valid)."""
import json
import os
import sys

ROOT = os.path.dirname(os.path.dirname(os.path.abspath(__file__)))

TECH = "deterministic simulation with fault injection"
CHECKS = {
    "C01": dict(
        level="exploration", design="DESIGN.md 4/C01",
        technique=TECH + ": real overlays of all 9 shipped classes on SimNet, on-path adversary mutating datagrams at delivery "
                         "time, wire-level authenticity oracle + handler-entry probes + causality (ContextVar) effect attribution",
        text="Scripted multi-node runs of every shipped overlay class on the simulated network; at each genuine delivery an "
             "adversary hands the receiver mutated copies (every byte position x masks for one datagram per message type in the "
             "sweep cases; seeded flips, truncation, extension, key substitution, foreign signature, re-signing, splice, id/prefix "
             "swap, spoofed source, replay otherwise). The harness itself decides authenticity from the wire format and the Rust "
             "primitive and demands: signed message types enter handlers only when authentic and with exactly the datagram's key; "
             "non-authentic datagrams cause no verified-peer entry and no reply; honest traffic does reach every handler. Sampling "
             "of schedules and mutation choices; byte sweeps are complete per swept datagram.",
        note="Trusts the Rust signature primitives (also the oracle's primitive) and simkit. ECDSA-curve runs limited to overlays "
             "whose control flow does not depend on randomised signature bytes."),
    "C03": dict(
        level="fault_enumeration", design="DESIGN.md 4/C03",
        technique=TECH + ": corruption/injection faults enumerated against live multiplexed nodes on SimNet; decode monitor "
                         "wrapped around every Packer and Serializer.unpack_serializable; witness listeners",
        text="A live node (Discovery+DHTDiscovery+HiddenTunnel+Attestation+Identity multiplexed on one real UDPEndpoint, or one "
             "overlay alone) with real circuits/relays/exit entries is fed, through the simulated transport at every script step, "
             "an enumerated family of malformed datagrams (all prefixes of each captured genuine datagram type, all 256 msg ids, all "
             "short lengths, overwritten length fields, crafted cells for live circuit ids, random bytes). Any exception escaping "
             "datagram_received, a starved listener, a foreign-prefix datagram entering a handler, a decode ending beyond its "
             "buffer or a length-prefixed value shorter than declared is a violation; the node must still answer afterwards.",
        note="The native ipv8_rust_tunnels.Endpoint is not exercised (PythonCryptoEndpoint is). Enumeration is per captured "
             "datagram type, not over all 2^(8*1500) byte strings."),
    "C10": dict(
        level="exploration", design="DESIGN.md 4/C10",
        technique=TECH + ": real RequestCache/TaskManager on a seeded virtual-time asyncio loop, lock-step reference model, "
                         "enumerated timing grid + seeded random op schedules, ddmin-shrunk replay files",
        text="Seeded search over operation schedules of the real RequestCache on a virtual-time loop whose timer lateness and "
             "callback cost are drawn from the seed, so pop/expiry/shutdown/clear land in the same loop iteration in both orders; "
             "a lock-step model decides exactly-once resolution, duplicate refusal, future completion and the shutdown gate. "
             "Sampling, plus an enumerated grid of tie patterns for 1..3 caches; a clean run is evidence, not proof.",
        note="Trusts CPython asyncio Task/Future semantics and simkit's loop (FIFO call_soon, timers never early). "
             "Single-threaded: the caches' thread locks are never contended."),
    "C04": dict(
        level="exploration", design="DESIGN.md 4/C04",
        technique=TECH + ": real TunnelCommunity/PythonCryptoEndpoint/exit sockets on SimNet, causality-linked wire monitor that "
                         "peels one AEAD layer per link with the recorded session keys, explicit in-flight tamper/inject fault lists",
        text="Circuits of 1..3 hops built by the real code carry marked payloads of sizes 2..1400 both ways (plus ping and "
             "speed-test cells) to a simulated outside server. The wire monitor follows each cell from link to link through the "
             "causality chain and checks with the Rust AEAD primitive that every link carries exactly one layer more/less than "
             "the next, that no marker and no ciphertext shows up on two links, and that under in-flight byte flips (every "
             "position in sweep cases), flag flips, circuit-id rewrites, cross-circuit splices, injected and plaintext-claiming "
             "cells nothing but genuinely sent payloads is ever delivered at the exit or the originator, from the right exit, "
             "attributed to the right origin and circuit. A second scenario builds a hidden-service circuit (downloader, "
             "introduction point, rendezvous point, seeder) with the real HiddenTunnelCommunity and sends both ways (also from "
             "inside the ready callback). A 'who can read' oracle peels every cell with every session key its RECEIVER holds: "
             "no relay / rendezvous point may reach the payload. Seeded sampling of sizes, schedules and fault lists.",
        note="Trusts ChaCha20-Poly1305 in ipv8_rust_tunnels. The native Rust endpoint is not covered; in the hidden-service "
             "scenario the DHT provider is a stub. Loss is not a violation: delivery is demanded only on FIFO fault-free links."),
    "C05": dict(
        level="exploration", design="DESIGN.md 4/C05",
        technique=TECH + ": concurrent circuits over a small shared relay pool on SimNet, real adversary node issuing forged "
                         "cells/creates/destroys from an explicit attack list before/after request-cache expiry (virtual time), "
                         "routing tables compared by object identity, per-circuit delivery log",
        text="1..3 originators build up to 6 concurrent circuits (1..3 hops) over 3..4 shared relays/exits, each circuit talking "
             "to its own outside server; handshakes, data and pings interleave under seeded latency. After 5 or 70 virtual "
             "seconds a real adversary node sends cells for unknown ids, garbage and foreign-circuit bodies on live ids, create "
             "requests naming live ids of every table, destroys signed by itself and replays of genuine destroys. Entries of "
             "established circuits must keep their identity, keys and peer across the attack window, a legitimate teardown must "
             "remove only its own circuit, and every payload/reply must show up only at its own circuit's server/originator, "
             "through its own exit, labelled with its own circuit.",
        note="Entries may vanish through inactivity/age sweeps by design; the attack window is kept below those limits and circuits "
             "are kept busy. Sampling over topologies, schedules and attack lists."),
    "C06": dict(
        level="exploration", design="DESIGN.md 4/C06",
        technique=TECH + ": real exit sockets on simulated outside transports at the end of real circuits; payload sweeps in "
                         "both directions, DNS latency/failure, queue-before-open burst, colluding direct sender; independent "
                         "policy classifier applied to the simulated wire",
        text="For each of the 8 exit flag sets a real exit node terminates a real 1- or 2-hop circuit; a sweep of payloads (all "
             "256x256 two-byte heads in the thorough tier, a boundary grid over uTP/tracker/bencode/IPv8 shapes and lengths, "
             "seeded samples) is sent through the circuit to IPv4, IPv6, resolvable and unresolvable domain and null "
             "destinations, and sent back from the outside at every open exit socket. Everything the simulated network sees "
             "leaving an exit socket, and every data cell the exit sends into the tunnel because of an outside datagram, must "
             "be allowed by a classifier written independently from the statement; nothing may go to 0.0.0.0:0; a correctly "
             "keyed data cell from a foreign IP must not open the outside socket; allowed canaries must get out.",
        note="The classifier is my reading of 'BitTorrent-shaped'/'IPv8-shaped'. Exhaustive over two-byte heads only in the "
             "thorough tier; remainder bytes and lengths are sampled."),
    "C07": dict(
        level="exploration", design="DESIGN.md 4/C07",
        technique=TECH + ": (api) complete enumeration of operation sequences to depth 5/7 on the real TunnelEndpoint with real "
                         "Circuit objects and real find_circuits; (net) seeded operation sequences on a real node with real circuits, "
                         "hop crashes and loss on SimNet, oracle on the simulated wire",
        text="Every interleaving up to depth 5 (quick, 9-symbol alphabet) / 7 (thorough, 11 symbols) of: anonymized send, plain "
             "send, matching circuit ready, non-matching circuit ready, circuit closing, circuit removed, tunnel community "
             "detached/attached, anonymity off/on, burst of 101 sends is run on the real TunnelEndpoint; each anonymized packet "
             "must be handed to send_data over a READY circuit of the configured length with an IPv8 exit, or be queued (<= 100), "
             "or be dropped - never reach the raw endpoint while anonymity is on; plain traffic must reach the raw endpoint "
             "unchanged, once, in order. The same oracle is applied on the simulated wire to a real node (TunnelEndpoint over "
             "UDPEndpoint, real TunnelCommunity, anonymized + plain Community) running seeded sequences of up to 30 operations "
             "among real relays/exits, including hops crashing under a circuit.",
        note="In the api family the raw endpoint and the tunnel community are stand-ins (the community's circuits and find_circuits "
             "are real). While anonymity is switched off raw sends are allowed."),
    "C08": dict(
        level="exploration", design="DESIGN.md 4/C08",
        technique=TECH + ": real handshakes with retries under loss/duplication/reordering/long delays in virtual time; doctored "
                         "answers from a misbehaving real node or an on-path rewriter (explicit fault list); at every hop append the "
                         "route is traced through the relays' tables and session keys compared byte by byte",
        text="Circuits of 1..3 hops are built with next_hop_timeout 1..10 s so that retries, late and duplicated answers occur "
             "under seeded loss, duplication, jitter and multi-second tail delays. A misbehaving responder/relay or an on-path "
             "attacker flips bits in key/auth/identifier/circuit id/candidates, swaps identifiers or circuit ids between pending "
             "handshakes, replays earlier answers, duplicates answers, or substitutes its own ephemeral key with a correct HMAC. "
             "Whenever the originator appends a hop: in runs without manipulation the entry reached by following the relays' "
             "routing tables at the selected peer must hold byte-identical session keys; with manipulation the hop is either "
             "rejected or the selected peer holds these keys, and accepted keys are never computable from what the adversary "
             "knows; established hops never change.",
        note="Trusts X25519/HMAC/HKDF of ipv8_rust_tunnels. A substituted ephemeral key with valid HMAC yields a hop nobody can "
             "use (broken circuit) which the statement does not forbid and the check does not flag."),
    "C09": dict(
        level="fault_enumeration", design="DESIGN.md 4/C09",
        technique=TECH + ": loss faults enumerated as every subset of <=2 (quick) / <=3 (thorough) control datagrams per "
                         "(hops x teardown initiator x phase) configuration, default timeouts under virtual time, crashes / clock "
                         "jumps / stalls / duplication sampled; emptiness oracle at a bound computed from the settings",
        text="For each of 27 configurations (1..3 hops; teardown by originator, middle relay, exit, or originator crash; half-built, "
             "ready, mid-transfer with open exit sockets) a fault-free profile lists the control datagrams (create, created, extend, "
             "extended, relayed handshake cells, destroy) by (link, kind, k-th); every subset up to the tier's size is dropped in "
             "its own run with DEFAULT TunnelSettings. The virtual clock is then advanced by circuit_timeout + (hops+2) x "
             "(inactivity + sweep + remove delay) + ping interval (+ backward clock jumps), after which no live node may hold a "
             "circuit, relay or exit entry, a pending removal task or an open outside transport. Throughout: no join at the "
             "joined-circuit limit, no relay forwarding more than max_relay_early flagged cells per circuit (also against an "
             "originator that keeps setting the flag).",
        note="Enumeration is over drop subsets of the profiled control datagrams; duplication, reordering, crashes of relays, "
             "stalls and clock jumps are sampled. Crashed nodes are not inspected."),
    "C11": dict(
        level="exploration", design="DESIGN.md 4/C11",
        technique=TECH + ": every shipped overlay class (default settings) in scripted multi-node runs on SimNet, unload at every "
                         "script step / seeded instants, late-datagram injection, two virtual hours; per-TaskManager future tracking; "
                         "seeded TaskManager register/replace/cancel interleavings",
        text="Each of the 9 shipped overlay classes and a multiplexed node runs its real protocol script with default settings; one "
             "node's overlay is unloaded at every step index (and at seeded instants inside steps, under loss/duplication), the "
             "user's in-flight operations are abandoned, then genuine late datagrams of every captured message id plus all 256 ids "
             "with garbage are delivered and 7200 virtual seconds pass. After unload() returned: no datagram with the overlay's "
             "prefix leaves the node, no lazy-wrapped handler / decode-map entry / cell handler / cache time-out runs, every task "
             "ever registered with the overlay, its request cache and its exit sockets is done, nothing of it (incl. the crypto "
             "endpoint) is listed on the endpoint, register_task creates nothing, every socket it opened is closed. A second "
             "family drives a real TaskManager with seeded register/replace/cancel sequences: an active name is refused, a "
             "replacement never starts before the replaced task finished.",
        note="'Unloading completed' = the awaitable of unload() is done. Operations the user still runs on the overlay while "
             "unloading it are cancelled by the harness (not attributed to the overlay). ipv8_service.IPv8 itself is not in the "
             "loop (overlays are multiplexed by the harness the same way)."),
    "C12": dict(
        level="exploration", design="DESIGN.md 4/C12",
        technique=TECH + ": operation histories (incl. snapshot/restart and LRU-overflow configurations) on the real Network "
                         "with a lock-step reference model; enumerated depth-5/6 sequences over two 8-op alphabets + seeded "
                         "histories up to 200 ops",
        text="The real peer graph and a small membership model execute the same explicit operation list (adds, discoveries, "
             "removals by peer and by address, address changes, blacklisting, every query, snapshot -> fresh graph -> load, garbage "
             "snapshots) with LRU cache sizes drawn from {1,2,3,500}; after every operation every lookup is observed three times "
             "and compared with the model (by key, by address, per service, walkable addresses, services of a peer), so stale "
             "caches, answers changed by asking, un-re-addable peers and verified blacklisted identities are caught. Exhaustive "
             "over all sequences of depth 5 (quick) / 6 (thorough) of the reduced alphabets, seeded sampling beyond.",
        note="Direct histories on a Network object plus an in-situ family (every 40th case): the Network objects of live "
             "multi-node runs (real handlers, RandomWalk, RandomChurn, loss, crashes, LRU sizes 1..3) are checked every "
             "simulated second against their own authoritative containers and the addresses/keys of removed peers. "
             "get_introductions_from is executed but not compared (the statement does not name it). Single-threaded."),
    "C13": dict(
        level="exploration", design="DESIGN.md 4/C13",
        technique=TECH + ": real Community nodes on real UDP/Dispatcher endpoints behind simulated cone NAT boxes (mapping + "
                         "filtering enforced by SimNet), full 4x4 NAT grid x placements x message styles, real RandomWalk steps, "
                         "quiescence-based phases, causality-linked puncture oracle",
        text="A public introducer, a requester and 1..5 candidates are placed behind none/full-cone/address-restricted/port-"
             "restricted NATs (all 16 combinations), behind one shared NAT (LAN segment) or public, with old- and new-style "
             "messages. After everybody walked to the introducer, the requester asks for an introduction and then performs its "
             "next contact attempts with the real RandomWalk. For every introduction the introducer hands out there must be a "
             "puncture-request (same causing datagram) to the introduced peer naming the requester; afterwards requester and "
             "introduced peer must be in each other's verified peers; same-NAT pairs must have connected over LAN addresses. "
             "Lossy configurations with retry rounds are judged only for rounds without loss. Grid complete in the quick tier, "
             "seeded variation (ports, latencies, orders, candidates) beyond.",
        note="Symmetric NATs, mapping time-outs and introductions handed out by NATed nodes are out of scope. NAT drop logs are "
             "evidence, not oracle."),
    "C14": dict(
        level="exploration", design="DESIGN.md 4/C14",
        technique=TECH + ": seeded histories (add/update/status change/clock advance/remove_bad_nodes/closest) on the real "
                         "RoutingTable under the virtual clock with adversarially clustered ids; Trie vs dict model over all key "
                         "subsets of length <=3",
        text="Histories of up to 2000 operations on the real RoutingTable with ids sharing long prefixes with the own id, node "
             "status driven by the simulated wall clock; after every step the bucket tree is checked to be prefix-free and "
             "complete (exact integer arithmetic), nodes to sit in their owning bucket, capacities, splits only on the own path, "
             "closest_nodes to equal a brute-force XOR sort for k in 1..20, generate_id to stay inside its bucket; the Trie is "
             "compared with a dict model on every query for all key subsets of length <= 3 and random longer ones.",
        note="Direct histories plus an in-situ family (every 12th table case): a simulated DHT of 8..40 real "
             "DHTDiscoveryCommunity nodes with RandomWalk and PingChurn, loss, latency-derived RTTs and crashing nodes, bucket "
             "sizes 2/3/8; all routing tables of all live nodes are checked every 5 virtual seconds. closest_nodes calls of the "
             "direct family are rate-limited per case by a deterministic cost estimate."),
    "C15": dict(
        level="exploration", design="DESIGN.md 4/C15",
        technique=TECH + ": 6..12 real DHTDiscoveryCommunity nodes on SimNet under virtual time (real 300 s token rotation and "
                         "3600 s value maintenance, clock jumps), adversary members injecting crafted store/find traffic, lock-step "
                         "per-node token/storage model built from observed wire traffic; direct Storage histories",
        text="Honest clients store and look up signed/unsigned values in several versions while two adversary identities send "
             "store / store-peer requests with fresh, expired, foreign-node, foreign-address, foreign-key, sniffed and garbage "
             "tokens from chosen source addresses, oversized / too many / forged / foreign-signed / rolled-back values, replays, "
             "and crafted find-responses; token rotations, maintenance runs and clock jumps are interleaved under loss, "
             "duplication and reordering. A per-node model (tokens read off find-responses leaving the node; rotation count) "
             "decides for every request whether Storage / store may change; stored versions never decrease; find_values returns "
             "signed data only if the harness' own verification succeeds and the highest version offered; nothing expired "
             "survives value_maintenance; store-peer only under the requester's own mid.",
        note="Ed25519 of ipv8.keyvault is trusted (harness verifies with it). A responder's unsigned values being cached by the "
             "client without a token is observed (probe) but not flagged: the statement is about store requests."),
    "C16": dict(
        level="exploration", design="DESIGN.md 4/C16",
        technique=TECH + ": arrival schedule of tokens is the searched object (all permutations for <=6 tokens over all 84 rooted "
                         "forest shapes, seeded beyond) with forged/foreign/dangling/duplicate fault injection; reference closure "
                         "oracle after every arrival",
        text="A receiver TokenTree is offered tokens of a source tree in explicit arrival schedules mixed with forged, foreign, "
             "dangling and duplicate tokens, wrong content and garbage serialisations; after every arrival and at the end the "
             "element / waiting sets are compared with a reference closure computed from the offers only, outcomes are compared "
             "across orders, and serialize_public round-trips. Exhaustive over arrival orders for <= 6 tokens in the thorough "
             "tier, sampled for larger trees.",
        note="Validity of a token is known by construction (trusts Ed25519 and SHA3-256). Delivery through IdentityCommunity "
             "messages is exercised by C17/C01 scenarios, not here."),
    "C17": dict(
        level="exploration", design="DESIGN.md 4/C17",
        technique=TECH + ": authority / subjects / outsider as real IdentityCommunity nodes with file-backed databases on SimNet "
                         "under virtual time (299 s vs 301 s registrations, restarts), dishonest senders and injected replays from an "
                         "explicit op list, consent model evaluated from the op history and the wire only",
        text="Seeded and motif-built operation lists (registrations with/without fixed metadata, attestation requests, doctored "
             "disclosures with wrong key / name / metadata / broken chain, replays just below and above 300 s, duplicate "
             "disclosures, third-party and forged attestations, missing-token requests from unpermitted peers and beyond the "
             "permitted index, restarts of the authority on its database file) run on four real nodes under loss / duplication / "
             "delay. Every AttestPayload leaving a node must match a registration (hash, subject key, name, fixed metadata, "
             "age < 300 s) over a chain the harness re-verifies, at most once per metadata; every new Attestations row must be "
             "signed by its sender; tokens leave only towards permitted peers and below the opened index.",
        note="The oracle never reads should_sign / known_attestation_hashes / permissions. One genuine defect is listed in "
             "known_findings.json (needs a schema migration to repair)."),
    "C19": dict(
        level="fault_enumeration", design="DESIGN.md 4/C19",
        technique=TECH + ": process death enumerated at every SQL statement / commit / close / insert boundary of scripted and "
                         "seeded workloads (file-copy crash model on real SQLite files), second crash during recovery, and (thorough) "
                         "real SIGKILL at every N-th write-class system call via strace fault injection",
        text="Workloads of credential, attestation and attestation-blob inserts with reopen cycles run against the real file-backed "
             "IdentityManager / IdentityDatabase / AttestationsDB; at every crash point (before each SQL statement incl. those of the "
             "schema script run on every open, after each commit/close/insert) the db/-wal/-shm files are copied and reopened by "
             "fresh objects, again at every crash point of that reopen. The reopen must not raise, every acknowledged row must be "
             "present byte-identical, every visible row must be one offered in full, and every rebuilt pseudonym must verify. "
             "Quick: all 518 first-level points of 6 scripted workloads + their second-level points + 60 seeded workloads "
             "(complete). Thorough: 2000 seeded workloads, 351 real SIGKILLs at write/pwrite64/ftruncate/fsync/fdatasync/unlink "
             "calls, self-killing children validating the copy model.",
        note="Models process death (page cache survives), not power loss. SQLite itself is trusted. strace tier is skipped with a "
             "probe if ptrace is unavailable."),
}

NOT_APPLICABLE = {
    "C02": "pure function of its input (codec round trip over field values/offsets/classes): no schedule, clock, fault or "
           "second party for a simulator to control; see DESIGN.md 4/C02",
    "C18": "pure functions of (value, key, challenge set, operands) incl. a symbolic clause; commutative aggregation, not a "
           "schedule; the time/fault-dependent protocol part is C10/C11 territory; see DESIGN.md 4/C18",
    "C20": "equivalence of three pure code paths over definitions x instances; no time, I/O, concurrency or second party; "
           "see DESIGN.md 4/C20",
}
NOT_YET = "check not built yet in this session (planned, see DESIGN.md section 9); not claimed until it exists"
ALL = [f"C{i:02d}" for i in range(1, 21)]


# Behaviour added after the three waves of independently seeded changes (DESIGN.md 10.6); appended to the level text.
ADDED = {
    "C12": "Also: add_verified_peer with an observer that removes the peer again from inside on_peer_added.",
    "C01": "Additionally the addresses of all verified peers of the receiver are compared around every non-authentic delivery. Histories in which the churn has just dropped the sender's verified peer before the non-authentic datagram arrives.",
    "C03": "Also: the statistics endpoint listening in every second case; correctly ENCRYPTED cells (sender holds the session keys) "
           "with empty / one-byte / short messages; slightly bumped length fields; a nested payload must end where its length prefix "
           "says; a 'codec' family hands corrupted genuine encodings of all 58 shipped Serializable classes to unpack_serializable(_list) "
           "at offset 0 and behind a pad. Late datagrams from the old and new address of a peer that roamed and was then dropped.",
    "C04": "Also: IPv8-shaped and own-prefix payloads over the e2e circuit, a dishonest rendezvous point reflecting relayed cells, the exit "
           "giving its side up while the outside host still answers during the removal grace period. Destinations given by host name (several packets inside the exit's resolver at once); nothing leaves the exit more often than it was sent. A second port under the same host name; a cell copy with one prefix bit flipped must cause no traffic. The exit gives a circuit up while the outside host keeps answering (window between dropping the entry and closing the socket).",
    "C05": "Also: created answers re-labelled with a live exit id, genuine signed overlay messages replayed from the adversary's address "
           "(neighbour addresses of backward entries compared), answers to plaintext creates made up by an off-path forger. A forged destroy for the surviving direction of a half-expired relay pair; a copy of a fresh circuit's first data cell reaching the exit first from the adversary's address. A third party's create racing with the genuine create for the same new id; a create for a new id at a node that is at its joined-circuit limit after a silent period.",
    "C07": "Also: exits whose flags the sender never learnt and a BitTorrent-only exit judged by its real flags, a second TunnelEndpoint "
           "of the process with the same overlay id, and: what a circuit is given is exactly what the overlay handed to its endpoint. "
           "Thorough enumerates depth 6 over 12 symbols completely and samples lengths 7..10. A send directly followed by giving up every circuit while a held-back backlog exists. Bursts to 150 destinations while held back: one send() hands a circuit at most its own packet + 100. Receive side: answers come back through the circuit to the anonymized overlay.",
    "C08": "Also: extends to a required exit the relay never met (the relay waits in a simulated slow DHT peer lookup) under duplication. Circuits built in one build_tunnels round with answers re-labelled (id + identifier) as answers to another outstanding create: the entry the circuit's route leads to must hold the accepted keys. A correctly encrypted candidate list led by an unparsable key; a required exit known to the originator under a stale address; unstable_timeout as a per-run knob. The application cancelling circuit.ready while the circuit is being built (no hop beyond the goal).",
    "C09": "Also: the circuit's first data packet chased by the teardown (gaps 0..50 ms, remove_tunnel_delay 0/5, socket opening yields "
           "like asyncio). Key answers altered in flight with nobody tearing the circuit down (the retry timer has to give it up).",
    "C10": "Also: caches with two managed futures and partial answers completed by the user. Requests outstanding across the task manager's periodic age check (900 s, 1500 s) and wall-clock steps.",
    "C11": "Also: TaskManager tasks with asynchronous clean-up, one ipv8_service case per default overlay, the broadcast bootstrapper, a "
           "peer sending create + data to a tunnel overlay while it is being unloaded. A slow attestation application with repeated requests (several suspended handlers of one sender), and the service with a walker interval that makes its ticker pause between strategies. The multiplexed node behind a TunnelEndpoint; TaskManager histories with wall-clock steps and long-running tasks.",
    "C13": "Also: candidates known to the introducer from an earlier life on another port, NATs handing out the same private /24. The first round's puncture-requests lost, the walker giving the address up and the introducer naming the peer again. Candidates whose peer table holds exactly max_peers.",
    "C16": "Also: one Token object offered to the trees of two identities. An ECDSA owner key signing one statement twice (two tokens); content attached to an element must survive later arrivals.",
    "C17": "Also: two pseudonyms of one user on one IdentityManager.",
    "C06": "Also: EMFILE when the outside sockets are opened, followed by a correctly keyed cell from another address (it must not reopen them). Exit flags reassigned at run time (packets judged by the flags then in force); circuits idle beyond unstable_timeout before any data.",
    "C14": "Also (in situ): nodes that come back under another IP address with the same key.",
    "C19": "Also: the batching API (with database:), a 130-token chain, and set iteration order at reload chosen by the simulator. A stored attestation delivered again (duplicate hash) at every crash point. One commit() of the workload failing like a full disk (the failed insert must not count as made); a credential refused by the tree rebuilt from the database is a violation.",
}


def main() -> None:
    checks = []
    for pid in ALL:
        c = CHECKS.get(pid)
        if not c or not os.path.exists(os.path.join(ROOT, "props")):
            continue
        checks.append({
            "property_id": pid,
            "quick_cmd": f"timeout 900 ./check {pid} --tier quick",
            "thorough_cmd": f"timeout 7200 ./check {pid} --tier thorough",
            "evidence_file": f"/verif/evidence/{pid}.json",
            "replay_cmd_template": f"./check {pid} --replay {{path}}",
            "engine": "simkit",
            "level_claimed": {"category": c["level"], "text": c["text"] + (" " + ADDED[pid] if pid in ADDED else ""),
                              "design_ref": c["design"]},
            "level_note": c["note"],
            "technique": c["technique"],
        })
    na = [{"property_id": p, "reason": r} for p, r in NOT_APPLICABLE.items()]
    na += [{"property_id": p, "reason": NOT_YET} for p in ALL if p not in CHECKS and p not in NOT_APPLICABLE]
    na.sort(key=lambda e: e["property_id"])
    m = {
        "version": 1,
        "setup_cmd": "/venv/bin/python -c \"import sys; sys.path.insert(0, '/verif'); import simkit.boot\"",
        "hooks": {
            "guard": "IPV8_VERIF",
            "enable": "no source hooks exist: every seam is taken from outside /repo by simkit (module attributes, event loop "
                      "interface); IPV8_VERIF is reserved and read by nothing in /repo",
            "baseline_off_cmd": "cd /repo && /venv/bin/python -m pytest -ra -q -p no:cacheprovider --timeout=900 "
                                "--continue-on-collection-errors",
            "source_commits": [],
            "add_only": True,
        },
        "engines": [{"name": "simkit", "path": "/verif/simkit", "serves_properties": sorted(CHECKS),
                     "kind_free_text": "deterministic discrete-event simulator for asyncio programs: virtual-time BaseEventLoop "
                                       "subclass, in-memory IP network with NATs and seeded faults, seeded PRNG streams, replay "
                                       "files, ddmin shrinker, 16-process seed sweep"}],
        "checks": checks,
        "not_applicable": na,
        "notes": "All checks: cwd=/verif, import ipv8 from /repo's working tree (PYTHONPATH), re-exec with PYTHONHASHSEED=0. "
                 "Exit 0 held / 1 VIOLATION with reproduced replay / 2 harness error. known_findings.json lists genuine defects "
                 "recorded rather than repaired; 'fixed:' entries suppress nothing.",
    }
    with open(os.path.join(ROOT, "MANIFEST.json"), "w") as f:
        json.dump(m, f, indent=1)
    try:
        import jsonschema
        jsonschema.validate(m, json.load(open("/root/.vp/MANIFEST.schema.json")))
        print("MANIFEST valid;", len(checks), "checks")
    except ImportError:
        print("jsonschema not available; not validated")


if __name__ == "__main__":
    sys.exit(main())
