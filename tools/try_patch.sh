#!/bin/sh
# tools/try_patch.sh <ID> <absolute patch file> [budget]  - run a check against a scratch worktree with the patch applied
ID=$1; P=$2; B=${3:-20}
WT=/tmp/try_$$; git -C /repo worktree add -q --detach $WT HEAD || exit 2
git -C $WT apply --whitespace=nowarn "$P" || { git -C /repo worktree remove --force $WT; exit 2; }
cd "$(dirname "$(readlink -f "$0")")/.." && VERIF_REPO=$WT timeout 3000 ./check $ID --budget $B --no-evidence 2>&1 | grep -E "VIOLATION|key=|ALSO|HARNESS|exit=" | cut -c1-260 | head -12
git -C /repo worktree remove --force $WT; rm -rf $WT
