"""Refresh the table of section 10.6 of DESIGN.md from /verif/seeded/*/meta.json."""
import os
import subprocess
import sys

ROOT = os.path.dirname(os.path.dirname(os.path.abspath(__file__)))
p = os.path.join(ROOT, "DESIGN.md")
s = open(p).read()
table = subprocess.run([sys.executable, os.path.join(ROOT, "tools", "seeded_table.py")], capture_output=True, text=True, check=True).stdout
a, b = "<!-- seeded-table-begin -->", "<!-- seeded-table-end -->"
i, j = s.index(a), s.index(b)
s = s[:i + len(a)] + "\n" + table + s[j:]
open(p, "w").write(s)
print("rows:", table.count("\n") - 2)
