"""
Evaluate one independently seeded change against the checks.

    /venv/bin/python tools/eval_seed.py <ID> <letter> [--src DIR] [--budget S] [--tier quick|thorough] [--keep]

Reads DIR/change<letter>.diff, demo<letter>.py, meta<letter>.json (default DIR=/tmp/seed/<ID>/_out), confirms in a scratch
worktree of /repo (outside /repo and /verif, removed afterwards) that the change applies, that the repository's own suite
stays green, that the demonstration fails with the change and passes without it, then runs ./check <ID> against the changed
worktree and stores everything under /verif/seeded/<ID>_<letter>/.
"""
import argparse
import json
import os
import re
import shutil
import subprocess
import sys
import time

ROOT = os.path.dirname(os.path.dirname(os.path.abspath(__file__)))


def sh(cmd, cwd=None, env=None, timeout=1800):
    p = subprocess.run(cmd, cwd=cwd, env=env, capture_output=True, text=True, timeout=timeout)
    return p.returncode, p.stdout + p.stderr


def main() -> int:
    ap = argparse.ArgumentParser()
    ap.add_argument("pid")
    ap.add_argument("letter")
    ap.add_argument("--src")
    ap.add_argument("--budget", type=float)
    ap.add_argument("--tier", default="quick")
    ap.add_argument("--skip-suite", action="store_true")
    ap.add_argument("--as", dest="as_letter", help="store under /verif/seeded/<ID>_<AS> instead of <ID>_<letter>")
    ap.add_argument("--check-id", help="run this property's check instead of <ID>'s (the change is in that check's territory)")
    args = ap.parse_args()
    pid, L = args.pid.upper(), args.letter
    src = args.src or f"/tmp/seed/{pid}/_out"
    patch = os.path.join(src, f"change{L}.diff")
    demo = os.path.join(src, f"demo{L}.py")
    meta_p = os.path.join(src, f"meta{L}.json")
    for f in (patch, demo):
        if not os.path.exists(f):
            print("missing", f)
            return 2
    meta = json.load(open(meta_p)) if os.path.exists(meta_p) else {}
    wt = f"/tmp/eval_{pid}_{L}_{os.getpid()}"
    out = {"property": pid, "variant": args.as_letter or L, "agent_meta": meta, "verified": {}, "check": {}}
    rc, o = sh(["git", "-C", "/repo", "worktree", "add", "--detach", wt, "HEAD"])
    if rc:
        print(o)
        return 2
    try:
        rc, o = sh(["git", "-C", wt, "apply", "--whitespace=nowarn", patch])
        out["verified"]["applies"] = rc == 0
        if rc:
            out["verified"]["apply_output"] = o[-800:]
            print("PATCH DOES NOT APPLY", o[-400:])
        else:
            env = dict(os.environ, PYTHONPATH=wt, PYTHONDONTWRITEBYTECODE="1")
            if not args.skip_suite:
                t0 = time.time()
                rc, o = sh(["/venv/bin/python", "-m", "pytest", "-q", "-p", "no:cacheprovider", "--timeout=900", "-x"], cwd=wt, env=env)
                tail = o.strip().split("\n")[-1]
                out["verified"]["suite_green_with_change"] = (rc == 0)
                out["verified"]["suite_tail"] = tail
                out["verified"]["suite_s"] = round(time.time() - t0)
            rc1, o1 = sh(["/venv/bin/python", demo], cwd=wt, env=env, timeout=600)
            envc = dict(os.environ, PYTHONPATH="/repo", PYTHONDONTWRITEBYTECODE="1")
            rc0, o0 = sh(["/venv/bin/python", demo], cwd="/repo", env=envc, timeout=600)
            out["verified"]["demo_exit_with_change"] = rc1
            out["verified"]["demo_exit_without_change"] = rc0
            out["verified"]["demo_output_with_change"] = o1[-600:]
            envk = dict(os.environ, VERIF_REPO=wt)
            cmd = ["./check", (args.check_id or pid).upper(), "--tier", args.tier, "--no-evidence"]
            if args.budget:
                cmd += ["--budget", str(args.budget)]
            t0 = time.time()
            rck, ok = sh(cmd, cwd=ROOT, env=envk, timeout=7200)
            keys = re.findall(r"key=(\S+)", ok)
            out["check"] = {"cmd": " ".join(cmd) + f"  (VERIF_REPO={wt})", "exit": rck, "violation_keys": sorted(set(keys)),
                            "caught": rck == 1 and "VIOLATION property=" in ok, "wall_s": round(time.time() - t0),
                            "tail": ok.strip().split("\n")[-1]}
    finally:
        sh(["git", "-C", "/repo", "worktree", "remove", "--force", wt])
        shutil.rmtree(wt, ignore_errors=True)
    dst = os.path.join(ROOT, "seeded", f"{pid}_{args.as_letter or L}")
    os.makedirs(dst, exist_ok=True)
    shutil.copy(patch, os.path.join(dst, "patch.diff"))
    shutil.copy(demo, os.path.join(dst, "demo.py"))
    out["breaks"] = pid
    out["needs_to_manifest"] = meta.get("what_it_needs_to_manifest")
    out["summary"] = meta.get("summary")
    out["what_i_ran"] = ["git worktree add (scratch) + git apply patch.diff", "full pytest suite in the changed worktree",
                         "demo.py with PYTHONPATH=changed worktree and with PYTHONPATH=/repo", out["check"].get("cmd")]
    with open(os.path.join(dst, "meta.json"), "w") as f:
        json.dump(out, f, indent=1)
    v = out["verified"]
    print(f"{pid}_{args.as_letter or L}: applies={v.get('applies')} suite_green={v.get('suite_green_with_change')} demo(with/without)="
          f"{v.get('demo_exit_with_change')}/{v.get('demo_exit_without_change')} caught={out['check'].get('caught')} "
          f"keys={out['check'].get('violation_keys')} | {meta.get('summary', '')[:110]}")
    return 0


if __name__ == "__main__":
    sys.exit(main())
