import os, sys
sys.path.insert(0, "/verif"); sys.path.insert(0, os.environ.get("VERIF_REPO", "/repo"))
from simkit import boot, seams
seams.install()
from simkit.scenario import Case
from simkit import probes
from props.overlay_scenarios import SCENARIOS
import collections, traceback
names = sys.argv[1:] or list(SCENARIOS)
for name in names:
    scn = SCENARIOS[name]
    c = Case({"seed": 1, "knobs": {}}, net=True)
    ent = collections.Counter()
    probes.on_handler_entry.append(lambda ov, fn, dec, data, poa, a: ent.update([(type(ov).__name__, fn, dec)]))
    sent = collections.Counter()
    c.net.on_send.append(lambda pkt, fate: sent.update([(pkt.data[22] if len(pkt.data) > 22 else None)]))
    async def main():
        nodes = await scn.build(c)
        async def step(i, what): print("   step", i, what, "t=%.2f" % c.loop.time())
        await scn.script(c, nodes, step)
        await scn.teardown(nodes)
    t0 = boot.REAL_PERF()
    try:
        c.world.run(main())
    except Exception:
        traceback.print_exc()
    print(name, "wall %.2fs" % (boot.REAL_PERF() - t0), "vt=%.1f steps=%d sent=%d recv_err=%d" % (c.loop.time(), c.loop.steps, c.net.n_sent, len(c.net.receive_errors)), dict(c.world.probes))
    for k, v in sorted(ent.items()): print("     ", k, v)
    print("      msgids sent:", dict(sorted(sent.items(), key=lambda kv: str(kv[0]))))
    print("      missing expected:", [h for h in scn.expect_handlers if not any(k[1] == h for k in ent)])
    for e in c.net.receive_errors[:3]: print("      RXERR", e["exc"], e["where"])
    for e in c.loop._exc_log[:5]: print("      LOOPEXC", e)
    c.result()
